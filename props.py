"""Property -> rules registry (DESIGN.md sections 0, 4, 5)."""
from rules import g_thread

TRUSTED_BASE = [
    'rustc front end / MIR construction (nightly 1.97) and syn 2 as parsers of the Rust sources',
    'combinator semantics transcribed from nom 7.1.3 / nom_locate 4 (versions asserted from Cargo.lock)',
    'expansion shape of #[packrat_parser] / #[recursive_parser] / #[tracable_parser] (analysed after expansion by E2, '
    'before expansion by E1)',
]

_cache = {}


def once(name, fn):
    """Rules shared by several properties are evaluated once per process."""
    def run(ctx):
        if name not in _cache:
            _cache[name] = fn(ctx)
        return _cache[name]
    return run


def pick(name, fn, *rule_ids):
    def run(ctx):
        out = once(name, fn)(ctx)
        if not isinstance(out, list):
            out = [out]
        return [r for r in out if r.rule in rule_ids]
    return run


G1G3 = ('g_thread', g_thread.run)

PROPS = {
    'C01': {
        'rules': [('G1', pick(*G1G3, 'G1')), ('G3', pick(*G1G3, 'G3'))],
        'explanation': 'Structural-induction premises for "the leaves of the tree tile the text": every production '
                       'threads the input span linearly and returns a node that contains each consumed output exactly '
                       'once, in consumption order, by construction only (G1); output is discarded only from '
                       'non-consuming look-ahead parsers (G3).',
        'decided': 'G1, G3',
        'not_decided': 'correctness of nom / nom_locate (trusted)',
        'assumptions': ['nom 7 combinators behave as documented'],
        'level_text': 'Exhaustive static check of the structural-induction premises of losslessness over every '
                      'production of the grammar (about 1300 parser bodies, 770 map closures): a violating production '
                      'is named. Holds for every input because it is a property of the program text.',
        'level_note': 'trusts nom/nom_locate semantics and the derive-generated child enumeration (checked separately by T1/T2)',
        'technique': 'custom syntax-tree dataflow lint (linear use of consumed outputs per production)',
    },
}

NOT_APPLICABLE = {
    'C05': 'value-level string rewriting (split_text state machine, replace chain) over all define/usage programs: no '
           'sound static abstraction in reach; its structural clauses are decided under C10/C03/C06',
    'C11': 'equality of define tables/outputs between two executions (two-file run vs concatenation) is a relation over '
           'run-time values; its structural clause (table written only by non-skipped events) is decided under C04 (X7)',
}


def rules_for(pid):
    return PROPS[pid]['rules']


def thorough_extra(ctx, pid):
    return []
