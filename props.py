"""Property -> rules registry (DESIGN.md sections 0, 4, 5)."""
import copy

from rules import x_incname, x_emit, x_macro, x_range, x_split, g_args, g_tail, p_errors, g_thread, g_cover, g_alt, g_struct, g_lex, k_keywords, t_tree, x_pp, x_calls, w_api, s_state, p_panic

TRUSTED_BASE = [
    'rustc front end / MIR construction (nightly 1.97) and syn 2 as parsers of the Rust sources',
    'combinator semantics transcribed from nom 7.1.3 / nom_locate 4 (versions asserted from Cargo.lock)',
    'expansion shape of #[packrat_parser] / #[recursive_parser] / #[tracable_parser] (analysed after expansion by E2, '
    'before expansion by E1)',
]

_cache = {}

MODULES = {
    'g_thread': g_thread.run, 'g_cover': g_cover.run, 'g_alt': g_alt.run, 'g_struct': g_struct.run,
    'x_incname': x_incname.run, 'x_emit': x_emit.run, 'x_macro': x_macro.run, 'x_range': x_range.run, 'x_split': x_split.run, 'g_args': g_args.run, 'g_tail': g_tail.run, 'p_errors': p_errors.run, 'g_lex': g_lex.run, 's_state': s_state.run, 'p_panic': p_panic.run,
    'k_keywords': k_keywords.run, 't_tree': t_tree.run, 'x_pp': x_pp.run, 'x_calls': x_calls.run, 'w_api': w_api.run,
}
# rule id -> module that computes it
RULE_HOME = {
    'G1': 'g_thread', 'G3': 'g_thread',
    'G5': 'g_cover', 'G8': 'g_cover',
    'G6': 'g_alt', 'G7': 'g_alt',
    'G0': 'g_struct', 'G9': 'g_struct', 'G10': 'g_struct', 'G11': 'g_struct', 'G12': 'g_struct', 'G13': 'g_struct', 'G14': 'g_struct', 'G15': 'g_struct', 'G21': 'g_struct',
    'K1': 'k_keywords', 'K2': 'k_keywords', 'K3': 'k_keywords', 'K4': 'k_keywords',
    'T1': 't_tree', 'T2': 't_tree', 'T3': 't_tree', 'G4c': 't_tree', 'T4': 't_tree',
    'X1': 'x_pp', 'X2': 'x_pp', 'X3': 'x_pp', 'X5': 'x_pp', 'X6': 'x_pp', 'X7': 'x_pp',
    'X8': 'x_calls', 'X9': 'x_calls', 'X10': 'x_calls', 'X11': 'x_calls', 'X12': 'x_calls', 'P2': 'x_calls',
    'W1': 'w_api', 'W2': 'w_api', 'W3': 'w_api', 'W4': 'w_api', 'W5': 'w_api', 'W6': 'w_api',
    'G2': 'g_lex', 'G4': 'g_lex',
    'S1': 's_state', 'S2': 's_state', 'S3': 's_state', 'S4': 's_state', 'S5': 's_state', 'S6': 's_state', 'S7': 's_state',
    'P1': 'p_panic', 'X4': 'x_emit', 'X13': 'x_macro', 'X14': 'x_macro', 'X15': 'x_macro', 'X16': 'x_macro', 'X17': 'x_range', 'X20': 'x_range', 'X21': 'x_incname', 'X18': 'x_split', 'X19': 'x_split', 'G6t': 'g_alt', 'G16': 'g_args', 'G17': 'g_args', 'G18': 'g_args', 'G22': 'g_args', 'G19': 'g_tail', 'G20': 'g_tail', 'G23': 'g_tail', 'P3': 'p_errors',
}


def register(rule_id, module_name, fn):
    MODULES[module_name] = fn
    RULE_HOME[rule_id] = module_name


def rule(rule_id, keep=None, drop=None):
    """Evaluate the module of `rule_id` once per process and return that rule's result;
    keep/drop filter findings by substring of the key (a rule shared by two properties
    reports each finding under the property whose clause it breaks)."""
    def run(ctx):
        mod = RULE_HOME[rule_id]
        if mod not in _cache:
            out = MODULES[mod](ctx)
            _cache[mod] = out if isinstance(out, list) else [out]
        res = [r for r in _cache[mod] if r.rule == rule_id]
        if not res:
            raise RuntimeError('rule %s produced no result (module %s)' % (rule_id, mod))
        if keep is None and drop is None:
            return res
        out = []
        for r in res:
            r2 = copy.copy(r)
            r2.findings = [f for f in r.findings
                           if (keep is None or any(k in f.key for k in keep) or ':floor:' in f.key or ':anchor:' in f.key or ':crash' in f.key)
                           and not (drop is not None and any(k in f.key for k in drop))]
            out.append(r2)
        return out
    return (rule_id, run)


LOOKAHEAD = ['lookahead-no-boundary']
# attribution only: findings of the grammar rules on the lexers of macro definitions and usages belong (also) to C05
MACRO_LEXERS = [':macro_text:', ':default_text:', ':define_argument', ':actual_argument', ':text_macro_', ':list_of_actual_arguments', ':list_of_formal_arguments', ':formal_argument']

PROPS = {
    'C01': {
        'rules': [rule('G0'), rule('G1'), rule('G2'), rule('G3'), rule('G4'), rule('G10'), rule('G11'), rule('T1'), rule('T2'), rule('T3'),
                  rule('G4c'), rule('W4'), rule('W5', drop=['get_str_trim:']), rule('G20')],
        'explanation': 'Structural-induction premises for "the leaves of the tree tile the preprocessed text". Terminals: the token '
                       'helpers keep the lexeme and its trailing trivia (G0, G1 on the helper closures); multi-fragment lexemes join their '
                       'fragments in order and convert the whole joined span (G2, 28 lexeme functions); Locate = byte offset / line / '
                       'byte length of the fragment and concat keeps the first fragment\'s position (G4). Sequencing: every one of '
                       'the ~1300 productions threads the input span linearly and returns a node containing each consumed output '
                       'exactly once, in consumption order, by construction only (G1); output is discarded only from look-ahead '
                       '(G3). Enumeration: the RefNodes conversions (T1) and the derive-generated next()/into_iter()/Locate-merge '
                       'of all 1242 node types (T2, T3, G4c; macro-expanded source) enumerate children in field order. Whole '
                       'text: strict entries end in many_till(ITEM, eof) (G10), incomplete ones are their many0 relaxation (G11: '
                       'a prefix). Same text: a SyntaxTree is built only together with the text that was parsed (W4) and '
                       'get_str slices first-leaf-start .. last-leaf-end of it (W5). By induction over the grammar the leaves, in '
                       'iteration order, are adjacent and start at 0.',
        'decided': 'G0 G1 G2 G3 G4 G10 G11 T1 T2 T3 G4c W4 W5',
        'not_decided': 'correctness of nom / nom_locate (trusted): byte offsets, line counting and char boundaries of the '
                       'fragments the lexers return',
        'assumptions': ['nom 7 combinators and nom_locate behave as documented',
                        'trees are produced by the parser (node structs have public fields; hand-built trees are outside the claim)'],
        'level_text': 'Exhaustive static check of the structural-induction premises of losslessness over every production of the '
                      'grammar (about 1300 parser bodies, 770 map closures) and every generated child enumeration (1242 node '
                      'types): a violating production or impl is named. Holds for every input because it is a property of the '
                      'program text, not of sampled runs.',
        'level_note': 'trusts nom/nom_locate semantics; the argument is an induction whose per-production premises are what is checked',
        'technique': 'custom syntax-tree dataflow lint (linear use of consumed outputs per production) + macro-expanded impl audit',
        'needs_exp': True,
    },
    'C02': {
        'rules': [rule('G0'), rule('G5'), rule('G6'), rule('G7', drop=LOOKAHEAD), rule('G8'), rule('G1'), rule('G3'), rule('T1'), rule('T2'), rule('G17', keep=['string-literal:']), rule('G18', keep=['escaped-identifier:']), rule('G12', keep=['lookahead-spans-tokens', 'trivia-inside-compound-token']), rule('G14', keep=['digit-run-continuation']), rule('S1', keep=['VERSION', 'DIRECTIVE']), rule('S3')],
        'explanation': 'Necessary conditions for "accepted and classified under their production", anchored in the three stated '
                       'mechanisms. One parser per production, every production addressable: every parser is reachable from an '
                       'entry and every CST struct / enum variant (the repository\'s own copy of Annex A: 936 structs, 1048 '
                       'variants) is constructed by a reachable parser (G5); a keyword arm builds the variant named after the '
                       'keyword (G8). Ordered choice picks the intended production: no alternative is shadowed by an earlier '
                       'literal alternative (G6). Keywords need a word boundary: word-shaped terminals go through keyword(), '
                       'whose every success path tests the boundary over the identifier alphabet (G7). All literal forms: the string-literal '
                       'lexeme follows the escape discipline of 5.9 (G17).',
        'decided': 'G0 G5 G6 G7a/c G8 G17 S1v — S1v: the keyword-version and directive stacks are reset by every entry before parsing, so the reserved-word set a sentence is lexed under does not depend on earlier calls (the property quantifies over programs); the token helpers mean what the grammar model assumes (ws = token then all trivia, keyword = word + boundary, brackets = both delimiters: random layout between tokens is skipped after every token); coverage, ordering and word-boundary necessary conditions; G1 G3 T1 T2 for the clause "every identifier or keyword of the source is exactly one leaf / each construct appears exactly once" (consumed outputs are kept once, children are enumerated once, in order)',
        'not_decided': 'acceptance of all Annex A sentences (needs the Annex A BNF, absent from the repository, and a PEG/CFG inclusion '
                       'check); non-literal shadowing between alternatives',
        'assumptions': ['the CST type definitions are the reference for "the Annex A node kind of a construct"'],
        'level_text': 'Exhaustive static coverage/ordering analysis of the grammar: each unreachable production, never-built node kind, '
                      'shadowed alternative or boundary-less word terminal is named. It decides necessary conditions, not language '
                      'acceptance.',
        'level_note': 'partial: language inclusion is out of reach for static analysis here',
        'technique': 'call-graph reachability + constructor coverage over the CST type graph; ordered-choice prefix analysis; MIR state-reset inventory',
        'needs_mir': True,
    },
    'C03': {
        'rules': [rule('X1'), rule('X2'), rule('X3'), rule('X17'), rule('X20'), rule('X14', keep=['define-record', 'write-conditional:define']), rule('W6'), rule('W5', keep=['get_origin'])],
        'explanation': 'Every emission site that copies source text records Range(offset, offset+len) of exactly that text under the '
                       'file being read (X1, 21 sites); only new/push/merge write the text and the map, push keys each segment by '
                       '[len before, len before + s.len()) and merge re-bases keys and origins (X3), so keys tile the output; keys '
                       'are never empty (X2), which is what Range\'s overlap-as-equality ordering needs for a 1-byte probe to find '
                       'exactly the segment containing it; text without origin is pushed only by the `__FILE__/`__LINE__ arm and '
                       'expansions carry the origin stored with the macro definition (X3).',
        'decided': 'X1 X2 X3 X14d X17 X20 (X20: origin(pos) probes the one byte at pos, translates by the segment offset, and is None only when the map has no entry or the segment has no origin — on every path, for every valid position of a small domain; X14d: the Define recorded by a `define — whose body origin is what an expansion is attributed to — is built from that directive and written on every path through the handler; X17: Range::eq / cmp interpreted on all 13 order types of the four endpoints: eq is overlap, cmp is Equal iff overlap else by begin)',
        'not_decided': 'that macro origins are "not before the macro body"; double emissions after string literals (X4, registered with C06)',
        'assumptions': ['BTreeMap look-up with a consistent order on disjoint non-empty ranges'],
        'level_text': 'Exhaustive static audit of all emission sites and writers of the origin map; an emission whose recorded range is '
                      'not the range of the copied text is named.',
        'level_note': 'partial: arithmetic inside merge/origin is matched structurally (three statements), not proved',
        'technique': 'call-site agreement lint (text argument vs recorded range) + who-may-write analysis',
    },
    'C04': {
        'rules': [rule('X5'), rule('X6'), rule('X7'), rule('X15'), rule('G7', keep=LOOKAHEAD), rule('X14'), rule('X10', keep=['defines']), rule('X9', keep=['stale-table'])],
        'explanation': 'The definedness predicate is evaluated on one name (X5); the `ifdef and `ifndef handlers are the same '
                       'algorithm up to the negated first test (X6); nothing in a skipped region can touch the define table, the '
                       'output, raise an error or start a nested run, because the skip guard precedes every effect of the loop '
                       '(X7); branch bodies end only at a real `elsif/`else/`endif, the look-ahead testing the word boundary (G7b). "The define '
                       'table in force at that point": the table is written only by `define (own name), `undef (exactly the name given), '
                       '`undefineall and by adopting — replacing, not merging — the table a nested run returns, so an `undef inside an '
                       'included file or a macro body is in force afterwards (X14, X10).',
        'decided': 'X5 X6 X7 X15 G7b X14 X10 (X15: the branch-selection statements of both handlers are interpreted over the four abstract states hit x condition: first branch kept iff its condition holds, an `elsif body skipped iff hit or its condition fails, hit updated as hit or condition, `else skipped iff hit)',
        'not_decided': 'token-for-token output',
        'assumptions': [],
        'level_text': 'Static sibling-agreement, guard-dominance and predicate-consistency checks over the conditional-compilation '
                      'handlers; each deviating test or unguarded effect is named.',
        'level_note': 'partial: decides structural necessary conditions of 22.6 branch selection',
        'technique': 'sibling cross-check + must-precede (guard before effect) analysis on the event loop',
    },
    'C09': {
        'rules': [rule('X8'), rule('P3'), rule('X9')],
        'explanation': 'Termination by ranking over the real call graph of the preprocessor: the recursive component '
                       '{preprocess_str, preprocess_inner, resolve_text_macro_usage} is found from the call graph; every edge '
                       'carries both depth counters unchanged or +1 (no reset, no drop), every simple cycle increments a counter '
                       'whose `> RECURSIVE_LIMIT => ExceedRecursiveLimit` guard lies on the cycle, public entries start the '
                       'counters at 0, the guard operator is `>` (so exactly RECURSIVE_LIMIT levels succeed), RECURSIVE_LIMIT = 64 '
                       '>= 15. "Wrapped once per include level" is X10 on the include edge (registered with C10). The error raised by the '
                       'guard reaches the caller: at every call site inside the component (and in the façade) the error of a nested run is '
                       'handed on with `?`, returned, or re-raised by the Err side of a match, never replaced by a default (P3).',
        'decided': 'X8 P3 (as a whole: termination + limit arithmetic + the limit error is the one reported)',
        'not_decided': 'stack size needed for 64 levels',
        'assumptions': [],
        'level_text': 'A termination argument (ranking function) checked on every edge and cycle of the recursive component, including '
                      'the mixed macro/include cycles no test builds.',
        'level_note': 'counters are matched by parameter name inside one crate; arithmetic limited to +1 / constants',
        'technique': 'call-graph SCC + per-edge counter transfer analysis (ranking argument)',
    },
    'C10': {
        'rules': [rule('X9'), rule('X10'), rule('X11'), rule('X12'), rule('X16'), rule('X21'), rule('W6'), rule('P2'), rule('P3')],
        'explanation': 'The live define table goes into the nested run and the returned table is adopted, the included text is merged '
                       '(X9, X10); a failing included run is wrapped in Error::Include and a missing file is File{path tried} (X10, '
                       'P2); nothing opens or probes a file unless the arm guard `!ignore_include` holds (X11); flags are forwarded '
                       'to the parameter of the same name (X9); the search uses the literal path when absolute or existing, else '
                       'the include paths in the given order with the first hit winning, and that path is the one opened (X12).',
        'decided': 'X9 X10 X11 X12 X16 P2 (X16: the same-line bookkeeping treats plain text and directives alike, the `include arm records its line and rejects an item already on it)',
        'not_decided': 'file-system semantics of exists/join; that line numbers compare as the standard intends for multi-line items; "contributes no tokens"',
        'assumptions': [],
        'level_text': 'Static call-site and control-dependence checks on the `include handler; each mis-forwarded argument, dropped result '
                      'or unguarded file access is named.',
        'level_note': 'partial: shape of the search loop, not the file system',
        'technique': 'named-parameter threading lint + must-adopt / control-dependence checks',
    },
    'C14': {
        'rules': [rule('G10'), rule('W3'), rule('W1'), rule('G0'), rule('G14'), rule('G21'), rule('X20'), rule('G22'), rule('G17', keep=['string-literal:']), rule('W6'), rule('X1', keep=['unscanned-exit']), rule('K2'), rule('W2'), rule('X9', keep=['swapped'])],
        'explanation': 'Strict entries cannot succeed before end of input; bracket helpers demand both delimiters; no closing delimiter or '
                       'block-closing keyword is optional anywhere in the grammar (G10, G0); failures are mapped to Error::Parse '
                       'through the origin map of the parsed text and to Error::Preprocess with the path being read (W3), '
                       'identically for both grammars (W1). The preprocessor grammar is made strict by all_consuming in its caller and is '
                       'itself total (many0 of items), so a preprocessor-level fault is reported where the repetition stopped: at the start '
                       'of the first item that does not parse, never after the fault (G21).',
        'decided': 'G10 G0 W3 W1 G21 X20 G22 G17 (an unterminated block comment or string literal is a lexical fault: the closer is mandatory and not searched with a fallback; the location of an Error::Parse is present: origin() has no None path for a position whose segment has an origin)',
        'not_decided': 'that the Error::Parse position of the main grammar is not after the fault (GreedyError run-time maximum); that every '
                       'deletion makes some production fail',
        'assumptions': [],
        'level_text': 'Static strictness-structure and error-mapping audit.',
        'level_note': 'partial',
        'technique': 'grammar-shape lint (mandatory closers, eof-terminated entries) + error-mapping site audit',
    },
    'C15': {
        'needs_mir': True,
        'rules': [rule('G9'), rule('G11'), rule('W2'), rule('G19'), rule('S3'), rule('G14', keep=['streaming-parser'])],
        'explanation': 'The incomplete entries consist only of combinators that cannot fail (many0, opt) over item parsers that cannot '
                       'succeed on empty input (G9: least-fixed-point nullability over the grammar; 363 repetition sites) and no '
                       'parser raises nom Failure/cut (G11) => never Error::Parse; they are the strict entries with many_till(X, eof) '
                       'relaxed to many0(X) and build the same node (G11) => on an input the strict entry accepts they perform the '
                       'same item parses; allow_incomplete selects `<entry>_incomplete`, its absence `<entry>` (W2). Trailing unparsable text '
                       'cannot take the last description with it: in tail position of a description no parser step is applied '
                       'conditionally on an earlier optional step, so every optional tail is atomic and the description ends before text it '
                       'cannot use (G19).',
        'decided': 'G9 G11 W2 G19 (as a whole, given C17 for determinism of item parsers and C01 for losslessness)',
        'not_decided': '',
        'assumptions': ['nom many0/opt never fail on Err::Error'],
        'level_text': 'Totality argument checked statically: combinator totality + grammar nullability fixed point + sibling equality.',
        'level_note': 'relies on nom semantics of many0/opt and absence of Failure',
        'technique': 'nullability fixed point over the grammar IR + sibling IR equality',
    },
    'C16': {
        'rules': [rule('T1'), rule('T2'), rule('T3'), rule('T4'), rule('W5', keep=['get_str_trim:', 'get_str:']), rule('G20')],
        'explanation': 'Children are enumerated in source (field) order by every RefNodes conversion (T1) and by the generated '
                       'Node::next of all node types; RefNode::next / into_iter / From<&AnyNode> dispatch every variant to its own '
                       'payload (T2); Iter is constructed with its stack reversed exactly once at each of its construction sites (T3).',
        'decided': 'T1 T2 T3 (enumeration order and dispatch) T4 W5 (the two stack machines, the first-match macros and get_str_trim inspected against enumerated forms)',
        'not_decided': 'a proof of Iter/EventIter over all tree shapes (T4 checks the discipline: pop, expand reversed once onto the same stack, Leave before children — from which pre-order and balance follow by a short stack argument that is written in the evidence, not machine-checked)',
        'assumptions': [],
        'level_text': 'Exhaustive audit of generated and hand-written child enumeration (1242 types).',
        'level_note': 'narrow: the two iterator stack machines are not verified',
        'technique': 'macro-expanded impl audit',
        'needs_exp': True,
    },
    'C20': {
        'rules': [rule('W1'), rule('W2'), rule('X9'), rule('W6')],
        'explanation': 'Each facade function is a fixed composition of the next layer: parse_X / parse_X_str are exactly `let (text, '
                       'defines) = preprocess[_str](..)?; parse_X_pp(text, defines, allow_incomplete)` and the sv and lib families are '
                       'identical up to the entry called (W1); every parameter is forwarded to the parameter of the same name, '
                       'strip_comments=false and depth 0 are the only constants (X9); preprocess = read the file, then '
                       'preprocess_str with the same arguments (X9 on the internal calls) and with exactly the buffer that was read, not re-bound or '
                       'modified in between (W6); the mode is chosen identically (W2).',
        'decided': 'W1 W2 X9 W6 (as a whole: under these premises the stated equalities are immediate)',
        'not_decided': '',
        'assumptions': ['reading a file yields the string the caller would pass'],
        'level_text': 'Wrapper-equivalence by structural identity and argument threading, checked for every call site.',
        'level_note': '',
        'technique': 'sibling AST equality modulo substitution + named-parameter threading lint',
    },
    'C07': {
        'rules': [rule('S1'), rule('S2'), rule('S7'), rule('S3'), rule('G13')],
        'explanation': 'The result of a call can depend on its arguments, on files, or on mutable state that outlives a call. S1 '
                       'enumerates the latter completely from the type-checked program (every static of the six crates; the '
                       'thread-local keys of the parser crate; no other crate has any) and shows that each key is cleared by a '
                       'function reachable from init(); S2 shows that the externally reachable functions of the parser crate that '
                       'reach the grammar are exactly the five entries and that each calls init() first (nothing else is a door); '
                       'S7 covers the one piece of per-thread state living in std (HashMap seeds): the only hash-map iteration '
                       'feeds an insert into another map; G13 keeps nom-recursive\'s name->bit table meaning-free (capacity '
                       'suffices); S3 (scope balance) is reported here informationally, leaks being erased by the next init().',
        'decided': 'S1 S2 S7 G13 (+S3) — as a whole',
        'not_decided': 'statics inside third-party dependencies are inventoried in the thorough tier (S5 closure)',
        'assumptions': ['nom_recursive::RECURSIVE_STORAGE maps parser names to bit indexes monotonically; its content has no effect on results while G13b holds'],
        'level_text': 'Complete inventory of state that outlives a call + reset exhaustiveness + entry dominance, decided on MIR with '
                      'resolved callees; covers every history of previous calls (failed, aborted by the recursion limit, open '
                      '`begin_keywords) because init() clears every item unconditionally.',
        'level_note': 'trusts that thread_local! storage is what std documents; dependency crates audited in the thorough tier',
        'technique': 'MIR-level state inventory, reachability (reset exhaustiveness) and must-call-first dominance check',
        'needs_mir': True,
    },
    'C08': {
        'rules': [rule('P1'), rule('P2'), rule('S6'), rule('G13'), rule('X8'), rule('G2'), rule('G9'), rule('G4', keep=['locate-field-assigned', 'locate-fields', 'concat-position']), rule('T1')],
        'explanation': 'Every panic-capable site of the five runtime crates (found on MIR: unwrap/expect, core::panicking, indexing, '
                       'RefCell borrows, Assert terminators) is put in a class and each class is discharged by a structural rule: '
                       'lexeme joins by G2 (adjacent by construction, many1 non-empty); Locate::try_from(&node).unwrap() by "the node '
                       'type must contain a Locate on every shape" (least fixed point over the CST type graph); identifier(..).unwrap() '
                       'likewise for identifiers; Range::new\'s assert by the form of all call sites; Locate::str slicing by "callers '
                       'pass their own text"; RefCell borrows by S6 (with-closures are leaves); the derive\'s adjacency assert by '
                       'C01. io errors are mapped (P2); nom\'s loop guard is an Err (G9); recursion is bounded (X8); the recursion '
                       'tracer cannot overflow (G13).',
        'decided': 'P1 P2 S6 G13 X8 G2 G9',
        'not_decided': 'panics inside third-party crates on their own invariants; stack exhaustion by bracket nesting (excluded by the statement); '
                       'arithmetic-overflow checks of debug builds (excluded by kind)',
        'assumptions': ['nodes handed to Locate::try_from / iteration come from a parse (node structs have public fields)'],
        'level_text': 'Panic-site inventory on MIR with every site discharged by a checked structural fact; an undischarged or new '
                      'panic-capable call is named.',
        'level_note': 'the discharge arguments are reductions to other checked rules, not proofs of the called library code',
        'technique': 'MIR panic-site inventory + type-graph least fixed point (must-contain) + call-site form checks',
        'needs_mir': True,
    },
    'C12': {
        'rules': [rule('S3'), rule('G0'), rule('G12'), rule('G14'), rule('G5'), rule('G6t'), rule('G22'), rule('G23')],
        'explanation': 'A directive parsed as trivia leaves the directive stack and the keyword-version stack as it found them on every '
                       'path: forward dataflow over the MIR CFG of all 8310 bodies of the parser crate computes the net effect at each '
                       'return; every body is neutral except the two directives whose meaning is the effect (S3). Every grammar-level '
                       'terminal skips trivia through ws(); raw lexers occur only inside lexemes, inline token definitions or '
                       'look-ahead; tokens without trailing trivia are joined only in the enumerated contexts (G12). The four trivia '
                       'kinds and `resetall as a description are reachable and constructed (G5). Inside the grammar the trivia function can '
                       'reach (blanks, comments, directives kept as trivia: where a directive ends decides what the parser sees after it) no '
                       'alternative of an ordered choice is shadowed by an earlier literal alternative (G6t).',
        'decided': 'S3 G0 G12 G14 G5 G6t',
        'not_decided': 'equality of trees under re-layout (a relation between two runs)',
        'assumptions': [],
        'level_text': 'Path-sensitive (per-CFG-path) scope-balance analysis on MIR + token-layering lint over the grammar.',
        'level_note': 'partial: necessary conditions',
        'technique': 'MIR forward dataflow (net push/pop effect per path) + grammar layering lint',
        'needs_mir': True,
    },
    'C13': {
        'rules': [rule('K1'), rule('K2'), rule('K3'), rule('K4'), rule('S3'), rule('S4')],
        'explanation': 'The eight keyword tables equal the reserved-word sets of IEEE 1800-2017 22.14 / Annex B (independent oracle, 1452 '
                       'words) and the directive table the 20 directive names (K1); begin_keywords maps each specifier to the Version '
                       'of the same name and is_keyword each Version to the table of the same name, default 1800-2017, comparing the '
                       'whole lexeme (K2); version_specifier has one keyword()/begin_keywords pair per specifier (K3); every '
                       'SimpleIdentifier/CIdentifier lexer refuses is_keyword(whole lexeme) (K4); the version stack is pushed/popped '
                       'in matched pairs on every path except by the two directives (S3); the remaining way it can drift — the '
                       'directive effect replayed or skipped by memo hits, and the un-keyed CURRENT_VERSION — is S4.',
        'decided': 'K1 K2 K3 K4 S3 S4',
        'not_decided': '',
        'assumptions': ['oracle/keywords.json is a faithful transcription of the standard'],
        'level_text': 'Table-vs-standard comparison, dispatch agreement and scope balance, all exhaustive over their finite domains.',
        'level_note': 'S4 findings are by-design (known findings)',
        'technique': 'oracle table comparison + dispatch-agreement lint + MIR scope-balance dataflow',
        'needs_mir': True,
    },
    'C17': {
        'rules': [rule('S4'), rule('G13'), rule('S3'), rule('S1', keep=['PACKRAT', 'thread-local-count']), rule('S2')],
        'explanation': 'Necessary conditions for the memo being transparent: keys are unique (the memo is keyed by the bare function '
                       'name: G13a); the extra key covers every thread-local that memoised parsers (transitively) access (S4a); '
                       'memoised parsers have no effect besides their result (S4b); scopes are balanced so that a replayed result '
                       'was computed in the same scope depth (S3); the table is emptied on the way into every entry, unconditionally, '
                       'so a hit can only replay a result of the same parse over the same text (S1 for the memo key, S2).',
        'decided': 'S4 G13 S3 S1(memo) S2',
        'not_decided': 'recursion flags carried in the span (nom-recursive) are also inputs of 93 memoised functions and not in the key — library design',
        'assumptions': [],
        'level_text': 'Effect/dependency analysis of all 1210 memoised parsers over the resolved call graph.',
        'level_note': 'the two by-design violations (keyword-version stack) are known findings F2',
        'technique': 'MIR call-graph reachability to thread-local accessors (purity / key-coverage check)',
        'needs_mir': True,
    },
    'C19': {
        'rules': [rule('S5')],
        'explanation': 'Safe Rust + no writable shared static + no process-global effect => calls on different threads cannot observe each '
                       'other. S5 checks on MIR that every static of the workspace crates is thread-local or immutable and Freeze, that '
                       'no body calls an environment/file-system-writing/process/atomics/sync API (88 000 call sites scanned), and that '
                       'the only unsafe callees are the three audited ones, each touching only its arguments.',
        'decided': 'S5 (as a whole, for the workspace crates; dependency closure in the thorough tier)',
        'not_decided': '',
        'assumptions': ['Rust aliasing rules for safe code', 'memchr\'s AtomicPtr CPU-feature dispatch is idempotent'],
        'level_text': 'The standard Rust data-race-freedom argument made explicit and checked exhaustively on the type-checked program.',
        'level_note': '',
        'technique': 'MIR static/effect inventory (shared-state and global-effect freedom)',
        'needs_mir': True,
    },
    'C06': {
        'rules': [rule('X4', drop=['strip-']), rule('X1'), rule('G10'), rule('G15'), rule('G17', keep=['string-literal:']), rule('G18'), rule('G22'), rule('W6'), rule('X2'), rule('X3', keep=[':none-origin', ':push', ':merge']), rule('X13', keep=['re-preprocess', 'expansion-text'])],
        'explanation': 'Restricted to the directive-free part of the pp type graph (SourceDescription::{Comment, StringLiteral, NotDirective, '
                       'EscapedIdentifier} and their trivia) every leaf is emitted exactly once: each variant has an emitting arm (X4b), an '
                       'arm that pushes its whole node either skips the node, or suppresses exactly the descendants that would emit '
                       'again, or the node is a single leaf (X4a); each emission records its own range as origin (X1) — identity on text '
                       'and offsets; the preprocessor applies all_consuming to pp_parser, so nothing is dropped silently (G10). The string '
                       'alternative of the partition ends a literal only at an unescaped quote: its interior stops at quote and backslash and '
                       'every backslash takes the next character with it (G17), so a string is rejected only when it is unterminated. The plain-text '
                       'run stops exactly at the first characters of its sibling alternatives, and a lone `/` is refused exactly before the '
                       'second character of a comment opener (G18): no directive-free character sequence is left without an alternative.',
        'decided': 'X4a X4b X1 X2 X3p W6 G10 G17 G18 G22 G15 (X2/X3p: the origin map is keyed by exactly the byte range that was appended; W6: the file entry hands on exactly the bytes it read; G15: a token-level boundary test that needs a next character has an end-of-input alternative, so text ending right after the token is not rejected)',
        'not_decided': 'the rejection clause (which inputs pp_parser rejects); the fixed-point clause (a relation between two runs)',
        'assumptions': ['below a CompilerDirective node white_space yields only WhiteSpace::Space (premise checked from the white_space body and the begin/end_directive bracket)'],
        'level_text': 'Arm-by-arm emission analysis over the CST type graph: each arm that can emit a leaf twice or a kind without handler is named.',
        'level_note': 'partial; the known double emission after string literals / escaped identifiers is frozen in golden files',
        'technique': 'type-graph reachability + per-handler effect summary (exactly-once emission)',
    },
    'C18': {
        'rules': [rule('X9'), rule('X4'), rule('X13', keep=['re-preprocess']), rule('G22'), rule('X18', keep=['comment-char-kept'])],
        'explanation': 'strip_comments reaches every nested run unchanged (X9: includes, macro expansion, `include via macro); under the flag '
                       'the only arm whose behaviour changes is the Comment arm, which emits a separator in place of the comment so '
                       'that neighbouring tokens are not joined; no arm that emits non-comment text is disabled by the flag; whole-node '
                       'pushes that can still contain a comment are reported (X4c, X4a). A one-line comment of a macro body never reaches the '
                       'expansion (X18 `comment-char-kept`): there it would run to the end of the line of the usage, which the two modes treat differently.',
        'decided': 'X9 X4 X18(comment-char-kept)',
        'not_decided': 'equality of the token sequences of two runs (relation between executions)',
        'assumptions': [],
        'level_text': 'Flag-threading lint + emission-class analysis under strip mode.',
        'level_note': 'partial',
        'technique': 'named-parameter threading lint + per-handler emission classes under the flag',
    },
    'C05': {
        'rules': [rule('X13'), rule('X18'), rule('X19'), rule('G16'), rule('G17', keep=['argument-string:']), rule('G6', keep=MACRO_LEXERS), rule('X14', keep=['define-table-seed']), rule('X1', keep=['early-exit-before-copy', 'text-assembled']), rule('P3'), rule('X9'), rule('X10'), rule('X4', drop=['strip-', 'double-emission'])],
        'explanation': 'NARROW claim: the structural clauses of macro expansion, the run-splitting of the macro body, the substitution loop with its '
                       'rewrite table and the nesting discipline of the argument lexer are decided; the expanded text as a value is not. '
                       'Misuse is reported by name: DefineNotFound carries the name that was used, DefineArgNotFound the formal that got '
                       'no value, DefineNoArgs the macro name and is raised exactly when the macro has formals and the usage has no '
                       'argument list; formals are walked in order and bound to the actual of the same index, falling back to the '
                       'default in both omitted-argument cases; a macro without body expands to nothing; the name is looked up in the '
                       'table passed in (X13). The tokeniser of the macro body is a finite-state transducer over character classes: '
                       'its body is interpreted over one representative per class in product with the lexical contexts of 22.5.1, over '
                       'all reachable states: every character outside leading blanks and one-line comments is appended exactly once, '
                       'every maximal identifier outside string literals is a run of its own (so a formal there is replaced, and only '
                       'as a whole identifier), the inside of an ordinary string literal (escaped quotes included) never yields an '
                       'identifier-only run (no substitution inside strings), a // inside a string does not start a comment, and the '
                       'two-character tokens of the rewrite chain are not cut by a run boundary (X18). Each run is looked up under itself in the '
                       'formal/actual map and replaced by the bound value, any other run is appended after the literal rewrite chain, which '
                       'agrees with the 22.5.1 table and rewrites a token before the tokens it contains (X19). The argument lexer separates '
                       'arguments at commas only outside matched (), [], {} and strings: class sets, group alternatives and the nested '
                       'level are checked (G16), and its string chunk follows the escape discipline (G17). The expansion is preprocessed '
                       'again with the live define table and the table it returns is adopted (X9, X10): nested usages see the table '
                       'current at the point of use. The usage node has a handler that replaces it and keeps the blanks after it once '
                       '(X4b).',
        'decided': 'X13 X18 X19 G16 G17 X9 X10 X4b — error payloads, positional binding with defaults, body-less macros, run-splitting of the macro '
                   'body (identifier runs, opaque strings and comments, nothing lost), live-table threading, usage replaced once',
        'not_decided': 'trimming of actual arguments, a `" inside an ordinary string literal (not '
                       'judged), and the concatenated text as a value',
        'assumptions': [],
        'level_text': 'Structural audit of the macro resolver (error discipline, binding loop shape, table threading) plus an exhaustive '
                      'finite-state abstract interpretation of the macro-body tokeniser against the lexical contexts of IEEE 22.5.1. '
                      'It decides necessary conditions of 22.5.1 expansion, not the expanded text as a whole.',
        'level_note': 'narrow: breakages of the rewrite chain or of the argument lexer are outside what this check can see',
        'technique': 'finite-state abstract interpretation of the body tokeniser (product with a lexical-context monitor) + error-payload and binding-shape lint on the macro resolver + named-parameter threading',
    },
    'C11': {
        'rules': [rule('X14'), rule('X7'), rule('X10'), rule('X9'), rule('X13', keep=['expansion-table']), rule('G6', keep=MACRO_LEXERS)],
        'explanation': 'NARROW claim: the structural clauses of "the returned define table is exact". The table is seeded with the '
                       'predefined constants and then every caller-supplied entry unchanged; inside the loop it is written only by '
                       '`define (insert under the macro\'s own name of a Define built from that directive\'s name, formals and text), '
                       '`undef (remove exactly the name given), `undefineall (clear) and by adopting the table returned from an include '
                       'or an expansion; the function returns that table (X14). None of these writes can happen in a skipped region '
                       '(X7). The table handed to nested runs is the live one and what comes back replaces it (X9, X10).',
        'decided': 'X14 X7 X10 X9 — who writes the table, with which key/value, and that it is returned',
        'not_decided': 'equality of outputs/tables between a two-file run and a run over the concatenation (a relation between two '
                       'executions); that formal/default/body texts equal the source text (string slicing values)',
        'assumptions': [],
        'level_text': 'Who-may-write analysis of the define table with key/value provenance per writer.',
        'level_note': 'narrow: the relational clause of the property is not decided',
        'technique': 'who-may-write / provenance lint on the define table',
    },
}

NOT_APPLICABLE = {
}


def rules_for(pid):
    return PROPS[pid]['rules']


def thorough_extra(ctx, pid):
    """thorough tier: positive controls for every rule of the property (scratch copies outside /repo and /verif)"""
    import controls
    ids = {rid for rid, _ in PROPS[pid]['rules']}
    out = []
    if pid in ('C19', 'C07'):
        out.append(s_state.s5_deps(ctx))     # statics / global effects of the runtime dependency closure
    if pid in ('C07', 'C01', 'C03'):
        from rules import e3_witness
        out.append(e3_witness.run(ctx, pid))
    out.append(controls.run_controls(ctx, ids))
    return out
