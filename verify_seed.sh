#!/bin/bash
# usage: verify_seed.sh <ID>   — confirm a sub-agent's seed in its own worktree
ID=$1; W=/tmp/wt/$ID; cd $W || exit 2
LOG=/tmp/wt/verify_$ID.log; : > $LOG
P=$W/_seed/patch.diff
[ -f $P ] || { echo "no patch" >> $LOG; exit 2; }
# state: change applied?
if git apply --check -R $P 2>/dev/null; then echo "patch currently applied" >> $LOG; else git apply $P && echo "patch applied now" >> $LOG; fi
cp $W/_seed/seed_demo.rs $W/sv-parser/tests/seed_demo.rs 2>/dev/null
echo "== suite with change" >> $LOG
cargo test --workspace --no-fail-fast --offline -- --skip seed_ 2>&1 | grep -E "^test result|FAILED|failed|error" >> $LOG
# the suite proper = everything except the demo test target
echo "== demo with change (expect FAIL)" >> $LOG
cargo test --offline -p sv-parser --test seed_demo 2>&1 | grep -E "^test result|^test .*(FAILED|ok)|error\[" >> $LOG
git apply -R $P
echo "== demo without change (expect ok)" >> $LOG
cargo test --offline -p sv-parser --test seed_demo 2>&1 | grep -E "^test result|^test .*(FAILED|ok)|error\[" >> $LOG
git apply $P
echo "== done" >> $LOG
