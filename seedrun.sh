#!/bin/bash
# usage: seedrun.sh <patch.diff> <PROP>...   — apply a seeded change to a scratch copy of /repo and run checks against it
P=$1; shift
D=$(mktemp -d /tmp/verif-seed-XXXXXX)
rsync -a --exclude target --exclude .git /repo/ $D/
(cd $D && patch -p1 -s < $P) || { echo "patch failed"; rm -rf $D; exit 2; }
for pid in "$@"; do
  VERIF_REPO=$D /verif/check $pid 2>/dev/null | grep -E "VIOLATION|^C[0-9]+:|^sv-parser|^-:" | cut -c1-420
done
rm -rf $D
