"""Lazy analysis context shared by the rules."""
from . import facts as _facts
from . import grammar as _grammar
from . import nodetypes as _nodetypes


class Ctx:
    def __init__(self, root=None, tier='quick', log=None):
        self.facts = _facts.Facts(root, log=log)
        self.tier = tier
        self._g = None
        self._nt = None

    @property
    def root(self):
        return self.facts.root

    @property
    def syn(self):
        return self.facts.syn()

    @property
    def mir(self):
        return self.facts.mir()

    @property
    def exp(self):
        return self.facts.exp()

    @property
    def grammar(self):
        if self._g is None:
            self._g = _grammar.Grammar(self.syn)
        return self._g

    @property
    def types(self):
        if self._nt is None:
            self._nt = _nodetypes.NodeTypes(self.syn)
        return self._nt
