"""Model over the E2 (mirscan) facts: bodies, resolved call graph, thread-local keys."""

WORKSPACE = ['sv_parser', 'sv_parser_error', 'sv_parser_macros', 'sv_parser_parser', 'sv_parser_pp', 'sv_parser_syntaxtree']


class Body:
    __slots__ = ('crate', 'name', 'pretty', 'kind', 'file', 'line', 'exported', 'vis', 'parent', 'blocks', 'calls',
                 'refs', 'consts', 'asserts', 'from_expansion', 'cleanup', 'unsafe_fn', 'nblocks')

    def where(self):
        return '%s:%s' % (self.file, self.line)


class Call:
    __slots__ = ('block', 'callee', 'line', 'from_expansion', 'resolved', 'strs', 'gen', 'callee_unsafe', 'arg_fns', 'macros')


class Mir:
    def __init__(self, facts):
        self.bodies = {}       # name -> Body
        self.by_crate = {}
        self.statics = []      # dicts with 'crate'
        for crate, d in facts.items():
            fns = d['fns']
            self.by_crate[crate] = []
            for s in d['statics']:
                s = dict(s)
                s['crate'] = crate
                self.statics.append(s)
            for b in d['bodies']:
                o = Body()
                o.crate = crate
                o.name = fns[b['id']]
                o.pretty = b['pretty']
                o.kind = b['kind']
                o.file = b['file']
                o.line = b['line']
                o.exported = b['exported']
                o.vis = b['vis']
                o.parent = b['parent']
                o.blocks = b['blocks']
                o.cleanup = set(b['cleanup'])
                o.refs = [fns[i] for i in b['refs']]
                o.consts = b['consts']
                o.asserts = b['asserts']
                o.from_expansion = b['from_expansion']
                o.unsafe_fn = b['unsafe_fn']
                o.nblocks = b['nblocks']
                o.calls = []
                for c in b['calls']:
                    k = Call()
                    k.block, ci, k.line, k.from_expansion, k.resolved, k.strs, k.gen = c[:7]
                    k.callee_unsafe = c[7] if len(c) > 7 else False
                    k.arg_fns = c[8] if len(c) > 8 else []
                    k.macros = (c[9].split(',') if c[9] else []) if len(c) > 9 else []
                    k.callee = fns[ci] if ci >= 0 else None
                    o.calls.append(k)
                self.bodies[o.name] = o
                self.by_crate[crate].append(o)
        # thread-local keys: const item K with statics K::{constant#0}::{closure#n}::__RUST_STD_INTERNAL_VAL
        self.tl_keys = {}
        for s in self.statics:
            if s['thread_local'] and '::{constant#0}::' in s['path']:
                k = s['path'].split('::{constant#0}::')[0]
                self.tl_keys.setdefault(k, []).append(s)

    def closures_of(self, name):
        """closures (transitively nested) of a function body"""
        pre = name + '::{closure#'
        return [b for n, b in self.bodies.items() if n.startswith(pre)]

    def family(self, name):
        """the body and all closures nested in it"""
        return [self.bodies[name]] + self.closures_of(name) if name in self.bodies else []

    def owner(self, name):
        """outermost function a closure belongs to"""
        return name.split('::{closure#')[0]

    def callees(self, b, with_refs=True):
        out = [c.callee for c in b.calls if c.callee]
        if with_refs:
            out += b.refs
        return out

    def reach(self, roots, with_refs=True, crates=None):
        seen = set()
        todo = list(roots)
        while todo:
            n = todo.pop()
            if n in seen:
                continue
            seen.add(n)
            b = self.bodies.get(n)
            if b is None:
                continue
            if crates is not None and b.crate not in crates:
                continue
            for c in self.callees(b, with_refs):
                if c not in seen:
                    todo.append(c)
        return seen
