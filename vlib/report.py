"""Rule results, findings, evidence writing."""
import hashlib
import json
import os


class Finding:
    """One violated obligation.  `key` is the stable identity (rule, crate, symbol,
    detail — never a line number); `where` is file:line for the human reader."""

    def __init__(self, rule, key, where, msg, witness=None):
        self.rule = rule
        self.key = '%s:%s' % (rule, key)
        self.where = where
        self.msg = msg
        self.witness = witness or {}

    def to_json(self):
        return {'rule': self.rule, 'key': self.key, 'where': self.where, 'msg': self.msg, 'witness': self.witness}


class RuleResult:
    def __init__(self, rule, title):
        self.rule = rule
        self.title = title
        self.instances = 0          # obligations evaluated
        self.keys = set()           # distinct non-trivial instance keys
        self.samples = []
        self.findings = []
        self.notes = []
        self.counts = {}            # named measured counts

    def inst(self, key=None, sample=None):
        self.instances += 1
        if key is not None:
            self.keys.add(key)
        if sample is not None and len(self.samples) < 6:
            self.samples.append(sample)

    def fail(self, key, where, msg, witness=None):
        self.findings.append(Finding(self.rule, key, where, msg, witness))

    def undecided(self, key, where, msg):
        """A small-body inspection met a form it does not recognise and that matches no known-wrong pattern: reported,
        recorded in the evidence, but not a violation (an unrecognised but correct rewrite must not raise an alarm)."""
        if not hasattr(self, 'undecided_list'):
            self.undecided_list = []
        self.undecided_list.append({'key': '%s:%s' % (self.rule, key), 'where': where, 'msg': msg})
        self.notes.append('UNDECIDED %s (%s): %s' % (key, where, msg))

    def floor(self, name, value, minimum):
        """Fail closed when an extractor silently stops matching."""
        self.counts[name] = value
        if value < minimum:
            self.fail('floor:' + name, '-', '%s: only %d instances found, at least %d expected '
                      '(extractor no longer matches the code base: fail closed)' % (name, value, minimum))

    def exactly(self, name, value, expected):
        self.counts[name] = value
        if value != expected:
            self.fail('anchor:' + name, '-', '%s: found %d, expected exactly %d (role anchor missing or ambiguous: '
                      'fail closed)' % (name, value, expected))

    def summary(self):
        return {'rule': self.rule, 'title': self.title, 'obligations': self.instances,
                'distinct_instances': len(self.keys), 'violations': len(self.findings), 'counts': self.counts,
                'undecided': len(getattr(self, 'undecided_list', [])), 'notes': self.notes}


def key_hash(key):
    return hashlib.sha256(key.encode()).hexdigest()[:12]
