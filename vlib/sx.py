"""Helpers over the JSON syntax trees written by tools/synscan (E1)."""


def walk(e):
    """Pre-order walk over every dict node of an expression / block / stmt tree
    (source order: children are visited in the order synscan emits them, which
    is the textual order for every construct used here)."""
    if isinstance(e, dict):
        yield e
        for k, v in e.items():
            if k in ('l', 'col', 'el'):
                continue
            if isinstance(v, (dict, list)):
                yield from walk(v)
    elif isinstance(e, list):
        for x in e:
            yield from walk(x)


def walk_skip(e, skip):
    """walk(), but do not descend into nodes for which skip(node) is true
    (the node itself is still yielded)."""
    if isinstance(e, dict):
        yield e
        if skip(e):
            return
        for k, v in e.items():
            if k in ('l', 'col', 'el'):
                continue
            if isinstance(v, (dict, list)):
                yield from walk_skip(v, skip)
    elif isinstance(e, list):
        for x in e:
            yield from walk_skip(x, skip)


def items_rec(items, modpath=()):
    """Yield (modpath, item) for every item, descending into inline modules."""
    for it in items:
        yield modpath, it
        if it.get('k') == 'mod' and 'items' in it:
            yield from items_rec(it['items'], modpath + (it['name'],))


def crate_files(syn, crate):
    return syn['crates'][crate]['files']


def crate_fns(syn, crate):
    """Yield (file, modpath, fn-item, impl-or-None) for every fn (free, or in an
    impl) of the crate (cfg-evaluated by synscan)."""
    for f, fv in crate_files(syn, crate).items():
        for mp, it in items_rec(fv.get('items', [])):
            if it['k'] == 'fn':
                yield f, mp, it, None
            elif it['k'] == 'impl':
                for sub in it['items']:
                    if sub['k'] == 'fn':
                        yield f, mp, sub, it
            elif it['k'] == 'trait':
                for sub in it['items']:
                    if sub['k'] == 'fn' and 'body' in sub:
                        yield f, mp, sub, it


def is_path(e, name=None):
    return isinstance(e, dict) and e.get('k') == 'path' and (name is None or e['p'] == name)


def path_last(e):
    if isinstance(e, dict) and e.get('k') == 'path':
        return e['p'].split('::')[-1]
    return None


def is_call(e, fname=None):
    """call whose callee is a path (optionally with that last segment)"""
    if not (isinstance(e, dict) and e.get('k') == 'call' and is_path(e['f'])):
        return False
    return fname is None or e['f']['p'].split('::')[-1] == fname


def callee(e):
    if isinstance(e, dict) and e.get('k') == 'call' and is_path(e['f']):
        return e['f']['p']
    return None


def lit_str(e):
    if isinstance(e, dict) and e.get('k') == 'lit' and e.get('t') == 'str':
        return e['v']
    return None


def lit_int(e):
    if isinstance(e, dict) and e.get('k') == 'lit' and e.get('t') == 'int':
        return int(e['v'])
    return None


def pat_idents(p):
    """Identifiers bound by a pattern, left to right ('_' as None for wild)."""
    k = p.get('k')
    if k == 'ident':
        out = [p['n']]
        if 'sub' in p:
            out += pat_idents(p['sub'])
        return out
    if k in ('tuple', 'ts', 'or', 'slice'):
        out = []
        for x in p['e']:
            out += pat_idents(x)
        return out
    if k == 'struct':
        out = []
        for f in p['fields']:
            out += pat_idents(f['p'])
        return out
    if k in ('ref', 'type'):
        return pat_idents(p['p'])
    if k == 'wild':
        return [None]
    return []


def strip_ref(e):
    """&x, &mut x, (*x) -> x"""
    while isinstance(e, dict) and (e.get('k') == 'ref' or (e.get('k') == 'unary' and e.get('op') == '*')):
        e = e['e']
    return e


def render(e, depth=0):
    """Compact, deterministic, position-free rendering of an expression / pattern /
    statement (used for structural comparison and for messages)."""
    if e is None:
        return ''
    if isinstance(e, list):
        return ', '.join(render(x) for x in e)
    if not isinstance(e, dict):
        return str(e)
    k = e.get('k')
    if k == 'path':
        return e['p']
    if k == 'lit' and 'v' not in e and 'e' in e:
        return render(e['e'])          # literal pattern wrapper
    if k == 'lit':
        if e.get('t') == 'str':
            return '"%s"' % e['v'].replace('\\', '\\\\').replace('"', '\\"').replace('\n', '\\n')
        if e.get('t') == 'char':
            return "'%s'" % e['v']
        return str(e['v']).lower() if isinstance(e['v'], bool) else str(e['v'])
    if k == 'call':
        return '%s(%s)' % (render(e['f']), render(e['args']))
    if k == 'mcall':
        return '%s.%s(%s)' % (render(e['recv']), e['m'], render(e['args']))
    if k == 'field':
        return '%s.%s' % (render(e['e']), e['m'])
    if k == 'ref':
        return '&%s%s' % ('mut ' if e.get('mut') else '', render(e['e'])) if 'e' in e else '&' + render(e.get('p'))
    if k == 'unary':
        return '%s%s' % (e['op'], render(e['e']))
    if k == 'binary':
        return '(%s %s %s)' % (render(e['l_']), e['op'], render(e['r']))
    if k == 'assign':
        return '%s = %s' % (render(e['l_']), render(e['r']))
    if k == 'tuple':
        return '(%s)' % render(e['e'])
    if k == 'try':
        return render(e['e']) + '?'
    if k == 'closure':
        return '|%s| %s' % (render(e['params']), render(e['body']))
    if k == 'struct' and 'fields' in e and (not e['fields'] or 'e' in e['fields'][0]):
        return '%s{%s}' % (e['p'], ', '.join('%s: %s' % (f['n'], render(f['e'])) for f in e['fields']))
    if k == 'struct':
        return '%s{%s}' % (e['p'], ', '.join('%s: %s' % (f['n'], render(f['p'])) for f in e['fields']))
    if k == 'block':
        return '{ %s }' % ' '.join(render(s) for s in e['stmts'])
    if k == 'unsafe':
        return 'unsafe ' + render(e['body'])
    if k == 'let' and 'pat' in e and 'e' in e:
        return 'let %s = %s' % (render(e['pat']), render(e['e']))
    if k == 'let':
        s = 'let %s' % render(e['pat'])
        if 'init' in e:
            s += ' = ' + render(e['init'])
        if 'else' in e:
            s += ' else ' + render(e['else'])
        return s + ';'
    if k == 'expr':
        return render(e['e']) + (';' if e.get('semi') else '')
    if k == 'if':
        s = 'if %s %s' % (render(e['c']), render(e['t']))
        if 'e' in e:
            s += ' else ' + render(e['e'])
        return s
    if k == 'match':
        return 'match %s { %s }' % (render(e['e']), ' '.join(
            '%s%s => %s,' % (render(a['pat']), (' if ' + render(a['guard'])) if 'guard' in a else '', render(a['body']))
            for a in e['arms']))
    if k == 'macro':
        return '%s!(%s)' % (e['p'], render(e['args']) if 'args' in e else e['tokens'])
    if k == 'for':
        return 'for %s in %s %s' % (render(e['pat']), render(e['e']), render(e['body']))
    if k == 'while':
        return 'while %s %s' % (render(e['c']), render(e['body']))
    if k == 'loop':
        return 'loop ' + render(e['body'])
    if k == 'return':
        return 'return ' + render(e.get('e'))
    if k == 'break':
        return 'break ' + render(e.get('e'))
    if k == 'continue':
        return 'continue'
    if k == 'index':
        return '%s[%s]' % (render(e['e']), render(e['i']))
    if k == 'range':
        return '%s%s%s' % (render(e.get('from')), e['op'], render(e.get('to')))
    if k == 'cast':
        return '%s as %s' % (render(e['e']), render_ty(e['ty']))
    if k == 'array':
        return '[%s]' % render(e['e'])
    if k == 'item':
        return '<item %s>' % e['item'].get('name', '')
    # patterns
    if k == 'ident':
        return ('ref ' if e.get('ref') else '') + ('mut ' if e.get('mut') else '') + e['n']
    if k == 'ts':
        return '%s(%s)' % (e['p'], render(e['e']))
    if k == 'wild':
        return '_'
    if k == 'rest':
        return '..'
    if k == 'or':
        return ' | '.join(render(x) for x in e['e'])
    if k == 'type':
        return '%s: %s' % (render(e['p']), render_ty(e['ty']))
    if k == 'other':
        return e.get('s', '?')
    return '<%s>' % k


def render_ty(t):
    if t is None:
        return '()'
    k = t.get('k')
    if k == 'path':
        s = t['p']
        if 'args' in t:
            s += '<%s>' % ', '.join(render_ty(a) for a in t['args'])
        return s
    if k == 'tuple':
        return '(%s)' % ', '.join(render_ty(a) for a in t['e'])
    if k == 'ref':
        return '&' + ('mut ' if t.get('mut') else '') + render_ty(t['e'])
    if k == 'slice':
        return '[%s]' % render_ty(t['e'])
    if k == 'array':
        return '[%s; %s]' % (render_ty(t['e']), t['len'])
    if k == 'infer':
        return '_'
    return t.get('s', '?')


def bound_names(node):
    """identifiers bound inside `node` (let / if-let / while-let patterns, closure params, for patterns, match arms),
    in order of first binding"""
    out = []

    def add(p):
        for n in pat_idents(p):
            if n and n not in out:
                out.append(n)

    for n in walk(node):
        k = n.get('k')
        if k == 'let' and 'pat' in n:
            add(n['pat'])
        elif k == 'closure':
            for p in n['params']:
                add(p)
        elif k == 'for':
            add(n['pat'])
        elif k == 'match':
            for a in n['arms']:
                add(a['pat'])
    return out


def alpha(node, keep=()):
    """deep copy of `node` with every locally bound identifier renamed to v0, v1, .. in order of first binding
    (names in `keep` are left alone): two code fragments that differ only in the names of their locals render equal"""
    names = [n for n in bound_names(node) if n not in keep]
    m = {n: 'v%d' % i for i, n in enumerate(names)}

    def cp(x):
        if isinstance(x, list):
            return [cp(y) for y in x]
        if not isinstance(x, dict):
            return x
        y = {k: cp(v) for k, v in x.items()}
        if y.get('k') == 'path' and '::' not in y.get('p', '::') and y['p'] in m:
            y['p'] = m[y['p']]
        if y.get('k') == 'ident' and y.get('n') in m:
            y['n'] = m[y['n']]
        if y.get('k') == 'struct' and isinstance(y.get('fields'), list):
            for f in y['fields']:
                # shorthand field `Foo { x }`: the value is a path that may have been renamed; the field name stays
                pass
        return y
    return cp(node)


def inline_literal_lets(block):
    """copy of a block in which `let x = <literal>;` statements are removed and x is replaced by the literal
    (only when x is bound once and never assigned)"""
    if block.get('k') != 'block':
        return block
    lits = {}
    counts = {}
    for n in walk(block):
        if n.get('k') == 'let' and 'pat' in n and n['pat'].get('k') == 'ident':
            counts[n['pat']['n']] = counts.get(n['pat']['n'], 0) + 1
            if 'init' in n and n['init'].get('k') == 'lit' and not n['pat'].get('mut'):
                lits[n['pat']['n']] = n['init']
        if n.get('k') == 'assign' and is_path(n['l_']):
            counts[n['l_']['p']] = counts.get(n['l_']['p'], 0) + 10
    lits = {k: v for k, v in lits.items() if counts.get(k) == 1}

    def cp(x):
        if isinstance(x, list):
            return [cp(y) for y in x if not (isinstance(y, dict) and y.get('k') == 'let' and 'pat' in y and
                                             y['pat'].get('k') == 'ident' and y['pat']['n'] in lits and 'init' in y and y['init'].get('k') == 'lit')]
        if not isinstance(x, dict):
            return x
        if x.get('k') == 'path' and x['p'] in lits:
            return dict(lits[x['p']])
        return {k: cp(v) for k, v in x.items()}
    return cp(block)
