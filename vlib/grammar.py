"""Grammar IR of sv-parser-parser, built from the synscan JSON (E1).

Every parser function (signature `fn(Span) -> IResult<Span, T>`) and every
helper returning `impl FnMut(Span) -> IResult<..>` gets:

  stmts : classified statement list of its body
            ('bind', pat, pexpr, line, raw)    let (s, PAT) = PEXPR(s)?;
            ('other', stmt)                    anything else
  tail  : ('ok', span_expr, node_expr) | ('apply', pexpr) | ('var', name) | ('other', expr)
  ir    : one parser-expression tree for the whole function (what it consumes)

Parser expressions (`pexpr`) are dicts with key 'op':
  lit(kind,text) ref(name) prim(name,args,nullable,consuming) alt(arms) seq(parts)
  opt(p) many0(p) many1(p) many_till(p,q) map(p,closure) terminated(p,q) preceded(q,p)
  peek(p) not(p) wrap(kind,p) list(sep,item) ws(p) no_ws(p) all_consuming(p)
  fold_many0(p) param(name) closure(body-fn) unmodelled(text)
Semantics are those of nom 7.1.3 (complete parsers) and of the helper
functions in utils.rs, which are themselves checked against the shapes this
module assumes (see rules/g.py: helper_shapes).
"""
from . import sx

# nom primitives that may appear as a bare path or a call: name -> (nullable, consuming)
NOM_PRIMS = {
    'tag': (False, True), 'tag_no_case': (False, True), 'is_a': (False, True), 'is_not': (False, True),
    'char': (False, True), 'one_of': (False, True), 'none_of': (False, True), 'anychar': (False, True),
    'digit1': (False, True), 'alpha1': (False, True), 'alphanumeric1': (False, True), 'hex_digit1': (False, True),
    'multispace1': (False, True), 'space1': (False, True), 'line_ending': (False, True),
    'take': (False, True),  # take(n) with n >= 1 (checked by caller)
    'take_while1': (False, True), 'take_till1': (False, True),
    'multispace0': (True, True), 'space0': (True, True), 'digit0': (True, True), 'alpha0': (True, True),
    'take_while': (True, True), 'take_till': (True, True), 'take_until': (True, True), 'rest': (True, True),
    'eof': (True, False), 'success': (True, False),
}
WRAPS = {'paren': ('(', ')'), 'bracket': ('[', ']'), 'brace': ('{', '}'), 'apostrophe_brace': ("'{", '}'),
         'paren_exact': ('(', ')')}
LITS = ('symbol', 'keyword', 'tag', 'tag_no_case', 'symbol_exact')

# the complete nom 7 combinator surface this model knows; anything else is `unmodelled`
KNOWN_COMBINATORS = set(LITS) | set(WRAPS) | {
    'alt', 'tuple', 'pair', 'triple', 'opt', 'many0', 'many1', 'many_till', 'map', 'terminated', 'preceded',
    'peek', 'not', 'list', 'ws', 'no_ws', 'all_consuming', 'fold_many0', 'context', 'delimited',
    'separated_pair', 'recognize', 'value', 'verify', 'map_res', 'map_opt', 'cond', 'many_m_n', 'count',
    'separated_list0', 'separated_list1', 'cut', 'consumed', 'fold_many1', 'many0_count', 'many1_count',
    'complete', 'into', 'flat_map', 'fail'}


def is_parser_sig(fn):
    ps = fn['sig']['params']
    if len(ps) != 1 or ps[0].get('k') != 'typed':
        return False
    ty = ps[0]['ty']
    ret = fn['sig']['ret']
    return (ty.get('k') == 'path' and ty['p'] == 'Span' and ret is not None and ret.get('k') == 'path'
            and ret['p'] == 'IResult')


def is_helper_sig(fn):
    ret = fn['sig']['ret']
    return ret is not None and ret.get('k') == 'impl' and 'FnMut' in ret['s'] and 'IResult' in ret['s']


class Fn:
    def __init__(self, file, item):
        self.file = file
        self.item = item
        self.name = item['name']
        self.line = item['l']
        self.attrs = [a['p'].split('::')[-1] for a in item['attrs']]
        self.attr_full = item['attrs']
        self.kind = 'parser' if is_parser_sig(item) else ('helper' if is_helper_sig(item) else 'other')
        self.ret = item['sig']['ret']
        self.out_ty = None
        if self.kind == 'parser' and self.ret.get('args') and len(self.ret['args']) == 2:
            self.out_ty = self.ret['args'][1]
        self.stmts = []
        self.tail = None
        self.ir = None
        self.params = []  # helper: names of parser-valued / literal parameters
        self.span_param = None
        self.lexeme = False

    @property
    def memo(self):
        return 'packrat_parser' in self.attrs

    @property
    def recursive(self):
        return 'recursive_parser' in self.attrs

    def loc(self):
        return '%s:%d' % (self.file, self.line)


class Grammar:
    def __init__(self, syn, crate='sv-parser-parser'):
        self.crate = crate
        self.dir = syn['crates'][crate]['dir']
        self.fns = {}        # name -> Fn (parser / helper / other), free functions only
        self.dups = []       # duplicate free-function names
        self.unmodelled = []  # (fn, text, line)
        for f, mp, it, im in sx.crate_fns(syn, crate):
            if im is not None:
                continue
            fn = Fn(f, it)
            if fn.name in self.fns:
                self.dups.append((fn.name, self.fns[fn.name].loc(), fn.loc()))
            self.fns[fn.name] = fn
        for fn in self.fns.values():
            if fn.kind == 'helper':
                self._build_helper(fn)
        for fn in self.fns.values():
            if fn.kind == 'parser':
                self._build_parser(fn)
        self._mark_lexemes()

    def _named_conversion(self, f):
        """`map(p, name)` with `name` a private conversion function of the crate whose body is a single expression over its
        parameter is the closure `|x| body` (a closure extracted into a function must read the same)"""
        if f.get('k') != 'path' or f['p'] not in self.fns:
            return f
        fn = self.fns[f['p']]
        if fn.kind != 'other' or sx.render_ty(fn.ret).replace(' ', '') in ('Locate', 'Span'):
            return f        # Span -> Locate conversions are the lexeme layer's own vocabulary (G4 decides them)
        ps = fn.item['sig']['params']
        body = fn.item.get('body')
        if len(ps) != 1 or ps[0].get('k') != 'typed' or not body:
            return f
        st = body['stmts']
        if len(st) != 1 or st[0]['k'] != 'expr' or st[0].get('semi'):
            return f
        return {'k': 'closure', 'move': False, 'params': [ps[0]['pat']], 'body': st[0]['e'], 'l': f.get('l'), 'from_fn': f['p']}

    def _mark_lexemes(self):
        """lexeme = returns Locate/Span, or joins fragments with `concat` itself or through a local helper function"""
        direct = {}
        calls = {}
        for name, f in self.fns.items():
            body = f.item.get('body')
            direct[name] = any(sx.is_call(n, 'concat') for n in sx.walk(body)) and name != 'concat'
            calls[name] = {n['f']['p'] for n in sx.walk(body) if n.get('k') == 'call' and sx.is_path(n['f']) and n['f']['p'] in self.fns
                           and self.fns[n['f']['p']].kind == 'other'}
        uses = dict(direct)
        changed = True
        while changed:
            changed = False
            for name in self.fns:
                if not uses[name] and any(uses.get(c) for c in calls[name]):
                    uses[name] = True
                    changed = True
        for name, f in self.fns.items():
            out = f.out_ty
            f.lexeme = bool((out is not None and out.get('k') == 'path' and out['p'] in ('Locate', 'Span')) or uses[name])
        self.concat_helpers = {n for n, f in self.fns.items() if f.kind == 'other' and uses[n] and n != 'concat'}

    # -------------------------------------------------------------- pexpr
    def pexpr(self, e, fn, env=None):
        """Convert an expression that denotes a parser into IR."""
        env = env or {}
        k = e.get('k')
        ln = e.get('l')
        if k == 'path':
            name = e['p']
            if name in env:
                return {'op': 'param', 'name': name, 'l': ln}
            # a local that merely names a parser expression: `let at_end = all_consuming(..); .. alt((at_end, other))`
            ll = getattr(fn, 'local_lets', None)
            if ll and name in ll and ll[name] is not None:
                init_ = ll[name]
                ll[name] = None            # no recursion through the same name
                try:
                    return self.pexpr(init_, fn, env)
                finally:
                    ll[name] = init_
            last = name.split('::')[-1]
            if name in self.fns and self.fns[name].kind == 'parser':
                return {'op': 'ref', 'name': name, 'l': ln}
            if last in NOM_PRIMS and last not in ('tag', 'tag_no_case', 'is_a', 'is_not', 'char', 'one_of',
                                                  'none_of', 'take', 'take_while', 'take_while1', 'take_till',
                                                  'take_till1', 'take_until'):
                nl, cs = NOM_PRIMS[last]
                return {'op': 'prim', 'name': last, 'args': [], 'nullable': nl, 'consuming': cs, 'l': ln}
            return self._unm(fn, e)
        if k == 'closure':
            # inline parser closure |s| { .. }
            sub = Fn(fn.file, {'name': fn.name + '::{closure}', 'l': ln, 'attrs': [], 'sig': {'params': [], 'ret': None},
                               'body': e['body'] if e['body'].get('k') == 'block' else
                               {'k': 'block', 'stmts': [{'k': 'expr', 'e': e['body'], 'semi': False, 'l': ln}], 'l': ln}})
            ps = e['params']
            if len(ps) != 1:
                return self._unm(fn, e)
            ids = sx.pat_idents(ps[0])
            if len(ids) != 1 or ids[0] is None:
                return self._unm(fn, e)
            sub.span_param = ids[0]
            sub.kind = 'parser'
            self._build_body(sub, env)
            return {'op': 'closure', 'fn': sub, 'ir': sub.ir, 'l': ln}
        if k != 'call' or not sx.is_path(e['f']):
            return self._unm(fn, e)
        name = e['f']['p']
        last = name.split('::')[-1]
        args = e['args']
        P = lambda a: self.pexpr(a, fn, env)

        def tuple_args(a):
            if a.get('k') == 'tuple':
                return a['e']
            return None

        if last in LITS:
            if len(args) != 1:
                return self._unm(fn, e)
            t = sx.lit_str(args[0])
            if t is None:
                if sx.is_path(args[0]) and args[0]['p'] in env:
                    return {'op': 'lit', 'kind': last, 'text': None, 'param': args[0]['p'], 'l': ln}
                return self._unm(fn, e)
            return {'op': 'lit', 'kind': last, 'text': t, 'l': ln}
        if last in WRAPS:
            if len(args) != 1:
                return self._unm(fn, e)
            return {'op': 'wrap', 'kind': last, 'open': WRAPS[last][0], 'close': WRAPS[last][1], 'p': P(args[0]), 'l': ln}
        if last in ('alt', 'tuple'):
            ta = tuple_args(args[0]) if len(args) == 1 else None
            if ta is None:
                return self._unm(fn, e)
            if last == 'alt':
                return {'op': 'alt', 'arms': [P(a) for a in ta], 'l': ln}
            return {'op': 'seq', 'kind': 'tuple', 'parts': [P(a) for a in ta], 'l': ln}
        if last in ('pair', 'triple'):
            n = 2 if last == 'pair' else 3
            if len(args) != n:
                return self._unm(fn, e)
            return {'op': 'seq', 'kind': last, 'parts': [P(a) for a in args], 'l': ln}
        if last in ('opt', 'many0', 'many1', 'peek', 'not', 'ws', 'no_ws', 'all_consuming', 'complete'):
            if len(args) != 1:
                return self._unm(fn, e)
            return {'op': last, 'p': P(args[0]), 'l': ln}
        if last == 'many_till':
            if len(args) != 2:
                return self._unm(fn, e)
            return {'op': 'many_till', 'p': P(args[0]), 'q': P(args[1]), 'l': ln}
        if last == 'map':
            if len(args) != 2:
                return self._unm(fn, e)
            return {'op': 'map', 'p': P(args[0]), 'f': self._named_conversion(args[1]), 'l': ln}
        if last == 'terminated':
            if len(args) != 2:
                return self._unm(fn, e)
            return {'op': 'terminated', 'p': P(args[0]), 'q': P(args[1]), 'l': ln}
        if last == 'preceded':
            if len(args) != 2:
                return self._unm(fn, e)
            return {'op': 'preceded', 'q': P(args[0]), 'p': P(args[1]), 'l': ln}
        if last == 'delimited':
            if len(args) != 3:
                return self._unm(fn, e)
            return {'op': 'delimited', 'a': P(args[0]), 'p': P(args[1]), 'b': P(args[2]), 'l': ln}
        if last == 'list':
            if len(args) != 2:
                return self._unm(fn, e)
            return {'op': 'list', 'sep': P(args[0]), 'item': P(args[1]), 'l': ln}
        if last == 'fold_many0':
            if len(args) != 3:
                return self._unm(fn, e)
            return {'op': 'fold_many0', 'p': P(args[0]), 'init': args[1], 'f': args[2], 'l': ln}
        if last == 'context':
            if len(args) != 2:
                return self._unm(fn, e)
            return P(args[1])
        if last in ('recognize', 'cut', 'consumed', 'into'):
            if len(args) != 1:
                return self._unm(fn, e)
            return {'op': last, 'p': P(args[0]), 'l': ln}
        if last in ('value', 'verify', 'map_res', 'map_opt'):
            if len(args) != 2:
                return self._unm(fn, e)
            pi = 1 if last == 'value' else 0
            return {'op': last, 'p': P(args[pi]), 'f': args[1 - pi], 'l': ln}
        if last in NOM_PRIMS:
            nl, cs = NOM_PRIMS[last]
            if last == 'take':
                n = sx.lit_int(args[0]) if len(args) == 1 else None
                if n is None:
                    return self._unm(fn, e)
                nl = n == 0
            return {'op': 'prim', 'name': last, 'args': args, 'nullable': nl, 'consuming': cs, 'l': ln}
        if name in self.fns and self.fns[name].kind == 'helper' and self.fns[name].ir is not None \
                and len(args) == len(self.fns[name].params):
            # user-defined helper: inline its body with the arguments substituted
            h = self.fns[name]
            sub = {}
            for pn, a in zip(h.params, args):
                t = sx.lit_str(a)
                sub[pn] = ('lit', t) if t is not None else ('p', P(a))
            return {'op': 'inline', 'name': name, 'p': _subst(h.ir, sub), 'l': ln}
        if name in env:
            return self._unm(fn, e)
        return self._unm(fn, e)

    def _unm(self, fn, e):
        txt = sx.render(e)
        self.unmodelled.append((fn.name, txt[:120], e.get('l')))
        return {'op': 'unmodelled', 'text': txt[:200], 'l': e.get('l')}

    # -------------------------------------------------------------- bodies
    def _build_parser(self, fn):
        p = fn.item['sig']['params'][0]
        ids = sx.pat_idents(p['pat'])
        fn.span_param = ids[0] if ids else None
        self._build_body(fn, {})

    def _build_helper(self, fn):
        # helper: parameters are parsers (generic F: FnMut..) or &str literals; body is a single `move |s| {..}`
        env = {}
        for p in fn.item['sig']['params']:
            if p.get('k') == 'typed':
                for n in sx.pat_idents(p['pat']):
                    env[n] = p['tys']
        fn.params = list(env)
        body = fn.item['body']['stmts']
        if len(body) == 1 and body[0]['k'] == 'expr' and body[0]['e'].get('k') == 'closure':
            cl = body[0]['e']
            ids = sx.pat_idents(cl['params'][0]) if len(cl['params']) == 1 else []
            if len(ids) == 1:
                sub = Fn(fn.file, {'name': fn.name, 'l': fn.line, 'attrs': [], 'sig': {'params': [], 'ret': None},
                                   'body': cl['body']})
                sub.kind = 'parser'
                sub.span_param = ids[0]
                self._build_body(sub, env, report_as=fn)
                fn.stmts, fn.tail, fn.ir, fn.span_param = sub.stmts, sub.tail, sub.ir, sub.span_param
                return
        if len(body) == 1 and body[0]['k'] == 'expr' and not body[0].get('semi') and body[0]['e'].get('k') == 'call':
            # helper written as a combinator expression: `fn h(p: &str) -> impl FnMut(Span) -> .. { map(keyword(p), ..) }`
            ir = self.pexpr(body[0]['e'], fn, env)
            if not any(n.get('op') == 'unmodelled' for n in iter_ir(ir)):
                fn.stmts, fn.tail, fn.ir = [], ('apply', ir, None), ir
                return
        fn.stmts, fn.tail = [('other', s) for s in body], ('other', None)
        fn.ir = self._unm(fn, fn.item['body'])

    def _bind(self, st, cur, fn, env):
        """`let (S, PAT) = PEXPR(CUR)?;` -> (newspan, pat, pexpr) or None"""
        if st['k'] != 'let' or 'init' not in st or 'else' in st:
            return None
        pat = st['pat']
        init = st['init']
        if pat.get('k') != 'tuple' or len(pat['e']) != 2 or pat['e'][0].get('k') != 'ident':
            return None
        if init.get('k') != 'try':
            return None
        call = init['e']
        if call.get('k') != 'call' or len(call['args']) != 1:
            return None
        # `wrapper(|| P(s))?` where wrapper(f) runs f once between two effect calls and returns its result (a bracket such as
        # "select the directive keyword set, parse, restore"): for the grammar it is P applied to s; whether the effects balance is
        # the business of the state rules (S3, on MIR)
        a0 = call['args'][0]
        if sx.is_path(call['f']) and a0.get('k') == 'closure' and not a0.get('params') and self._is_bracket_wrapper(call['f']['p']):
            inner = a0['body']
            if inner.get('k') == 'block' and len(inner['stmts']) == 1 and inner['stmts'][0]['k'] == 'expr' and not inner['stmts'][0].get('semi'):
                inner = inner['stmts'][0]['e']
            if inner.get('k') == 'call' and len(inner['args']) == 1:
                return pat['e'][0]['n'], pat['e'][1], inner['f'], inner['args'][0]
        return pat['e'][0]['n'], pat['e'][1], call['f'], call['args'][0]

    def _is_bracket_wrapper(self, name):
        f = self.fns.get(name.split('::')[-1])
        if f is None or f.kind == 'parser':
            return False
        it = f.item
        ps = [q for q in it['sig']['params'] if q.get('k') == 'typed']
        if len(ps) != 1 or not it.get('body'):
            return False
        pn = sx.pat_idents(ps[0]['pat'])[0]
        stmts = it['body']['stmts']
        if not stmts:
            return False
        calls = [n for n in sx.walk(it['body']) if n.get('k') == 'call' and sx.is_path(n['f'], pn) and not n['args']]
        if len(calls) != 1:
            return False
        last = stmts[-1]
        if last['k'] != 'expr' or last.get('semi'):
            return False
        if last['e'] is calls[0]:
            return True
        if sx.is_path(last['e']):
            for st in stmts[:-1]:
                if st['k'] == 'let' and st.get('init') is calls[0] and st['pat'].get('k') == 'ident' and st['pat']['n'] == last['e']['p']:
                    return True
        return False

    def _build_body(self, fn, env, report_as=None):
        rep = report_as or fn
        body = fn.item['body']
        stmts = body['stmts'] if body.get('k') == 'block' else [{'k': 'expr', 'e': body, 'semi': False}]
        out = []
        parts = []
        nolet = {}  # var -> pexpr for `let ret = P(s);`
        nolet_arg = {}
        spans = {fn.span_param}
        tail = None
        if getattr(rep, 'local_lets', None) is None:
            rep.local_lets = {}
        for i, st in enumerate(stmts):
            last = i == len(stmts) - 1
            if st['k'] == 'let' and 'init' in st and 'else' not in st and st['pat'].get('k') == 'ident' and st['init'].get('k') == 'call' \
                    and sx.is_path(st['init']['f']) and not (st['init']['f']['p'] in self.fns and self.fns[st['init']['f']['p']].kind == 'parser'):
                # `let p = <combinator expression>;` — a named parser, used further down in place of the expression
                pe_ = self.pexpr(st['init'], rep, env)
                if not any(n_.get('op') == 'unmodelled' for n_ in iter_ir(pe_)):
                    rep.local_lets[st['pat']['n']] = st['init']
                    continue
            b = self._bind(st, None, rep, env)
            if b is not None:
                news, pat, f, arg = b
                pe = self.pexpr(f, rep, env)
                out.append(('bind', news, pat, pe, arg, st.get('l')))
                spans.add(news)
                parts.append(pe)
                continue
            if st['k'] == 'let' and 'init' in st and st['pat'].get('k') == 'ident' and st['init'].get('k') == 'call' \
                    and len(st['init']['args']) == 1 and sx.is_path(st['init']['args'][0]) \
                    and st['init']['args'][0]['p'] in spans \
                    and (not sx.is_path(st['init']['f']) or
                         (st['init']['f']['p'] in self.fns and self.fns[st['init']['f']['p']].kind == 'parser')):
                # let ret = COMB(..)(s);   /   let ret = parser(s);      (result kept as a Result)
                pe = self.pexpr(st['init']['f'], rep, env)
                nolet[st['pat']['n']] = pe
                nolet_arg[st['pat']['n']] = st['init']['args'][0]
                out.append(('applylet', st['pat']['n'], pe, st.get('l')))
                continue
            if st['k'] == 'let' and 'init' in st and 'else' not in st and st['pat'].get('k') == 'tuple' \
                    and len(st['pat']['e']) == 2 and st['pat']['e'][0].get('k') == 'ident' \
                    and st['init'].get('k') == 'try' and sx.is_path(st['init']['e']) and st['init']['e']['p'] in nolet:
                # let (s, PAT) = ret?;      (deferred `?` on a kept Result)
                v = st['init']['e']['p']
                pe = nolet.pop(v)
                out.append(('bind', st['pat']['e'][0]['n'], st['pat']['e'][1], pe, nolet_arg[v], st.get('l')))
                spans.add(st['pat']['e'][0]['n'])
                parts.append(pe)
                continue
            if last and st['k'] == 'expr' and not st.get('semi'):
                e = st['e']
                tail = self._tail(e, fn, rep, env, nolet, parts)
                continue
            out.append(('other', st))
        fn.stmts = out
        fn.tail = tail or ('none',)
        # whole-function IR
        if fn.tail[0] == 'ok':
            fn.ir = {'op': 'seq', 'kind': 'body', 'parts': parts, 'l': fn.line}
        elif fn.tail[0] == 'apply':
            fn.ir = {'op': 'seq', 'kind': 'body', 'parts': parts + [fn.tail[1]], 'l': fn.line} if parts else fn.tail[1]
        elif fn.tail[0] == 'var' and fn.tail[1] in nolet:
            fn.ir = nolet[fn.tail[1]]
        elif fn.tail[0] == 'ifelse':
            a = {'op': 'alt', 'arms': [fn.tail[2], fn.tail[3]], 'cond': fn.tail[1], 'l': fn.line}
            fn.ir = {'op': 'seq', 'kind': 'body', 'parts': parts + [a], 'l': fn.line} if parts else a
        else:
            fn.ir = {'op': 'unmodelled', 'text': 'body of ' + fn.name, 'l': fn.line}
            self.unmodelled.append((rep.name, 'function body shape', fn.line))

    def _tail(self, e, fn, rep, env, nolet, parts):
        k = e.get('k')
        if k == 'call' and sx.is_path(e['f'], 'Ok') and len(e['args']) == 1 and e['args'][0].get('k') == 'tuple' \
                and len(e['args'][0]['e']) == 2:
            return ('ok', e['args'][0]['e'][0], e['args'][0]['e'][1])
        if k == 'call' and len(e['args']) == 1 and sx.is_path(e['args'][0]) and not sx.is_path(e['f'], 'Ok') \
                and not sx.is_path(e['f'], 'Err'):
            # COMB(..)(s)  or  other_parser(s)
            return ('apply', self.pexpr(e['f'], rep, env), e['args'][0])
        if k == 'path' and e['p'] in nolet:
            return ('var', e['p'])
        if k == 'if' and 'e' in e and e['c'].get('k') != 'let':
            def single(b):
                if b.get('k') == 'block' and len(b['stmts']) == 1 and b['stmts'][0]['k'] == 'expr' \
                        and not b['stmts'][0].get('semi'):
                    return b['stmts'][0]['e']
                return None
            te, fe = single(e['t']), single(e['e'])
            is_err = lambda x: x is not None and x.get('k') == 'call' and sx.is_path(x['f'], 'Err')
            if is_err(te) and fe is not None:
                sub = self._tail(fe, fn, rep, env, nolet, parts)
                if sub[0] == 'ok':
                    return ('ok', sub[1], sub[2], {'guard': e['c'], 'neg': True})
            if is_err(fe) and te is not None:
                sub = self._tail(te, fn, rep, env, nolet, parts)
                if sub[0] == 'ok':
                    return ('ok', sub[1], sub[2], {'guard': e['c'], 'neg': False})

            def branch(b):
                sub = Fn(fn.file, {'name': fn.name, 'l': b.get('l', fn.line), 'attrs': [],
                                   'sig': {'params': [], 'ret': None}, 'body': b})
                sub.kind = 'parser'
                sub.span_param = fn.span_param
                n0 = len(self.unmodelled)
                self._build_body(sub, env, report_as=rep)
                return sub
            t, f = branch(e['t']), branch(e['e'])
            if not t.stmts and not f.stmts and t.tail[0] == 'apply' and f.tail[0] == 'apply':
                return ('ifelse', e['c'], t.ir, f.ir)
        return ('other', e)

    # -------------------------------------------------------------- queries
    def parsers(self):
        return [f for f in self.fns.values() if f.kind == 'parser']

    def helpers(self):
        return [f for f in self.fns.values() if f.kind == 'helper']


def _subst(ir, sub):
    if isinstance(ir, list):
        return [_subst(x, sub) for x in ir]
    if not isinstance(ir, dict):
        return ir
    if ir.get('op') == 'param' and ir['name'] in sub and sub[ir['name']][0] == 'p':
        return sub[ir['name']][1]
    if ir.get('op') == 'lit' and ir.get('text') is None and ir.get('param') in sub and sub[ir['param']][0] == 'lit':
        out = dict(ir)
        out['text'] = sub[ir['param']][1]
        return out
    out = {}
    for k, v in ir.items():
        if k == 'f' and isinstance(v, dict) and any(x[0] == 'lit' for x in sub.values()):
            out[k] = _subst_ast(v, {n: x[1] for n, x in sub.items() if x[0] == 'lit'})
        elif k in ('f', 'init', 'args', 'fn', 'cond'):
            out[k] = v
        else:
            out[k] = _subst(v, sub)
    return out


def _subst_ast(e, lits):
    """replace paths naming a literal-valued helper parameter by that string literal (closure bodies of inlined helpers)"""
    if isinstance(e, list):
        return [_subst_ast(x, lits) for x in e]
    if not isinstance(e, dict):
        return e
    if e.get('k') == 'path' and e.get('p') in lits:
        return {'k': 'lit', 't': 'str', 'v': lits[e['p']], 'l': e.get('l')}
    return {k: _subst_ast(v, lits) for k, v in e.items()}


def iter_ir(ir):
    """Pre-order over a pexpr tree (not following refs)."""
    if not isinstance(ir, dict) or 'op' not in ir:
        return
    yield ir
    for k in ('p', 'q', 'a', 'b', 'sep', 'item', 'ir'):
        if k in ir and isinstance(ir[k], dict):
            yield from iter_ir(ir[k])
    for k in ('arms', 'parts'):
        if k in ir:
            for x in ir[k]:
                yield from iter_ir(x)


def iter_ir_ctx(ir, under_look=False):
    """Pre-order yielding (node, under_lookahead)"""
    if not isinstance(ir, dict) or 'op' not in ir:
        return
    yield ir, under_look
    look = under_look or ir['op'] in ('peek', 'not')
    for k in ('p', 'q', 'a', 'b', 'sep', 'item', 'ir'):
        if k in ir and isinstance(ir[k], dict):
            yield from iter_ir_ctx(ir[k], look)
    for k in ('arms', 'parts'):
        if k in ir:
            for x in ir[k]:
                yield from iter_ir_ctx(x, look)


def show(ir, depth=0):
    """Human-readable rendering of a pexpr."""
    op = ir.get('op')
    if op == 'lit':
        return '%s("%s")' % (ir['kind'], ir['text'] if ir['text'] is not None else '$' + ir.get('param', '?'))
    if op == 'ref':
        return ir['name']
    if op == 'param':
        return '$' + ir['name']
    if op == 'prim':
        return '%s(%s)' % (ir['name'], sx.render(ir['args']))
    if op == 'alt':
        return 'alt(%s)' % ', '.join(show(a) for a in ir['arms'])
    if op == 'seq':
        return '%s(%s)' % (ir['kind'], ', '.join(show(a) for a in ir['parts']))
    if op in ('opt', 'many0', 'many1', 'peek', 'not', 'ws', 'no_ws', 'all_consuming', 'recognize', 'cut', 'complete',
              'consumed', 'into'):
        return '%s(%s)' % (op, show(ir['p']))
    if op == 'inline':
        return '%s{%s}' % (ir['name'], show(ir['p']))
    if op == 'many_till':
        return 'many_till(%s, %s)' % (show(ir['p']), show(ir['q']))
    if op in ('map', 'value', 'verify', 'map_res', 'map_opt'):
        return '%s(%s, ..)' % (op, show(ir['p']))
    if op == 'terminated':
        return 'terminated(%s, %s)' % (show(ir['p']), show(ir['q']))
    if op == 'preceded':
        return 'preceded(%s, %s)' % (show(ir['q']), show(ir['p']))
    if op == 'delimited':
        return 'delimited(%s, %s, %s)' % (show(ir['a']), show(ir['p']), show(ir['b']))
    if op == 'wrap':
        return '%s(%s)' % (ir['kind'], show(ir['p']))
    if op == 'list':
        return 'list(%s, %s)' % (show(ir['sep']), show(ir['item']))
    if op == 'fold_many0':
        return 'fold_many0(%s, ..)' % show(ir['p'])
    if op == 'closure':
        return '|s| {%s}' % show(ir['ir'])
    if op == 'unmodelled':
        return '<unmodelled %s>' % ir['text'][:40]
    return '<%s>' % op
