"""Model of the preprocessor event loop (sv-parser-pp/src/preprocess.rs), from E1.

Role anchors (no names hard-wired except where stated):
  loop function  = the function that calls `pp_parser` and iterates `<tree>.into_iter().event()`
  output var     = the local initialised with `PreprocessedText::new()`
  main match     = the last `match` on the loop variable in the loop body
"""
from . import sx

CRATE = 'sv-parser-pp'
FILE = 'src/preprocess.rs'


class Arm:
    def __init__(self, arm):
        self.raw = arm
        self.line = arm['l']
        self.end = arm.get('el', arm['l'])
        self.guard = arm.get('guard')
        self.body = arm['body']
        pat = arm['pat']
        self.event = None
        self.kind = None
        self.sub = None
        self.var = None
        self.pat_txt = sx.render(pat)
        if pat.get('k') == 'ts' and pat['p'].startswith('NodeEvent::') and len(pat['e']) == 1:
            self.event = pat['p'].split('::')[-1]
            inner = pat['e'][0]
            if inner.get('k') == 'ts' and inner['p'].startswith('RefNode::') and len(inner['e']) == 1:
                self.kind = inner['p'].split('::')[-1]
                sub = inner['e'][0]
                if sub.get('k') == 'ident':
                    self.var = sub['n']
                elif sub.get('k') == 'ts':
                    self.sub = sub['p']          # e.g. SourceDescription::StringLiteral
                    ids = sx.pat_idents(sub)
                    self.var = ids[0] if ids else None
            elif inner.get('k') == 'ident':
                self.kind = '*'
                self.var = inner['n']
        elif pat.get('k') == 'wild':
            self.event = '_'

    @property
    def key(self):
        return '%s(%s%s)' % (self.event, self.kind, ('/' + self.sub) if self.sub else '')


class PPModel:
    def __init__(self, syn):
        self.syn = syn
        files = sx.crate_files(syn, CRATE)
        self.file = files[FILE]
        self.fns = {}
        self.methods = {}
        self.consts = {}
        self.structs = {}
        for mp, it in sx.items_rec(self.file['items']):
            if it['k'] == 'fn':
                self.fns[it['name']] = it
            elif it['k'] == 'impl':
                for sub in it['items']:
                    if sub.get('k') == 'fn':
                        self.methods[(it['self_tys'].split('<')[0].strip(), sub['name'])] = sub
            elif it['k'] == 'const':
                self.consts[it['name']] = it
            elif it['k'] == 'struct':
                self.structs[it['name']] = it
        self.problems = []
        self.loop_fn = None
        for name, f in self.fns.items():
            calls_pp = any(n.get('k') == 'path' and n['p'].split('::')[-1] == 'pp_parser' for n in sx.walk(f['body']))
            loops = [n for n in sx.walk(f['body']) if n.get('k') == 'for' and n['e'].get('k') == 'mcall' and n['e']['m'] == 'event']
            if calls_pp and loops:
                if self.loop_fn is not None:
                    self.problems.append('more than one event-loop function')
                self.loop_fn = f
                self.loop = loops[0]
        if self.loop_fn is None:
            self.problems.append('event-loop function not found')
            return
        self.loop_var = sx.pat_idents(self.loop['pat'])[0]
        self.loop_stmts = self.loop['body']['stmts']
        # output variable
        self.out_var = None
        for st in self.loop_fn['body']['stmts']:
            if st['k'] == 'let' and 'init' in st and sx.is_call(st['init']) and st['init']['f']['p'] == 'PreprocessedText::new':
                self.out_var = sx.pat_idents(st['pat'])[0]
        if self.out_var is None:
            self.problems.append('output variable (PreprocessedText::new()) not found')
        # parameter names of the loop function
        self.params = [sx.pat_idents(p['pat'])[0] for p in self.loop_fn['sig']['params'] if p.get('k') == 'typed']
        # matches on the loop variable
        self.matches = []
        for i, st in enumerate(self.loop_stmts):
            if st['k'] == 'expr' and st['e'].get('k') == 'match':
                scr = st['e']['e']
                base = scr
                if base.get('k') == 'mcall' and base['m'] == 'clone':
                    base = base['recv']
                if sx.is_path(base, self.loop_var):
                    self.matches.append((i, st['e']))
        if not self.matches:
            self.problems.append('no match on the loop variable')
            return
        self.main_idx, self.main = self.matches[-1]
        self.arms = [Arm(a) for a in self.main['arms']]
        # skip guard: `if skip { continue; }`
        self.guard_idx = None
        self.skip_var = None
        for i, st in enumerate(self.loop_stmts):
            if st['k'] == 'expr' and st['e'].get('k') == 'if' and sx.is_path(st['e']['c']) and 'e' not in st['e']:
                body = st['e']['t']['stmts']
                if len(body) == 1 and body[0]['k'] == 'expr' and body[0]['e'].get('k') == 'continue':
                    self.guard_idx = i
                    self.skip_var = st['e']['c']['p']

    def where(self, line):
        return '%s/%s:%s' % (CRATE, FILE, line)

    def pushes(self, e):
        """all `OUT.push(text, origin)` calls under e"""
        return [n for n in sx.walk(e) if n.get('k') == 'mcall' and n['m'] == 'push' and sx.is_path(n['recv'], self.out_var)
                and len(n['args']) == 2]

    def lets_before(self, block_stmts, upto, name):
        """the closest `let name = init` among block_stmts[:upto]"""
        for st in reversed(block_stmts[:upto]):
            if st['k'] == 'let' and 'init' in st and name in sx.pat_idents(st['pat']):
                return st
        return None
