"""Type graph of the concrete syntax tree (sv-parser-syntaxtree), from E1.

  structs[name] = {'nodes': type-json of the `nodes` field, 'file', 'line', 'derives': [...], 'generics': [...]}
  enums[name]   = {'variants': [(vname, [payload type-json...])], ...}
"""
from . import sx

GENERIC_WRAPPERS = ('Paren', 'Brace', 'Bracket', 'ApostropheBrace', 'List')


class NodeTypes:
    def __init__(self, syn, crate='sv-parser-syntaxtree'):
        self.structs = {}
        self.enums = {}
        self.other_types = {}
        for f, fv in sx.crate_files(syn, crate).items():
            for mp, it in sx.items_rec(fv.get('items', [])):
                if it['k'] not in ('struct', 'enum'):
                    continue
                derives = []
                for a in it['attrs']:
                    if a['p'] == 'derive':
                        derives += [x.strip() for x in a['a'].split(',')]
                rec = {'file': '%s/%s' % (crate, f), 'line': it['l'], 'derives': derives, 'name': it['name'],
                       'generics': [p['n'] for p in it['generics']['params'] if p['k'] == 'type'],
                       'is_node': 'Node' in derives}
                if it['k'] == 'struct':
                    rec['fields'] = it['fields']
                    nodes = [fl for fl in it['fields'] if fl['n'] == 'nodes']
                    rec['nodes'] = nodes[0]['ty'] if nodes else None
                    self.structs[it['name']] = rec
                else:
                    rec['variants'] = [(v['name'], [fl['ty'] for fl in v['fields']]) for v in it['variants']]
                    self.enums[it['name']] = rec

    def node_structs(self):
        return {n: r for n, r in self.structs.items() if r['is_node']}

    def node_enums(self):
        return {n: r for n, r in self.enums.items() if r['is_node']}

    def is_node(self, name):
        return (name in self.structs and self.structs[name]['is_node']) or \
               (name in self.enums and self.enums[name]['is_node'])

    # --------------------------------------------------------------- children
    def children(self, ty, subst=None):
        """Direct child *types* of a type expression in enumeration order, each as
        (type-json, optional, repeated).  Generic wrappers are expanded."""
        subst = subst or {}
        k = ty.get('k')
        if k == 'tuple':
            return [(t, False, False) for t in ty['e']]
        if k == 'path':
            p = ty['p'].split('::')[-1]
            args = ty.get('args', [])
            if p in subst and not args:
                return self.children(subst[p])
            if p == 'Box':
                return [(args[0], False, False)]
            if p == 'Option':
                return [(args[0], True, False)]
            if p == 'Vec':
                return [(args[0], True, True)]
        return None

    def must_contain(self, targets=('Locate',)):
        """Least fixed point: the set of type names every value of which contains at
        least one leaf/node whose type is in `targets` (struct: some mandatory
        field does; enum: every variant does).  Generic wrapper structs (Paren<T>,
        List<T,U>, ..) are handled by substitution into their own `nodes` type."""
        targets = set(targets)
        known = set(targets)

        def ty_must(ty, subst):
            k = ty.get('k')
            if k == 'tuple':
                return any(ty_must(t, subst) for t in ty['e'])
            if k == 'ref':
                return ty_must(ty['e'], subst)
            if k != 'path':
                return False
            p = ty['p'].split('::')[-1]
            args = ty.get('args', [])
            if p in subst and not args:
                return ty_must(subst[p][0], subst[p][1])
            if p in known:
                return True
            if p == 'Box':
                return ty_must(args[0], subst)
            if p in ('Option', 'Vec'):
                return False
            r = self.structs.get(p)
            if r is not None and r['generics'] and r.get('nodes') is not None and len(args) == len(r['generics']):
                return ty_must(r['nodes'], {g: (a, subst) for g, a in zip(r['generics'], args)})
            return False

        changed = True
        while changed:
            changed = False
            for n, r in self.structs.items():
                if n in known or r.get('nodes') is None or r['generics']:
                    continue
                if ty_must(r['nodes'], {}):
                    known.add(n)
                    changed = True
            for n, r in self.enums.items():
                if n in known or not r['variants']:
                    continue
                if all(len(pl) >= 1 and any(ty_must(t, {}) for t in pl) for _, pl in r['variants']):
                    known.add(n)
                    changed = True
        self._ty_must = ty_must
        return known

    def ty_must_contain(self, ty, targets=('Locate',)):
        self.must_contain(targets)
        return self._ty_must(ty, {})
