"""Path enumeration over a (small) function body in synscan JSON: every way control can leave the body with a value,
together with the branch conditions taken and the `let` bindings in force.  Used by must-pass-through rules of the form
"every successful exit is guarded by a test of X".  Loops and other constructs the enumerator does not model raise
Unmodelled (the caller reports UNDECIDED)."""
from . import sx


class Unmodelled(Exception):
    pass


class Path:
    def __init__(self):
        self.conds = []      # (condition node, polarity True/False) ; for `if let` / match arms: (node, 'pat', matched?)
        self.binds = {}      # name -> the let statement (or pattern owner) that bound it last on this path
        self.exit = None     # value expression the body evaluates to / returns
        self.kind = None     # 'tail' | 'return'
        self.calls = []      # call / method-call nodes of the statements executed on this path, in order

    def copy(self):
        p = Path()
        p.conds = list(self.conds)
        p.binds = dict(self.binds)
        p.calls = list(self.calls)
        return p


MAX_PATHS = 400


def enumerate_paths(body, loops=False):
    """body: a block node.  -> [Path].  With loops=True a loop is explored as "body zero times or once" (enough for must-pass-through
    questions about what lies outside the loop); `continue` / `break` end the loop body."""
    out = []

    def note(p, e):
        if isinstance(e, dict):
            p.calls += [n for n in sx.walk(e) if n.get('k') in ('call', 'mcall')]

    def bind_pat(p, pat, owner):
        for n in sx.pat_idents(pat):
            if n:
                p.binds[n] = owner

    def value(e, p, kind, cont):
        """e is evaluated as the value of the enclosing block on path p; cont(path, expr) receives each resulting (path, leaf value)"""
        k = e.get('k')
        if k == 'block':
            block(e['stmts'], p, kind, cont)
        elif k == 'if':
            c = e['c']
            note(p, c.get('e') if c.get('k') == 'let' else c)
            pt, pe = p.copy(), p.copy()
            if c.get('k') == 'let':
                pt.conds.append((c, True))
                pe.conds.append((c, False))
                bind_pat(pt, c['pat'], c)
            else:
                pt.conds.append((c, True))
                pe.conds.append((c, False))
            value(e['t'], pt, kind, cont)
            if 'e' in e:
                value(e['e'], pe, kind, cont)
            else:
                cont(pe, {'k': 'tuple', 'e': []})
        elif k == 'match':
            note(p, e['e'])
            for arm in e['arms']:
                pa = p.copy()
                pa.conds.append(({'k': 'arm', 'scrutinee': e['e'], 'pat': arm['pat'], 'guard': arm.get('guard')}, True))
                bind_pat(pa, arm['pat'], arm)
                value(arm['body'], pa, kind, cont)
        elif k == 'return':
            q = p.copy()
            if 'e' in e:
                value(e['e'], q, 'return', lambda pp, ee: finish(pp, ee, 'return'))
            else:
                finish(q, {'k': 'tuple', 'e': []}, 'return')
        elif k in ('while', 'for', 'loop'):
            if not loops:
                raise Unmodelled('loop')
            note(p, e.get('e') or e.get('c'))
            skip_ = p.copy()
            cont(skip_, {'k': 'tuple', 'e': []})                 # zero iterations
            once = p.copy()
            if k == 'for':
                bind_pat(once, e['pat'], e)
            value(e['body'], once, kind, lambda pp, ee: cont(pp, {'k': 'tuple', 'e': []}))
        elif k in ('continue', 'break'):
            cont(p, {'k': 'tuple', 'e': []})
        else:
            note(p, e)
            cont(p, e)

    def finish(p, e, kind):
        p.exit, p.kind = e, kind
        out.append(p)
        if len(out) > MAX_PATHS:
            raise Unmodelled('too many paths')

    def block(stmts, p, kind, cont):
        if not stmts:
            cont(p, {'k': 'tuple', 'e': []})
            return
        st = stmts[0]
        rest = stmts[1:]
        if st['k'] == 'let':
            if 'init' in st and st['init'].get('k') in ('if', 'match', 'block'):
                def after(pp, ee, st=st, rest=rest):
                    bind_pat(pp, st['pat'], st)
                    pp.binds['=' + '|'.join(n for n in sx.pat_idents(st['pat']) if n)] = ee
                    block(rest, pp, kind, cont)
                value(st['init'], p, kind, after)
                return
            if 'init' in st:
                for n in sx.walk(st['init']):
                    if n.get('k') in ('while', 'for', 'loop'):
                        raise Unmodelled('loop')
                    if n.get('k') == 'return':
                        raise Unmodelled('return inside an initialiser')
                note(p, st['init'])
            bind_pat(p, st['pat'], st)
            block(rest, p, kind, cont)
            return
        if st['k'] == 'expr':
            e = st['e']
            last = not rest
            if last and not st.get('semi'):
                value(e, p, kind, cont)
                return
            if e.get('k') in ('if', 'match', 'block', 'return') or (loops and e.get('k') in ('while', 'for', 'loop', 'continue', 'break')):
                if e.get('k') in ('continue', 'break'):
                    cont(p, {'k': 'tuple', 'e': []})
                    return
                value(e, p, kind, lambda pp, ee, rest=rest: block(rest, pp, kind, cont))
                return
            if e.get('k') in ('while', 'for', 'loop'):
                raise Unmodelled('loop')
            for n in sx.walk(e):
                if n.get('k') == 'return':
                    raise Unmodelled('return inside an expression')
            if e.get('k') == 'assign' and sx.is_path(e['l_']):
                p.binds[e['l_']['p']] = st
            note(p, e)
            block(rest, p, kind, cont)
            return
        if st['k'] in ('macro', 'item', 'fn', 'use'):
            block(rest, p, kind, cont)
            return
        raise Unmodelled('statement ' + str(st['k']))

    block(body['stmts'], Path(), 'tail', lambda pp, ee: finish(pp, ee, 'tail'))
    return out


def exits_avoiding(body, is_target):
    """Must-pass-through without path enumeration: the value expressions with which control can leave `body` (tail value or
    `return`) along SOME path that evaluates no node for which is_target(node) holds.  Linear in the size of the body; loops are
    "zero or more times"; `?` error exits are not value exits and are ignored."""
    exits = []

    def has_target(e):
        return isinstance(e, (dict, list)) and any(is_target(n) for n in sx.walk(e))

    def expr(e, alive, tail):
        """evaluate e with `alive` = reachable without target; returns alive after e; if tail, e's value leaves the body"""
        if not isinstance(e, dict):
            return alive
        k = e.get('k')
        if k == 'block':
            return block(e['stmts'], alive, tail)
        if k == 'if':
            c = e['c']
            a0 = alive and not has_target(c.get('e') if c.get('k') == 'let' else c)
            at = expr(e['t'], a0, tail)
            if 'e' in e:
                ae = expr(e['e'], a0, tail)
            else:
                ae = a0
                if tail and a0:
                    exits.append({'k': 'tuple', 'e': [], 'l': e.get('l')})
            return at or ae
        if k == 'match':
            a0 = alive and not has_target(e['e'])
            res = False
            for arm in e['arms']:
                a1 = a0 and not has_target(arm.get('guard'))
                res = expr(arm['body'], a1, tail) or res
            return res
        if k == 'return':
            if 'e' in e:
                a1 = alive and not has_target(e['e'])
                if a1:
                    collect(e['e'])
            elif alive:
                exits.append({'k': 'tuple', 'e': [], 'l': e.get('l')})
            return False
        if k in ('for', 'while', 'loop'):
            a0 = alive and not has_target(e.get('e') or e.get('c'))
            ab = expr(e['body'], a0, False)
            return a0 or ab
        if k in ('continue', 'break'):
            return alive
        # plain expression
        a1 = alive and not has_target(e)
        # returns hidden inside (e.g. in a closure-free expression) are rare: treat a nested `return` conservatively
        for n in sx.walk(e):
            if n is not e and n.get('k') == 'return' and alive:
                collect(n.get('e') or {'k': 'tuple', 'e': []})
        if tail and a1:
            exits.append(e)
        return a1

    def collect(e):
        """value of a `return e` / tail: split over if/match so that each leaf expression is reported"""
        if isinstance(e, dict) and e.get('k') in ('if', 'match', 'block'):
            expr(e, True, True)
        else:
            exits.append(e)

    def block(stmts, alive, tail):
        for i, st in enumerate(stmts):
            last = i == len(stmts) - 1
            if st['k'] == 'let':
                if 'init' in st:
                    init = st['init']
                    if init.get('k') in ('if', 'match', 'block'):
                        alive = expr(init, alive, False)
                    else:
                        alive = expr(init, alive, False)
                continue
            if st['k'] == 'expr':
                is_tail = tail and last and not st.get('semi')
                alive = expr(st['e'], alive, is_tail)
                continue
        if tail and alive and (not stmts or stmts[-1]['k'] != 'expr' or stmts[-1].get('semi')):
            exits.append({'k': 'tuple', 'e': []})
        return alive

    block(body['stmts'], True, True)
    return exits
