"""Path enumeration over a (small) function body in synscan JSON: every way control can leave the body with a value,
together with the branch conditions taken and the `let` bindings in force.  Used by must-pass-through rules of the form
"every successful exit is guarded by a test of X".  Loops and other constructs the enumerator does not model raise
Unmodelled (the caller reports UNDECIDED)."""
from . import sx


class Unmodelled(Exception):
    pass


class Path:
    def __init__(self):
        self.conds = []      # (condition node, polarity True/False) ; for `if let` / match arms: (node, 'pat', matched?)
        self.binds = {}      # name -> the let statement (or pattern owner) that bound it last on this path
        self.exit = None     # value expression the body evaluates to / returns
        self.kind = None     # 'tail' | 'return'

    def copy(self):
        p = Path()
        p.conds = list(self.conds)
        p.binds = dict(self.binds)
        return p


MAX_PATHS = 400


def enumerate_paths(body):
    """body: a block node.  -> [Path]"""
    out = []

    def bind_pat(p, pat, owner):
        for n in sx.pat_idents(pat):
            if n:
                p.binds[n] = owner

    def value(e, p, kind, cont):
        """e is evaluated as the value of the enclosing block on path p; cont(path, expr) receives each resulting (path, leaf value)"""
        k = e.get('k')
        if k == 'block':
            block(e['stmts'], p, kind, cont)
        elif k == 'if':
            c = e['c']
            pt, pe = p.copy(), p.copy()
            if c.get('k') == 'let':
                pt.conds.append((c, True))
                pe.conds.append((c, False))
                bind_pat(pt, c['pat'], c)
            else:
                pt.conds.append((c, True))
                pe.conds.append((c, False))
            value(e['t'], pt, kind, cont)
            if 'e' in e:
                value(e['e'], pe, kind, cont)
            else:
                cont(pe, {'k': 'tuple', 'e': []})
        elif k == 'match':
            for arm in e['arms']:
                pa = p.copy()
                pa.conds.append(({'k': 'arm', 'scrutinee': e['e'], 'pat': arm['pat'], 'guard': arm.get('guard')}, True))
                bind_pat(pa, arm['pat'], arm)
                value(arm['body'], pa, kind, cont)
        elif k == 'return':
            q = p.copy()
            if 'e' in e:
                value(e['e'], q, 'return', lambda pp, ee: finish(pp, ee, 'return'))
            else:
                finish(q, {'k': 'tuple', 'e': []}, 'return')
        elif k in ('while', 'for', 'loop'):
            raise Unmodelled('loop')
        else:
            cont(p, e)

    def finish(p, e, kind):
        p.exit, p.kind = e, kind
        out.append(p)
        if len(out) > MAX_PATHS:
            raise Unmodelled('too many paths')

    def block(stmts, p, kind, cont):
        if not stmts:
            cont(p, {'k': 'tuple', 'e': []})
            return
        st = stmts[0]
        rest = stmts[1:]
        if st['k'] == 'let':
            if 'init' in st and st['init'].get('k') in ('if', 'match', 'block'):
                def after(pp, ee, st=st, rest=rest):
                    bind_pat(pp, st['pat'], st)
                    pp.binds['=' + '|'.join(n for n in sx.pat_idents(st['pat']) if n)] = ee
                    block(rest, pp, kind, cont)
                value(st['init'], p, kind, after)
                return
            if 'init' in st:
                for n in sx.walk(st['init']):
                    if n.get('k') in ('while', 'for', 'loop'):
                        raise Unmodelled('loop')
                    if n.get('k') == 'return':
                        raise Unmodelled('return inside an initialiser')
            bind_pat(p, st['pat'], st)
            block(rest, p, kind, cont)
            return
        if st['k'] == 'expr':
            e = st['e']
            last = not rest
            if last and not st.get('semi'):
                value(e, p, kind, cont)
                return
            if e.get('k') in ('if', 'match', 'block', 'return'):
                value(e, p, kind, lambda pp, ee, rest=rest: block(rest, pp, kind, cont))
                return
            if e.get('k') in ('while', 'for', 'loop'):
                raise Unmodelled('loop')
            for n in sx.walk(e):
                if n.get('k') == 'return':
                    raise Unmodelled('return inside an expression')
            if e.get('k') == 'assign' and sx.is_path(e['l_']):
                p.binds[e['l_']['p']] = st
            block(rest, p, kind, cont)
            return
        if st['k'] in ('macro', 'item', 'fn', 'use'):
            block(rest, p, kind, cont)
            return
        raise Unmodelled('statement ' + str(st['k']))

    block(body['stmts'], Path(), 'tail', lambda pp, ee: finish(pp, ee, 'tail'))
    return out
