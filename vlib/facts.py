"""Fact acquisition and content-addressed cache.

Facts are a pure function of the sources under the repository root, so they are
cached by the SHA-256 of every *.rs / Cargo.toml / Cargo.lock (target/ and .git
excluded) plus the hashes of the extractor binaries.  A changed working tree
gives a different key and the extractors run again on the current tree.
"""
import fcntl
import hashlib
import json
import os
import shutil
import subprocess
import sys
import tempfile
import time

VERIF = os.path.dirname(os.path.dirname(os.path.abspath(__file__)))
CRATES = ['sv-parser', 'sv-parser-error', 'sv-parser-macros', 'sv-parser-parser', 'sv-parser-pp',
          'sv-parser-syntaxtree']
SYNSCAN = os.path.join(VERIF, 'tools', 'synscan', 'target', 'release', 'synscan')
MIRSCAN = os.path.join(VERIF, 'tools', 'mirscan', 'target', 'release', 'mirscan')


def repo_root():
    return os.environ.get('VERIF_REPO', '/repo')


def _file_hash(p):
    h = hashlib.sha256()
    with open(p, 'rb') as f:
        for chunk in iter(lambda: f.read(1 << 20), b''):
            h.update(chunk)
    return h.hexdigest()


def source_files(root):
    out = []
    for dp, dn, fn in os.walk(root):
        dn[:] = sorted(d for d in dn if d not in ('target', '.git'))
        for f in sorted(fn):
            if f.endswith('.rs') or f in ('Cargo.toml', 'Cargo.lock'):
                out.append(os.path.join(dp, f))
    return out


def source_hash(root, extra=()):
    h = hashlib.sha256()
    for p in source_files(root):
        h.update(os.path.relpath(p, root).encode())
        h.update(b'\0')
        h.update(_file_hash(p).encode())
        h.update(b'\n')
    for p in extra:
        h.update(p.encode())
        h.update(_file_hash(p).encode() if os.path.exists(p) else b'missing')
    return h.hexdigest()


class Lock:
    def __init__(self, path):
        self.path = path

    def __enter__(self):
        os.makedirs(os.path.dirname(self.path), exist_ok=True)
        self.f = open(self.path, 'w')
        fcntl.flock(self.f, fcntl.LOCK_EX)
        return self

    def __exit__(self, *a):
        fcntl.flock(self.f, fcntl.LOCK_UN)
        self.f.close()


class Facts:
    def __init__(self, root=None, log=None):
        self.root = root or repo_root()
        self.log = log or (lambda m: print(m, file=sys.stderr))
        self.key = source_hash(self.root, extra=[p for p in (SYNSCAN, MIRSCAN) if os.path.exists(p)])
        self.dir = os.path.join(VERIF, '.cache', self.key[:24])
        self.lock = os.path.join(VERIF, '.cache', self.key[:24] + '.lock')    # one lock per source state: unrelated trees extract in parallel
        self._touch_and_prune()
        self._syn = None
        self._mir = None
        self._exp = None
        self.timings = {}

    def _touch_and_prune(self, keep=30, max_age=45 * 60, cap=150):
        """the cache is keyed by content; scratch copies (controls, seeds) leave entries behind: keep the `keep` most
        recently used ones and anything used in the last 45 minutes, and never more than `cap` entries (about 50 MB each)"""
        base = os.path.join(VERIF, '.cache')
        try:
            if os.path.isdir(self.dir):
                os.utime(self.dir, None)
            ents = [(os.path.getmtime(os.path.join(base, d)), d) for d in os.listdir(base) if os.path.isdir(os.path.join(base, d))]
            ents.sort(reverse=True)
            now = time.time()
            for i_, (mt, d) in enumerate(ents[keep:], keep):
                if (now - mt > max_age or i_ >= cap) and d != self.key[:24]:
                    shutil.rmtree(os.path.join(base, d), ignore_errors=True)
                    try:
                        os.remove(os.path.join(base, d + '.lock'))
                    except OSError:
                        pass
        except OSError:
            pass

    # ------------------------------------------------------------------ E1
    def syn(self):
        if self._syn is not None:
            return self._syn
        out = os.path.join(self.dir, 'syn.json')
        with Lock(self.lock):
            if not os.path.exists(out):
                if not os.path.exists(SYNSCAN):
                    raise RuntimeError('synscan binary missing: run MANIFEST.setup_cmd (%s)' % SYNSCAN)
                os.makedirs(self.dir, exist_ok=True)
                t0 = time.time()
                args = [SYNSCAN, out + '.tmp']
                for c in CRATES:
                    args += ['--crate', '%s=%s' % (c, os.path.join(self.root, c))]
                subprocess.run(args, check=True)
                os.replace(out + '.tmp', out)
                self.timings['synscan_s'] = round(time.time() - t0, 2)
        with open(out) as f:
            self._syn = json.load(f)
        for c in CRATES:
            if c not in self._syn['crates'] or not self._syn['crates'][c]['files']:
                raise RuntimeError('E1: no files parsed for crate %s (fail closed)' % c)
            for fn, fv in self._syn['crates'][c]['files'].items():
                if 'error' in fv:
                    raise RuntimeError('E1: %s/%s does not parse: %s' % (c, fn, fv['error']))
        return self._syn

    # ------------------------------------------------------------------ E2
    def mir(self):
        if self._mir is not None:
            return self._mir
        out = os.path.join(self.dir, 'mir')
        with Lock(self.lock):
            if not os.path.exists(os.path.join(out, 'DONE')):
                self._run_mirscan(out)
        facts = {}
        for c in CRATES:
            cn = c.replace('-', '_')
            p = os.path.join(out, cn + '.json')
            if not os.path.exists(p):
                raise RuntimeError('E2: no fact file for crate %s (fail closed)' % c)
            with open(p) as f:
                facts[cn] = json.load(f)
        self._mir = facts
        return facts

    # ------------------------------------------------------------------ E2 over the runtime dependency closure
    def runtime_closure(self):
        """names of the non-proc-macro crates linked into a user of sv-parser (normal dependencies, transitively)"""
        r = subprocess.run(['cargo', 'metadata', '--offline', '--format-version', '1'], cwd=self.root, capture_output=True, text=True, check=True)
        m = json.loads(r.stdout)
        pk = {p['id']: p for p in m['packages']}
        nodes = {n['id']: n for n in m['resolve']['nodes']}
        root = [p['id'] for p in m['packages'] if p['name'] == 'sv-parser'][0]
        seen, todo = set(), [root]
        while todo:
            i = todo.pop()
            if i in seen:
                continue
            if any('proc-macro' in t['kind'] for t in pk[i]['targets']):
                continue
            seen.add(i)
            for d in nodes[i]['deps']:
                if any(k['kind'] is None for k in d['dep_kinds']):
                    todo.append(d['pkg'])
        return sorted(pk[i]['name'].replace('-', '_') for i in seen)

    def mir_deps(self):
        """mirscan over every crate of the build (RUSTC_WRAPPER): statics and call sites of the dependency closure"""
        out = os.path.join(self.dir, 'mirdeps')
        with Lock(self.lock):
            if not os.path.exists(os.path.join(out, 'DONE')):
                self._run_mirscan(out, wrapper_all=True)
        facts = {}
        for c in self.runtime_closure():
            p = os.path.join(out, c + '.json')
            if not os.path.exists(p):
                raise RuntimeError('E2(deps): no fact file for runtime crate %s (fail closed)' % c)
            with open(p) as f:
                facts[c] = json.load(f)
        return facts

    def _run_mirscan(self, out, wrapper_all=False):
        if not os.path.exists(MIRSCAN):
            raise RuntimeError('mirscan binary missing: run MANIFEST.setup_cmd (%s)' % MIRSCAN)
        t0 = time.time()
        tmp_out = out + '.tmp'
        shutil.rmtree(tmp_out, ignore_errors=True)
        os.makedirs(tmp_out)
        target = tempfile.mkdtemp(prefix='verif-mir-target-')
        try:
            sysroot = subprocess.run(['rustc', '+nightly', '--print', 'sysroot'], check=True, capture_output=True,
                                     text=True).stdout.strip()
            env = dict(os.environ)
            env.update({
                'LD_LIBRARY_PATH': sysroot + '/lib' + (':' + env['LD_LIBRARY_PATH'] if env.get('LD_LIBRARY_PATH') else ''),
                'RUSTFLAGS': '-Zmir-opt-level=0 -Awarnings',
                'CARGO_TARGET_DIR': target,
                'MIRSCAN_OUT': tmp_out,
                'CARGO_NET_OFFLINE': 'true',
            })
            if wrapper_all:
                env['RUSTC_WRAPPER'] = MIRSCAN
                env['MIRSCAN_CFG'] = '-'
            else:
                env['RUSTC_WORKSPACE_WRAPPER'] = MIRSCAN
            self.log('E2: cargo +nightly check with mirscan (fresh target dir, about 1-2 min)...')
            r = subprocess.run(['cargo', '+nightly', 'check', '--offline', '--workspace', '--lib', '-j', '16'],
                               cwd=self.root, env=env, capture_output=True, text=True)
            if r.returncode != 0:
                raise RuntimeError('E2: cargo check failed:\n' + r.stderr[-4000:])
        finally:
            shutil.rmtree(target, ignore_errors=True)
        shutil.rmtree(out, ignore_errors=True)
        os.replace(tmp_out, out)
        with open(os.path.join(out, 'DONE'), 'w') as f:
            f.write('%f\n' % (time.time() - t0))
        self.timings['mirscan_s'] = round(time.time() - t0, 1)

    # ------------------------------------------------------------------ E1x
    def exp(self):
        """Macro-expanded sv-parser-syntaxtree (derive output), parsed by synscan."""
        if self._exp is not None:
            return self._exp
        out = os.path.join(self.dir, 'exp.json')
        with Lock(self.lock):
            if not os.path.exists(out):
                os.makedirs(self.dir, exist_ok=True)
                t0 = time.time()
                target = tempfile.mkdtemp(prefix='verif-exp-target-')
                try:
                    env = dict(os.environ)
                    env.update({'CARGO_TARGET_DIR': target, 'CARGO_NET_OFFLINE': 'true'})
                    self.log('E1x: expanding sv-parser-syntaxtree (cargo +nightly rustc -Zunpretty=expanded, about 15 s)...')
                    r = subprocess.run(['cargo', '+nightly', 'rustc', '--offline', '-p', 'sv-parser-syntaxtree', '--lib', '--',
                                        '-Zunpretty=expanded'], cwd=self.root, env=env, capture_output=True, text=True)
                    if r.returncode != 0 or len(r.stdout) < 100000:
                        raise RuntimeError('E1x: macro expansion failed:\n' + r.stderr[-3000:])
                    src = os.path.join(target, 'expanded.rs')
                    with open(src, 'w') as f:
                        f.write(r.stdout)
                    subprocess.run([SYNSCAN, out + '.tmp', '--skip-impl-of',
                                    'Clone,Debug,PartialEq,StructuralPartialEq,Copy,Default,TrivialClone,Display',
                                    'expanded=' + src], check=True)
                    os.replace(out + '.tmp', out)
                finally:
                    shutil.rmtree(target, ignore_errors=True)
                self.timings['expand_s'] = round(time.time() - t0, 1)
        with open(out) as f:
            self._exp = json.load(f)['files']['expanded']
        if 'error' in self._exp:
            raise RuntimeError('E1x: expanded source does not parse: ' + self._exp['error'])
        return self._exp

    def src(self, rel):
        with open(os.path.join(self.root, rel)) as f:
            return f.read()
