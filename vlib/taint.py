"""A small forward "derives-from" analysis over the synscan JSON: which values are computed from which sources.
Over-approximate (an expression is tainted by everything its sub-expressions are tainted by); private helper
functions of the same file are analysed with the taints of their arguments (depth-limited)."""
from . import sx


class Taint:
    def __init__(self, fns, sources, depth=2):
        """fns: name -> fn item (free functions and methods by bare name); sources: callable(expr, taint_of) -> set or None"""
        self.fns = fns
        self.sources = sources
        self.depth = depth
        self.watch = None       # predicate on call nodes
        self.hits = []          # (node, [taint of each argument]) for watched calls, in the environment at that point

    def of(self, e, env, depth=0):
        if e is None or not isinstance(e, dict):
            return set()
        src = self.sources(e, lambda x: self.of(x, env, depth))
        if src is not None:
            return set(src)
        k = e.get('k')
        if k == 'path':
            return set(env.get(e['p'], ()))
        if k == 'block':
            return self.block(e, env, depth)
        if k == 'if':
            env2 = dict(env)
            t = set()
            c = e['c']
            if c.get('k') == 'let':
                st = self.of(c['e'], env, depth)
                for n in sx.pat_idents(c['pat']):
                    if n:
                        env2[n] = set(st)
            else:
                t |= set()
            t |= self.of(e['t'], env2, depth)
            if 'e' in e:
                t |= self.of(e['e'], env, depth)
            return t
        if k == 'match':
            st = self.of(e['e'], env, depth)
            t = set()
            for a in e['arms']:
                env2 = dict(env)
                for n in sx.pat_idents(a['pat']):
                    if n:
                        env2[n] = set(st)
                t |= self.of(a['body'], env2, depth)
            return t
        if k == 'closure':
            env2 = dict(env)
            return self.of(e['body'], env2, depth)
        if k == 'call' and sx.is_path(e['f']):
            name = e['f']['p'].split('::')[-1]
            args_t = [self.of(a, env, depth) for a in e['args']]
            if self.watch is not None and depth == 0 and self.watch(e):
                self.hits.append((e, args_t))
            f = self.fns.get(name)
            if f is not None and depth < self.depth and 'body' in f:
                ps = [p for p in f['sig']['params'] if p.get('k') == 'typed']
                if len(ps) == len(e['args']):
                    env2 = {}
                    for p, at in zip(ps, args_t):
                        for n in sx.pat_idents(p['pat']):
                            if n:
                                env2[n] = set(at)
                    return self.block(f['body'], env2, depth + 1)
            t = set()
            for at in args_t:
                t |= at
            return t
        if k == 'mcall':
            t = self.of(e['recv'], env, depth)
            # closures passed to map/and_then/... see the receiver's value
            for a in e['args']:
                if a.get('k') == 'closure':
                    env2 = dict(env)
                    for p in a['params']:
                        for n in sx.pat_idents(p):
                            if n:
                                env2[n] = set(t)
                    t |= self.of(a['body'], env2, depth)
                else:
                    t |= self.of(a, env, depth)
            f = self.fns.get(e['m'])
            if f is not None and depth < self.depth and 'body' in f and f['sig']['params'] and f['sig']['params'][0].get('k') == 'self':
                ps = [p for p in f['sig']['params'] if p.get('k') == 'typed']
                if len(ps) == len(e['args']):
                    env2 = {'self': self.of(e['recv'], env, depth)}
                    for p, a in zip(ps, e['args']):
                        for n in sx.pat_idents(p['pat']):
                            if n:
                                env2[n] = self.of(a, env, depth)
                    t |= self.block(f['body'], env2, depth + 1)
            return t
        t = set()
        for kk, v in e.items():
            if kk in ('l', 'col', 'el', 'k'):
                continue
            if isinstance(v, dict):
                t |= self.of(v, env, depth)
            elif isinstance(v, list):
                for x in v:
                    if isinstance(x, dict):
                        if 'e' in x and 'n' in x and isinstance(x['e'], dict):
                            t |= self.of(x['e'], env, depth)      # struct field
                        else:
                            t |= self.of(x, env, depth)
        return t

    def block(self, b, env, depth=0):
        """taint of the value(s) a block can evaluate / return to; env is updated with the lets (copy)"""
        env = dict(env)
        t = set()
        if b.get('k') != 'block':
            return self.of(b, env, depth)
        stmts = b['stmts']
        for i, st in enumerate(stmts):
            if st['k'] == 'let':
                it = self.of(st.get('init'), env, depth) if 'init' in st else set()
                for n in sx.pat_idents(st['pat']):
                    if n:
                        env[n] = set(it)
            elif st['k'] == 'expr':
                e = st['e']
                for n in sx.walk_skip(e, lambda x: x.get('k') == 'closure'):
                    if n.get('k') == 'assign' and sx.is_path(n['l_']):
                        env[n['l_']['p']] = set(env.get(n['l_']['p'], ())) | self.of(n['r'], env, depth)
                    if n.get('k') == 'return' and 'e' in n:
                        t |= self.of(n['e'], env, depth)
                if i == len(stmts) - 1 and not st.get('semi'):
                    t |= self.of(e, env, depth)
                else:
                    self.of(e, env, depth)
        self.last_env = env
        return t
