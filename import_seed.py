#!/usr/bin/env python3
"""import_seed.py <worktree-id> <seed-name> "<caught by>" "<what I ran>"  — keep a confirmed seeded change under /verif/seeded/<name>/"""
import json, os, shutil, sys
wid, name, caught, ran = sys.argv[1:5]
src = '/tmp/wt/%s/_seed' % wid
dst = '/verif/seeded/%s' % name
os.makedirs(dst, exist_ok=True)
shutil.copy(src + '/patch.diff', dst + '/patch.diff')
shutil.copy(src + '/seed_demo.rs', dst + '/seed_demo.rs')
m = json.load(open(src + '/meta.json'))
log = open('/tmp/wt/verify_%s.log' % wid).read() if os.path.exists('/tmp/wt/verify_%s.log' % wid) else ''
meta = {
    'property': m.get('property'),
    'summary': m.get('summary'),
    'needs_to_manifest': m.get('needs'),
    'files_changed': m.get('files_changed'),
    'author': 'independent sub-agent given only the property record and a scratch worktree of /repo at ' + (sys.argv[5] if len(sys.argv) > 5 else 'c69db8f'),
    'confirmed_by_me': {
        'how': 'in the scratch worktree: cargo test --workspace --no-fail-fast --offline (existing suite) with the change; '
               'cargo test -p sv-parser --test seed_demo with the change (must fail) and with the patch reverse-applied (must pass)',
        'log': log.strip().splitlines(),
    },
    'checks': {'caught_by': caught, 'ran': ran},
}
json.dump(meta, open(dst + '/meta.json', 'w'), indent=1)
print('imported', dst)
