#!/usr/bin/env python3
"""Regenerate MANIFEST.json from props.py (claimed properties) + the not-applicable table."""
import json, os, sys
sys.path.insert(0, os.path.dirname(os.path.abspath(__file__)))
import props

ALL = ['C%02d' % i for i in range(1, 21)]
checks = []
for pid in ALL:
    if pid not in props.PROPS:
        continue
    P = props.PROPS[pid]
    checks.append({
        'property_id': pid,
        'quick_cmd': './check %s --tier quick' % pid,
        'thorough_cmd': './check %s --tier thorough' % pid,
        'evidence_file': 'evidence/%s.json' % pid,
        'replay_cmd_template': './check %s --replay {path}' % pid,
        'engine': P.get('engine', 'synscan+rules'),
        'level_claimed': {'category': 'other', 'text': P['level_text'], 'design_ref': 'DESIGN.md section 5, ' + pid},
        'level_note': P['level_note'],
        'technique': P['technique'],
    })
na = []
for pid in ALL:
    if pid not in props.PROPS:
        na.append({'property_id': pid, 'reason': props.NOT_APPLICABLE.get(pid, 'check not built yet in this phase; see DESIGN.md')})
m = {
    'version': 1,
    'setup_cmd': './setup.sh',
    'hooks': {
        'guard': 'sv_parser_verif',
        'enable': 'none: nothing in /repo is instrumented or executed by the checks (static analysis only)',
        'baseline_off_cmd': 'cd /repo && cargo test --workspace --no-fail-fast --offline',
        'source_commits': [],
        'add_only': True,
    },
    'engines': [
        {'name': 'synscan', 'path': 'tools/synscan', 'serves_properties': sorted(props.PROPS),
         'kind_free_text': 'E1: syn 2 based extractor, dumps cfg-evaluated syntax trees of all workspace crates as JSON (stable toolchain)'},
        {'name': 'mirscan', 'path': 'tools/mirscan', 'serves_properties': sorted(p for p in props.PROPS if props.PROPS[p].get('needs_mir')),
         'kind_free_text': 'E2: rustc_private driver injected with RUSTC_WORKSPACE_WRAPPER under cargo +nightly check; dumps resolved call graph, statics, panic sites, per-body CFG summaries from MIR'},
        {'name': 'check', 'path': 'check', 'serves_properties': sorted(props.PROPS),
         'kind_free_text': 'Python orchestrator: content-hash fact cache, repository-specific rules (rules/*.py), known-findings protocol, evidence writer'},
    ],
    'checks': checks,
    'not_applicable': na,
    'notes': 'Static analysis only (DESIGN.md). Every check re-derives its facts from the current /repo working tree '
             '(cache key = SHA-256 of the sources). Level category "other": exhaustive rule evaluation over program '
             'constructs, not over inputs.',
}
json.dump(m, open(os.path.join(os.path.dirname(os.path.abspath(__file__)), 'MANIFEST.json'), 'w'), indent=1)
print('MANIFEST.json: %d checks, %d not applicable' % (len(checks), len(na)))
