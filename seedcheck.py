#!/usr/bin/env python3
"""seedcheck.py [name-substring] [-jN]  — regression for the machinery itself: apply every kept seeded change
(/verif/seeded/*/patch.diff) to a scratch copy of /repo and require that the check of the property it breaks exits 1
with a VIOLATION line.  Not registered in MANIFEST (it tests the checks, not the repository).  N seeds are run at a time (default 4)."""
import glob, json, os, shutil, subprocess, sys, tempfile
from concurrent.futures import ThreadPoolExecutor
args = [a for a in sys.argv[1:] if not a.startswith('-j')]
jobs = ([int(a[2:]) for a in sys.argv[1:] if a.startswith('-j') and a[2:].isdigit()] or [4])[0]
sel = args[0] if args else ''


def one(d):
    name = os.path.basename(d.rstrip('/'))
    meta = json.load(open(d + 'meta.json'))
    pid = meta['property']
    s = tempfile.mkdtemp(prefix='verif-seedcheck-')
    try:
        subprocess.run(['rsync', '-a', '--exclude', 'target', '--exclude', '.git', '/repo/', s + '/'], check=True)
        r = subprocess.run(['patch', '-p1', '-s', '-i', d + 'patch.diff'], cwd=s, capture_output=True, text=True)
        if r.returncode != 0:
            return name, None, '%-45s STALE (patch no longer applies)' % name
        env = dict(os.environ, VERIF_REPO=s)
        r = subprocess.run(['/verif/check', pid], env=env, capture_output=True, text=True)
        v = [l for l in r.stdout.splitlines() if l.startswith('VIOLATION')]
        ok = r.returncode == 1 and bool(v)
        return name, ok, '%-45s %s  (%s: exit %d, %d VIOLATION lines)' % (name, 'CAUGHT' if ok else 'MISSED', pid, r.returncode, len(v))
    finally:
        shutil.rmtree(s, ignore_errors=True)


dirs = [d for d in sorted(glob.glob('/verif/seeded/*/')) if sel in os.path.basename(d.rstrip('/'))]
bad = 0
with ThreadPoolExecutor(max_workers=jobs) as ex:
    for name, ok, line in ex.map(one, dirs):
        print(line, flush=True)
        if ok is False:
            bad += 1
sys.exit(1 if bad else 0)
