#!/usr/bin/env python3
"""seedcheck.py [name-substring]  — regression for the machinery itself: apply every kept seeded change
(/verif/seeded/*/patch.diff) to a scratch copy of /repo and require that the check of the property it breaks exits 1
with a VIOLATION line.  Not registered in MANIFEST (it tests the checks, not the repository)."""
import glob, json, os, shutil, subprocess, sys, tempfile
sel = sys.argv[1] if len(sys.argv) > 1 else ''
bad = 0
for d in sorted(glob.glob('/verif/seeded/*/')):
    name = os.path.basename(d.rstrip('/'))
    if sel not in name:
        continue
    meta = json.load(open(d + 'meta.json'))
    pid = meta['property']
    s = tempfile.mkdtemp(prefix='verif-seedcheck-')
    try:
        subprocess.run(['rsync', '-a', '--exclude', 'target', '--exclude', '.git', '/repo/', s + '/'], check=True)
        r = subprocess.run(['patch', '-p1', '-s', '-i', d + 'patch.diff'], cwd=s, capture_output=True, text=True)
        if r.returncode != 0:
            print('%-45s STALE (patch no longer applies)' % name)
            continue
        env = dict(os.environ, VERIF_REPO=s)
        r = subprocess.run(['/verif/check', pid], env=env, capture_output=True, text=True)
        v = [l for l in r.stdout.splitlines() if l.startswith('VIOLATION')]
        ok = r.returncode == 1 and v
        print('%-45s %s  (%s: exit %d, %d VIOLATION lines)' % (name, 'CAUGHT' if ok else 'MISSED', pid, r.returncode, len(v)))
        bad += 0 if ok else 1
    finally:
        shutil.rmtree(s, ignore_errors=True)
sys.exit(1 if bad else 0)
