#!/bin/sh
# Build the extractors offline from the sources under tools/ (cargo cache only).
set -e
cd "$(dirname "$0")"
export CARGO_NET_OFFLINE=true
(cd tools/synscan && cargo build --offline --release 2>&1 | tail -2)
if [ -d tools/mirscan ]; then
  (cd tools/mirscan && cargo +nightly build --offline --release 2>&1 | tail -2)
fi
# warm the fact cache for the current tree (facts are keyed by source hash, so a later edit of /repo re-extracts)
./check --warm || true
