"""Positive controls (thorough tier): for every rule a small seeded source mutation, applied to a scratch copy of the
current /repo working tree outside /repo and /verif, on which the rule must fire naming the mutated construct.
A rule that stays silent on its control is reported as broken (a rule matching nothing passes vacuously forever).
A control whose anchor text is no longer in the tree is reported as stale in the evidence, never as a violation.

Each control: (id, rule, engine, expected-key-substring, [(file, old, new, count)])   count 0 = all occurrences
"""
import os
import shutil
import subprocess
import tempfile
import time
from concurrent.futures import ThreadPoolExecutor

from vlib.ctx import Ctx
from vlib.report import RuleResult

PARSER = 'sv-parser-parser/src/'
PPF = 'sv-parser-pp/src/preprocess.rs'
API = 'sv-parser/src/lib.rs'
CD = PARSER + 'general/compiler_directives.rs'

CONTROLS = [
    ('g0-ws-drops-trivia', 'G0', 'syn', 'helper-shape:ws', [(PARSER + 'utils.rs',
        '        let (s, y) = many0(white_space)(s)?;\n        Ok((s, (x, y)))', '        Ok((s, (x, vec![])))', 1)]),
    ('g1-brace-reordered', 'G1', 'syn', 'brace:construct', [(PARSER + 'utils.rs', 'Ok((s, Brace { nodes: (a, b, c) }))', 'Ok((s, Brace { nodes: (c, b, a) }))', 0)]),
    ('g2-angle-literal-drops-closer', 'G2', 'syn', 'angle_bracket_literal_impl:lexeme', [(CD,
        '    let a = concat(a, b).unwrap();\n    let a = concat(a, c).unwrap();\n\n    Ok((s, into_locate(a)))', '    let a = concat(a, b).unwrap();\n\n    Ok((s, into_locate(a)))', 1)]),
    ('g3-many_till-consuming-terminator', 'G3', 'syn', 'library_text:let-ignores-output', [(PARSER + 'source_text/library_source_text.rs',
        'many_till(library_description, eof)', 'many_till(library_description, symbol(";"))', 1)]),
    ('g4-len-in-chars', 'G4', 'syn', 'into_locate:locate-fields', [(PARSER + 'utils.rs', 'len: s.fragment().len(),', 'len: s.fragment().chars().count(),', 1)]),
    ('g4c-merge-drops-length', 'G4c', 'exp', 'locate-merge', [('sv-parser-macros/src/lib.rs', 'len: loc.len + x.len });', 'len: x.len });', 1)]),
    ('g5-arm-deleted', 'G5', 'syn', 'variant-never-built:DataType::Event', [(PARSER + 'declarations/net_and_variable_types.rs',
        '        map(keyword("event"), |x| DataType::Event(Box::new(x))),\n', '', 1)]),
    ('g6-le-after-lt', 'G6', 'syn', 'binary_operator:shadow', [(PARSER + 'expressions/operators.rs',
        '            symbol("<="),\n            symbol("<"),', '            symbol("<"),\n            symbol("<="),', 1)]),
    ('g7-keyword-without-boundary', 'G7', 'syn', 'keyword:no-boundary', [(PARSER + 'utils.rs',
        'terminated(map(tag(t), into_locate), peek(none_of(AZ09_DOLLAR))),', 'map(tag(t), into_locate),', 0)]),
    ('g7b-lookahead-raw-tag', 'G7', 'syn', 'else_group_of_lines:lookahead-no-boundary', [(CD, 'peek(not(directive_word("`endif"))),', 'peek(not(tag("`endif"))),', 1)]),
    ('g8-chandle-as-event', 'G8', 'syn', 'keyword-variant:chandle', [(PARSER + 'declarations/net_and_variable_types.rs',
        'map(keyword("chandle"), |x| DataType::Chandle(Box::new(x))),', 'map(keyword("chandle"), |x| DataType::Event(Box::new(x))),', 1)]),
    ('g9-nullable-trivia', 'G9', 'syn', 'nullable-loop', [(PARSER + 'utils.rs',
        '        map(multispace1, |x: Span| {\n            WhiteSpace::Space(Box::new(into_locate(x)))\n        })(s)',
        '        map(multispace0, |x: Span| {\n            WhiteSpace::Space(Box::new(into_locate(x)))\n        })(s)', 1)]),
    ('g10-strict-entry-relaxed', 'G10', 'syn', 'sv_parser:not-strict', [(PARSER + 'source_text/system_verilog_source_text.rs',
        '    let (s, (c, _)) = many_till(description, eof)(s)?;', '    let (s, c) = many0(description)(s)?;', 1)]),
    ('g11-incomplete-many1', 'G11', 'syn', 'library_text_incomplete', [(PARSER + 'source_text/library_source_text.rs',
        '    let (s, b) = many0(library_description)(s)?;', '    let (s, b) = many1(library_description)(s)?;', 1)]),
    ('g12-number-without-trivia', 'G12', 'syn', 'no-trivia-junction', [(PARSER + 'expressions/numbers.rs',
        '    let (s, a) = ws(unsigned_number_impl)(s)?;', '    let (s, a) = no_ws(unsigned_number_impl)(s)?;', 1)]),
    ('g13-tracer-capacity', 'G13', 'syn', 'recursive-capacity', [('sv-parser-parser/Cargo.toml', 'features = ["tracer128"]', 'features = []', 1)]),
    ('k1-uwire-missing', 'K1', 'syn', 'table-missing:KEYWORDS_1364_2005:uwire', [(PARSER + 'keywords.rs', '    "uwire",\n', '', 1)]),
    ('k2-wrong-table', 'K2', 'syn', 'is_keyword:wrong-table:Ieee1800_2009', [(PARSER + 'utils.rs',
        'Some(Version::Ieee1800_2009) => KEYWORDS_1800_2009,', 'Some(Version::Ieee1800_2009) => KEYWORDS_1800_2012,', 1)]),
    ('k3-noconfig-selects-2001', 'K3', 'syn', 'version_specifier:mismatch:1364-2001-noconfig', [(CD, 'begin_keywords("1364-2001-noconfig");', 'begin_keywords("1364-2001");', 1)]),
    ('k4-identifier-accepts-keywords', 'K4', 'syn', 'simple_identifier_impl:no-keyword-test', [(PARSER + 'general/identifiers.rs',
        '        a\n    };\n    if is_keyword(&a) {\n        Err(Err::Error(make_error(s, ErrorKind::Fix)))\n    } else {\n        Ok((s, into_locate(a)))\n    }\n}\n\n#[tracable_parser]\npub(crate) fn specparam_identifier',
        '        a\n    };\n    Ok((s, into_locate(a)))\n}\n\n#[tracable_parser]\npub(crate) fn specparam_identifier', 1)]),
    ('t1-tuple3-order', 'T1', 'syn', '(T0, T1, T2):order', [('sv-parser-syntaxtree/src/any_node.rs',
        '        let (t0, t1, t2) = x;\n        ret.append(&mut t0.into().0);\n        ret.append(&mut t1.into().0);',
        '        let (t0, t1, t2) = x;\n        ret.append(&mut t1.into().0);\n        ret.append(&mut t0.into().0);', 1)]),
    ('t2-self-listed-twice', 'T2', 'exp', 'into-refnodes', [('sv-parser-macros/src/lib.rs', 'vec![RefNode::#name(x)].into()', 'vec![RefNode::#name(x), RefNode::#name(x)].into()', 1)]),
    ('t3-derive-not-reversed', 'T3', 'exp', 'into_iter', [('sv-parser-macros/src/lib.rs', '                nodes.0.reverse();\n', '', 1)]),
    ('x1-empty-origin-range', 'X1', 'syn', 'Enter(SourceDescriptionNotDirective):0:origin-range', [(PPF,
        '                let range = Range::new(locate.offset, locate.offset + locate.len);\n                ret.push(locate.str(&s), Some((path.as_ref(), range)));\n            }\n            NodeEvent::Enter(RefNode::SourceDescription(SourceDescription::StringLiteral(x)))',
        '                let range = Range::new(locate.offset, locate.offset);\n                ret.push(locate.str(&s), Some((path.as_ref(), range)));\n            }\n            NodeEvent::Enter(RefNode::SourceDescription(SourceDescription::StringLiteral(x)))', 1)]),
    ('x2-empty-push-allowed', 'X2', 'syn', 'empty-key', [(PPF, '        if s.is_empty() {\n            return;\n        }\n', '', 1)]),
    ('x3-push-public', 'X3', 'syn', 'writer-visible:push', [(PPF, '    fn push<T: AsRef<Path>>(&mut self', '    pub fn push<T: AsRef<Path>>(&mut self', 1)]),
    ('x4-kept-directive-emits-blanks-twice', 'X4', 'syn', 'Enter(ResetallCompilerDirective):double-emission', [(PPF,
        '                ret.push(locate.str(&s), Some((path.as_ref(), range)));\n                skip_whitespace = true;\n            }\n            NodeEvent::Leave(RefNode::ResetallCompilerDirective(_))',
        '                ret.push(locate.str(&s), Some((path.as_ref(), range)));\n            }\n            NodeEvent::Leave(RefNode::ResetallCompilerDirective(_))', 1)]),
    ('x4b-macro-usage-not-skipped', 'X4', 'syn', 'unhandled-kind', [(PPF, '            NodeEvent::Enter(RefNode::TextMacroUsage(x)) => {', '            NodeEvent::Enter(RefNode::TextMacroUsage(x)) if false => {', 1)]),
    ('x5-polarity', 'X5', 'syn', 'polarity', [(PPF, 'if !defines.contains_key(&ifid) && !is_predefined_text_macro(&ifid) {', 'if !defines.contains_key(&ifid) && is_predefined_text_macro(&ifid) {', 1)]),
    ('x6-ifndef-keeps-else', 'X15', 'syn', 'else-branch', [(PPF,
        '                    if hit {\n                        skip_nodes.push(elsebody.into());\n                    }\n                }\n            }\n            NodeEvent::Enter(RefNode::TextMacroDefinition(x))',
        '                    if !hit {\n                        skip_nodes.push(elsebody.into());\n                    }\n                }\n            }\n            NodeEvent::Enter(RefNode::TextMacroDefinition(x))', 1)]),
    ('x7-guard-weakened', 'X7', 'syn', 'skip_guard', [(PPF, '        if skip {\n            continue;\n        }', '        if skip && !ignore_include {\n            continue;\n        }', 1)]),
    ('x8-expansion-not-counted', 'X8', 'syn', 'cycle-unranked', [(PPF,
        '                    strip_comments,\n                    resolve_depth + 1,\n                    include_depth,\n                )? {\n                    ret.push(&text, origin);',
        '                    strip_comments,\n                    resolve_depth,\n                    include_depth,\n                )? {\n                    ret.push(&text, origin);', 1),
        (PPF, '                            strip_comments,\n                            resolve_depth + 1,\n                            include_depth,', '                            strip_comments,\n                            resolve_depth,\n                            include_depth,', 1)]),
    ('x9-flags-swapped', 'X9', 'syn', 'swapped', [(PPF, '            include_paths,\n            ignore_include,\n            strip_comments,\n            resolve_depth,', '            include_paths,\n            strip_comments,\n            ignore_include,\n            resolve_depth,', 1)]),
    ('x10-include-defines-dropped', 'X10', 'syn', 'defines-not-adopted', [(PPF, '                defines = new_defines;\n                ret.merge(include);', '                ret.merge(include);', 1)]),
    ('x10-expansion-defines-wildcard', 'X10', 'syn', 'expansion-defines-not-adopted', [(PPF,
        '                if let Some((text, origin, new_defines)) = resolve_text_macro_usage(', '                if let Some((text, origin, _)) = resolve_text_macro_usage(', 1),
        (PPF, '                    ret.push(&text, origin);\n                    defines = new_defines;', '                    ret.push(&text, origin);', 1)]),
    ('x21-blanks-not-removed', 'X21', 'syn', 'include-name:TextMacroUsage:name-not-bare', [(PPF,
        "                            let p = p.trim();\n", "                            let p = p.as_str();\n", 1)]),
    ('x21-angle-not-removed', 'X21', 'syn', 'include-name:TextMacroUsage:name-not-bare:angle', [(PPF,
        "                                p.trim_start_matches('<').trim_end_matches('>')\n", "                                p.trim_matches('\"')\n", 1)]),
    ('w2-flag-widens-ignore-include', 'W2', 'syn', 'parse_sv_str:mode-flag-misused', [(API,
        '        pre_defines,\n        include_paths,\n        ignore_include,\n        false, // strip_comments\n        0, // resolve_depth',
        '        pre_defines,\n        include_paths,\n        ignore_include || allow_incomplete,\n        false, // strip_comments\n        0, // resolve_depth', 1)]),
    ('g4-locate-len-assigned', 'G4', 'syn', 'default_text:locate-field-assigned:len', [(CD,
        '    let (s, a) = define_argument(s)?;\n    Ok((\n        s,\n        DefaultText {\n            nodes: (into_locate(a),),\n        },\n    ))',
        '    let (s, a) = define_argument(s)?;\n    let len = a.fragment().trim_end().len();\n    let mut a = into_locate(a);\n    a.len = len;\n    Ok((s, DefaultText { nodes: (a,) }))', 1)]),
    ('g4-concat-line-of-second', 'G4', 'syn', 'concat:concat-position', [(PARSER + 'utils.rs',
        'Span::new_from_raw_offset(a.location_offset(), a.location_line(), c, a.extra)', 'Span::new_from_raw_offset(a.location_offset(), b.location_line(), c, a.extra)', 1)]),
    ('g14-newline-is-line-ending', 'G14', 'syn', 'white_space:trivia-alphabet-incomplete:0d', [(PARSER + 'utils.rs',
        '            map(multispace1, |x: Span| {\n                WhiteSpace::Newline(Box::new(into_locate(x)))', '            map(recognize(many1(line_ending)), |x: Span| {\n                WhiteSpace::Newline(Box::new(into_locate(x)))', 1)]),
    ('x4-newline-blanks-copied', 'X4', 'syn', 'Enter(WhiteSpace):copies-variant:Newline', [(PPF,
        '                if let WhiteSpace::Space(_) = x {', '                if let WhiteSpace::Space(_) | WhiteSpace::Newline(_) = x {', 1)]),
    ('x3-merge-base-in-chars', 'X3', 'syn', 'PreprocessedText:merge', [(PPF,
        '        let base = self.text.len();\n        self.text.push_str(&other.text);', '        let base = self.text.chars().count();\n        self.text.push_str(&other.text);', 1)]),
    ('x13-paren-appended-after-rescan', 'X13', 'syn', 'expansion-text-modified-after-rescan', [(PPF,
        '            if let Some(paren) = paren {\n                replaced.push_str(&paren);\n            }\n\n', '', 1),
        (PPF, '            Ok(Some((\n                String::from(replaced.text()),\n                text.origin.clone(),',
         '            let mut replaced = String::from(replaced.text());\n            if let Some(paren) = paren {\n                replaced.push_str(&paren);\n            }\n            Ok(Some((\n                replaced,\n                text.origin.clone(),', 1)]),
    ('g22-star-run-guarded', 'G22', 'syn', 'block_comment:greedy-run-before-closer', [(PARSER + 'general/comments.rs',
        'terminated(tag("*"), peek(not(tag("/")))),', 'terminated(is_a("*"), peek(not(tag("/")))),', 1)]),
    ('x1-blanks-joined-to-expansion', 'X1', 'syn', 'Enter(TextMacroUsage):0:text-assembled', [(PPF,
        '                if let Some((text, origin, new_defines)) = resolve_text_macro_usage(', '                if let Some((mut text, origin, new_defines)) = resolve_text_macro_usage(', 1),
        (PPF, '                    ret.push(&text, origin);\n                    defines = new_defines;', '                    text.push_str(" ");\n                    ret.push(&text, origin);\n                    defines = new_defines;', 1)]),
    ('x13-table-only-for-literal-define', 'X13', 'syn', 'expansion-table-replaced', [(PPF,
        '            Ok(Some((\n                String::from(replaced.text()),\n                text.origin.clone(),\n                new_defines,',
        '            Ok(Some((\n                String::from(replaced.text()),\n                text.origin.clone(),\n                defines.clone(),', 1)]),
    ('w5-trim-as-characters', 'W5', 'syn', 'get_str_trim:slice', [(API,
        '        let mut beg = None;\n        let mut end = 0;\n        let mut skip = false;\n        for n in Iter::new(nodes.into()).event() {',
        '        return self.get_str(nodes).map(|x| x.trim_end());\n        #[allow(unreachable_code)]\n        let mut beg = None;\n        let mut end = 0;\n        let mut skip = false;\n        while let Some(n) = Iter::new(nodes.into()).event().next() {', 1)]),
    ('g12-hash-paren-lookahead', 'G12', 'syn', 'module_instantiation:lookahead-spans-tokens', [(PARSER + 'instantiations/module_instantiation.rs',
        '    let (s, a) = module_identifier(s)?;\n', '    let (s, a) = module_identifier(s)?;\n    let (s, _) = peek(alt((map(tag("#("), |_| ()), map(instance_identifier, |_| ()))))(s)?;\n', 1)]),
    ('x4-newline-after-final-comment', 'X4', 'syn', 'Enter(Comment):synthetic-text-in-plain-arm', [(PPF,
        '                    ret.push(locate.str(&s), Some((path.as_ref(), range)));\n                } else {\n                    // A comment is white space',
        '                    ret.push(locate.str(&s), Some((path.as_ref(), range)));\n                    if !locate.str(&s).ends_with(\'\\n\') {\n                        ret.push::<PathBuf>("\\n", None);\n                    }\n                } else {\n                    // A comment is white space', 1)]),
    ('x4-strip-read-in-resolver', 'X4', 'syn', 'strip-read-outside-comment-arm:resolve_text_macro_usage', [(PPF,
        '                actual_args.push(Some(arg));', '                if strip_comments && arg.starts_with("/*") {\n                    actual_args.push(None);\n                } else {\n                    actual_args.push(Some(arg));\n                }', 1)]),
    ('x9-depth-bumped-in-place', 'X9', 'syn', 'include_depth:mutated', [(PPF,
        '    strip_comments: bool,\n    resolve_depth: usize,\n    include_depth: usize,\n) -> Result<(PreprocessedText, Defines), Error> {\n\n    // IEEE1800-2017 Clause 22.4, page 675', '    strip_comments: bool,\n    resolve_depth: usize,\n    mut include_depth: usize,\n) -> Result<(PreprocessedText, Defines), Error> {\n\n    // IEEE1800-2017 Clause 22.4, page 675', 1),
        (PPF, '                let (include, new_defines) =\n                    preprocess_inner(', '                include_depth += 1;\n                let (include, new_defines) =\n                    preprocess_inner(', 1),
        (PPF, '                        resolve_depth,\n                        include_depth + 1).map_err(', '                        resolve_depth,\n                        include_depth).map_err(', 1)]),
    ('w5-root-fast-path', 'W5', 'syn', 'get_str:slice', [(API,
        '        let mut beg = None;\n        let mut end = 0;\n        for n in Iter::new(nodes.into()) {', '        if self.text.text().len() > 1 << 20 {\n            return Some(self.text.text());\n        }\n        let mut beg = None;\n        let mut end = 0;\n        for n in Iter::new(nodes.into()) {', 1)]),
    ('g14-octal-continues-with-binary', 'G14', 'syn', 'octal_value_impl:digit-run-continuation', [(PARSER + 'expressions/numbers.rs',
        'alt((tag("_"), is_a("01234567xXzZ?")))', 'alt((tag("_"), is_a("01xXzZ?")))', 1)]),
    ('x1-fast-path-before-pp-parser', 'X1', 'syn', 'preprocess_str:unscanned-exit', [(PPF,
        '    let mut skip = false;\n', '    if !s.contains(\'`\') && false {\n        return Ok((PreprocessedText::new(), HashMap::new()));\n    }\n    let mut skip = false;\n', 1)]),
    ('w5-get-origin-fallback', 'W5', 'syn', 'get_origin', [(API,
        '        self.text.origin(locate.offset)\n', '        self.text.origin(locate.offset).or_else(|| self.text.origin(locate.offset.saturating_sub(1)))\n', 1)]),
    ('w6-empty-file-shortcut', 'W6', 'syn', 'preprocess_inner:result-not-from-string-entry', [(PPF,
        '        Err(Error::ReadUtf8(PathBuf::from(path.as_ref())))\n    } else {', '        Err(Error::ReadUtf8(PathBuf::from(path.as_ref())))\n    } else if s.is_empty() {\n        Ok((PreprocessedText::new(), HashMap::new()))\n    } else {', 1)]),
    ('x9-level-counted-in-file-entry', 'X9', 'syn', 'preprocess_inner->preprocess_str:include_depth:inc-in-wrapper', [(PPF,
        '            strip_comments,\n            resolve_depth,\n            include_depth,\n        )\n    }\n}', '            strip_comments,\n            resolve_depth,\n            include_depth + 1,\n        )\n    }\n}', 1)]),
    ('g1-parsed-trivia-cleared', 'G1', 'syn', 'fixed_point_number:parse-result', [(PARSER + 'expressions/numbers.rs',
        '    let (s, c) = unsigned_number(s)?;\n    Ok((s, FixedPointNumber { nodes: (a, b, c) }))', '    let (s, mut c) = unsigned_number(s)?;\n    c.nodes.1.clear();\n    Ok((s, FixedPointNumber { nodes: (a, b, c) }))', 1)]),
    ('g12-time-literal-number-with-trivia', 'G12', 'syn', 'time_literal_fixed_point:trivia-inside-compound-token', [(PARSER + 'expressions/primaries.rs',
        '    let (s, a) = fixed_point_number_exact(s)?;', '    let (s, a) = fixed_point_number(s)?;', 1)]),
    ('x1-bodyless-macro-continue', 'X1', 'syn', 'Enter(TextMacroUsage):early-exit-before-copy', [(PPF,
        '                    ret.push(&text, origin);\n                    defines = new_defines;\n                }\n', '                    ret.push(&text, origin);\n                    defines = new_defines;\n                } else {\n                    continue;\n                }\n', 1)]),
    ('g22-line-comment-stops-at-cr', 'G22', 'syn', 'one_line_comment:partial-closer-ends-body', [(PARSER + 'general/comments.rs',
        '    let (s, b) = opt(is_not("\\n"))(s)?;\n    let (s, c) = opt(tag("\\n"))(s)?;', '    let (s, b) = opt(is_not("\\r\\n"))(s)?;\n    let (s, c) = opt(line_ending)(s)?;', 1)]),
    ('t4-unwrap-locate-no-break', 'T4', 'syn', 'unwrap_locate:first-match', [(API,
        '        let unwrap = || {\n            for x in $n {\n                match x {\n                    $crate::RefNode::Locate(x) => return Some(x),\n                    _ => (),\n                }\n            }\n            None\n        };\n        unwrap()\n',
        '        let mut ret = None;\n        for x in $n {\n            if let $crate::RefNode::Locate(x) = x {\n                ret = Some(x);\n            }\n        }\n        ret\n', 1)]),
    ('x9-include-gets-initial-table', 'X9', 'syn', 'preprocess_str->preprocess_inner:pre_defines:stale-table', [(PPF,
        '                    preprocess_inner(\n                        path,\n                        &defines,', '                    preprocess_inner(\n                        path,\n                        pre_defines,', 1)]),
    ('x16-directive-arm-removed', 'X16', 'syn', 'include-line:enter-test', [(PPF,
        '            NodeEvent::Enter(RefNode::CompilerDirective(x)) => {\n                let locate: Locate = x.try_into().unwrap();\n                if let Some(last_include_line) = last_include_line {\n                    if last_include_line == locate.line {\n                        return Err(Error::IncludeLine);\n                    }\n                }\n            }\n', '', 1)]),
    ('x14-default-recorded-trimmed', 'X14', 'syn', 'define-record', [(PPF,
        '                                let x = String::from(x.str(&s));\n                                Some(x)', '                                let x = String::from(x.str(&s).trim_end());\n                                Some(x)', 1)]),
    ('w6-public-entry-shortcut', 'W6', 'syn', 'preprocess:result-not-from-string-entry', [(PPF,
        ') -> Result<(PreprocessedText, Defines), Error> {\n    preprocess_inner(', ') -> Result<(PreprocessedText, Defines), Error> {\n    if path.as_ref().as_os_str().is_empty() {\n        return Ok((PreprocessedText::new(), HashMap::new()));\n    }\n    preprocess_inner(', 1)]),
    ('g5-undef-missing-from-trivia-list', 'G5', 'syn', 'compiler_directive_without_resetall:sibling-list-differs', [(CD,
        'pub(crate) fn compiler_directive_without_resetall(s: Span) -> IResult<Span, CompilerDirective> {\n    begin_directive();\n    let ret = alt((\n        map(include_compiler_directive, |x| {\n            CompilerDirective::IncludeCompilerDirective(Box::new(x))\n        }),\n        map(text_macro_definition, |x| {\n            CompilerDirective::TextMacroDefinition(Box::new(x))\n        }),\n        map(undefine_compiler_directive, |x| {\n            CompilerDirective::UndefineCompilerDirective(Box::new(x))\n        }),\n',
        'pub(crate) fn compiler_directive_without_resetall(s: Span) -> IResult<Span, CompilerDirective> {\n    begin_directive();\n    let ret = alt((\n        map(include_compiler_directive, |x| {\n            CompilerDirective::IncludeCompilerDirective(Box::new(x))\n        }),\n        map(text_macro_definition, |x| {\n            CompilerDirective::TextMacroDefinition(Box::new(x))\n        }),\n', 1)]),
    ('x13-lookup-flattened', 'X13', 'syn', 'resolve_text_macro_usage:bodyless', [(PPF,
        '    let define = defines.get(&id);\n    if let Some(Some(define)) = define {', '    let define = defines.get(&id).and_then(|x| x.as_ref());\n    if let Some(define) = define {', 1),
        (PPF, '    } else if define.is_some() {\n        Ok(None)\n    } else {', '    } else {', 1)]),
    ('t4-token-fast-path-forward', 'T4', 'syn', "Iter<'a>", [('sv-parser-syntaxtree/src/any_node.rs',
        '        if let Some(x) = ret.clone() {\n            let mut x = x.next();\n            x.0.reverse();\n            self.next.0.append(&mut x.0);\n        }',
        '        if let Some(RefNode::Symbol(Symbol { nodes: (locate, ws) })) = ret.clone() {\n            self.next.0.extend(ws.iter().map(RefNode::WhiteSpace));\n            self.next.0.push(RefNode::Locate(locate));\n        } else if let Some(x) = ret.clone() {\n            let mut x = x.next();\n            x.0.reverse();\n            self.next.0.append(&mut x.0);\n        }', 1)]),
    ('x7-elsif-loop-break', 'X7', 'syn', 'Enter(IfdefDirective):chain-loop-left-early', [(PPF,
        '                    } else if defines.contains_key(&elsifid) || is_predefined_text_macro(&ifid) {\n                        hit = true;\n                    } else {', '                    } else if defines.contains_key(&elsifid) || is_predefined_text_macro(&ifid) {\n                        hit = true;\n                        break;\n                    } else {', 1)]),
    ('k2-current-version-first', 'K2', 'syn', 'current_version:outermost-version', [(PARSER + 'utils.rs',
        'CURRENT_VERSION.with(|current_version| match current_version.borrow().last() {', 'CURRENT_VERSION.with(|current_version| match current_version.borrow().first() {', 1)]),
    ('g14-streaming-take-till', 'G14', 'syn', 'streaming-parser', [(PARSER + 'source_text/library_source_text.rs',
        'use crate::*;\n', 'use crate::*;\nuse nom::bytes::streaming::take_till1;\n', 1)]),
    ('x11-include-unguarded', 'X11', 'syn', 'open-unguarded', [(PPF, 'NodeEvent::Enter(RefNode::IncludeCompilerDirective(x)) if !ignore_include => {', 'NodeEvent::Enter(RefNode::IncludeCompilerDirective(x)) => {', 1)]),
    ('x12-search-reversed', 'X12', 'syn', 'search-order', [(PPF, '                    for include_path in include_paths {', '                    for include_path in include_paths.iter().rev() {', 1)]),
    ('p2-utf8-error-without-path', 'P2', 'syn', 'read-error', [(PPF, 'Err(Error::ReadUtf8(PathBuf::from(path.as_ref())))', 'Err(Error::ReadUtf8(PathBuf::new()))', 1)]),
    ('w1-lib-ignores-mode', 'W1', 'syn', 'parse_lib', [(API, '    parse_lib_pp(text, defines, allow_incomplete)\n}\n\npub fn parse_lib_str', '    parse_lib_pp(text, defines, false)\n}\n\npub fn parse_lib_str', 1)]),
    ('w2-mode-swapped', 'W2', 'syn', 'parse_sv_pp:mode-switch', [(API,
        '        sv_parser_incomplete(span)\n    } else {\n        sv_parser(span)\n    };', '        sv_parser(span)\n    } else {\n        sv_parser_incomplete(span)\n    };', 1)]),
    ('w3-origin-of-zero', 'W3', 'syn', 'error-mapping', [(API, 'if let Some(origin) = text.origin(pos) {', 'if let Some(origin) = text.origin(0) {', 1)]),
    ('w4-text-public', 'W4', 'syn', 'field-visible:text', [(API, 'pub struct SyntaxTree {\n    node: AnyNode,\n    text: PreprocessedText,', 'pub struct SyntaxTree {\n    node: AnyNode,\n    pub text: PreprocessedText,', 1)]),
    ('w5-end-without-len', 'W5', 'syn', 'get_str:slice', [(API, '                end = x.offset + x.len;\n            }\n        }\n        if let Some(beg) = beg {\n            let ret = unsafe { self.text.text().get_unchecked(beg..end) };\n            Some(ret)\n        } else {\n            None\n        }\n    }\n\n    /// Get `&str` without',
                                                        '                end = x.offset;\n            }\n        }\n        if let Some(beg) = beg {\n            let ret = unsafe { self.text.text().get_unchecked(beg..end) };\n            Some(ret)\n        } else {\n            None\n        }\n    }\n\n    /// Get `&str` without', 1)]),
    ('g14-predicate-char-class', 'G14', 'syn', 'unknown-char-class', [(PARSER + 'utils.rs',
        '            map(multispace1, |x: Span| {\n                WhiteSpace::Newline(Box::new(into_locate(x)))', '            map(take_while1(|c: char| c.is_whitespace()), |x: Span| {\n                WhiteSpace::Newline(Box::new(into_locate(x)))', 1)]),
    ('g11-reset-in-one-sibling', 'G11', 'syn', 'sibling-effects-differ', [(PARSER + 'source_text/system_verilog_source_text.rs',
        'pub(crate) fn source_text(s: Span) -> IResult<Span, SourceText> {\n', 'pub(crate) fn source_text(s: Span) -> IResult<Span, SourceText> {\n    clear_version();\n', 1)]),
    ('x13-wrong-name-in-error', 'X13', 'syn', 'DefineNotFound-payload', [(PPF, 'Err(Error::DefineNotFound(id))', 'Err(Error::DefineNotFound(args_str))', 1)]),
    ('x14-define-records-nothing', 'X14', 'syn', 'define-record', [(PPF, 'defines.insert(id, Some(define));', 'defines.insert(id, None);', 1)]),
    ('w6-trimmed-file-contents', 'W6', 'syn', 'text-not-buffer', [(PPF, '        preprocess_str(\n            &s,\n            path,', '        preprocess_str(\n            s.trim_end(),\n            path,', 1)]),
    ('x4c-empty-separator', 'X4', 'syn', 'strip-separator', [(PPF, '                    } else {\n                        " "\n                    };', '                    } else {\n                        ""\n                    };', 1)]),
    ('x7-skip-list-cleared', 'X7', 'syn', 'skip-list-shrinks', [(PPF, '            NodeEvent::Leave(RefNode::ResetallCompilerDirective(_)) => {\n                skip_whitespace = false;', '            NodeEvent::Leave(RefNode::ResetallCompilerDirective(_)) => {\n                skip_nodes.nodes.clear();\n                skip_whitespace = false;', 1)]),
    ('x3-origin-rebound', 'X3', 'syn', 'origin-source', [(PPF, '                    ret.push(&text, origin);\n                    defines = new_defines;', '                    let origin = origin.map(|(_, r)| (PathBuf::from(path.as_ref()), r));\n                    ret.push(&text, origin);\n                    defines = new_defines;', 1)]),
    ('x8-counter-in-place', 'X8', 'syn', 'counter-modified', [(PPF, '                let (include, new_defines) =\n                    preprocess_inner(', '                let include_depth = include_depth + 0;\n                let (include, new_defines) =\n                    preprocess_inner(', 1)]),
    ('k2-conditional-push', 'K2', 'syn', 'begin_keywords', [(PARSER + 'utils.rs', '        "directive" => current_version.borrow_mut().push(Version::Directive),', '        "directive" => if !in_directive() { current_version.borrow_mut().push(Version::Directive) },', 1)]),
    ('t4-iter-children-not-reversed', 'T4', 'syn', "Iter<'a>:next", [('sv-parser-syntaxtree/src/any_node.rs',
        '            let mut x = x.next();\n            x.0.reverse();\n            self.next.0.append(&mut x.0);', '            let mut x = x.next();\n            self.next.0.append(&mut x.0);', 1)]),
    ('t4-leave-after-children', 'T4', 'syn', "EventIter<'a>:next", [('sv-parser-syntaxtree/src/any_node.rs',
        '                self.next.0.push(NodeEvent::Leave(x.clone()));\n                let mut x: NodeEvents = x.next().into();\n                x.0.reverse();\n                self.next.0.append(&mut x.0);',
        '                let leave = NodeEvent::Leave(x.clone());\n                let mut x: NodeEvents = x.next().into();\n                x.0.reverse();\n                self.next.0.append(&mut x.0);\n                self.next.0.push(leave);', 1)]),
    ('x15-elsif-after-hit-still-tested', 'X15', 'syn', 'elsif-step', [(PPF,
        '                    if hit {\n                        skip_nodes.push(elsifbody.into());\n                    } else if defines.contains_key(&elsifid) || is_predefined_text_macro(&ifid) {\n                        hit = true;\n                    } else {\n                        skip_nodes.push(elsifbody.into());\n                    }\n                }\n\n                if let Some(elsebody) = elsebody {\n                    let (_, ref keyword, ref elsebody) = elsebody;\n                    skip_nodes.push(keyword.into());\n                    if hit {\n                        skip_nodes.push(elsebody.into());\n                    }\n                }\n            }\n            NodeEvent::Enter(RefNode::WhiteSpace(x))',
        '                    if defines.contains_key(&elsifid) || is_predefined_text_macro(&ifid) {\n                        hit = true;\n                    } else {\n                        skip_nodes.push(elsifbody.into());\n                    }\n                }\n\n                if let Some(elsebody) = elsebody {\n                    let (_, ref keyword, ref elsebody) = elsebody;\n                    skip_nodes.push(keyword.into());\n                    if hit {\n                        skip_nodes.push(elsebody.into());\n                    }\n                }\n            }\n            NodeEvent::Enter(RefNode::WhiteSpace(x))', 1)]),
    ('x16-directive-after-include-not-checked', 'X16', 'syn', 'include-line', [(PPF,
        '            NodeEvent::Enter(RefNode::CompilerDirective(x)) => {\n                let locate: Locate = x.try_into().unwrap();\n                if let Some(last_include_line) = last_include_line {\n                    if last_include_line == locate.line {\n                        return Err(Error::IncludeLine);\n                    }\n                }\n            }',
        '            NodeEvent::Enter(RefNode::CompilerDirective(_)) => {}', 1)]),
    # ---- MIR controls (each needs one cargo +nightly check of the scratch copy)
    ('x17-range-eq-touching', 'X17', 'syn', 'Range::eq', [('sv-parser-pp/src/range.rs', '            other.begin < self.end\n', '            other.begin <= self.end\n', 1)]),
    ('x18-comment-inside-string', 'X18', 'syn', 'char-lost:string', [(PPF, "} else if c == '/' && iter.peek() == Some(&'/') && !is_string {", "} else if c == '/' && iter.peek() == Some(&'/') {", 1)]),
    ('x18-escaped-quote-ends-string', 'X18', 'syn', 'string-ident-run', [(PPF, """} else if c == '"' && is_string && !is_escaped {""", """} else if c == '"' && is_string {""", 1)]),
    ('x18-comment-end-glued', 'X18', 'syn', 'ident-glued-after:comment-end', [(PPF,
        "            is_comment = false;\n            // The text before the comment is a run of its own, so that an\n            // identifier directly followed by the comment is still substituted.\n            ret.push(x);\n            x = String::from(\"\");\n            x.push(c);",
        "            is_comment = false;\n            x.push(c);", 1)]),
    ('x18-block-comment-opens-inside-bq-string', 'X18', 'syn', 'comment-char-kept', [
        (PPF, "    let mut is_comment = false;\n", "    let mut is_comment = false;\n    let mut is_block_comment = false;\n", 1),
        (PPF, "        } else if is_comment {\n            continue;\n", "        } else if is_comment {\n            continue;\n        } else if is_block_comment {\n            x.push(c);\n            if x.len() > 3 && x.ends_with(\"*/\") {\n                is_block_comment = false;\n                ret.push(x);\n                x = String::from(\"\");\n            }\n        } else if c == '/' && iter.peek() == Some(&'*') && !is_string {\n            is_block_comment = true;\n            ret.push(x);\n            x = String::from(\"\");\n            x.push(c);\n", 1)]),
    ('x18-identifier-start-only', 'X18', 'syn', 'ident-glued-after', [(PPF, '            if is_ident != is_ident_prev {', '            if is_ident && !is_ident_prev {', 1)]),
    ('x18-last-run-dropped', 'X18', 'syn', 'last-run-lost', [(PPF, "        is_escaped = is_string && c == '\\\\' && !is_escaped;\n    }\n    ret.push(x);\n    ret", "        is_escaped = is_string && c == '\\\\' && !is_escaped;\n    }\n    ret", 1)]),
    ('x19-quote-rewrite-before-escaped-quote', 'X19', 'syn', 'rewrite-order', [(PPF,
        """                            .replace("`\\\\`\\"", "\\\\\\"")  // Escaped backslash.\n                            .replace("`\\"", "\\"")       // Escaped quote.""",
        """                            .replace("`\\"", "\\"")       // Escaped quote.\n                            .replace("`\\\\`\\"", "\\\\\\"")  // Escaped backslash.""", 1)]),
    ('x19-paste-leaves-blank', 'X19', 'syn', 'rewrite-wrong', [(PPF, """.replace("``", "")""", """.replace("``", " ")""", 1)]),
    ('x19-formal-appended-verbatim', 'X19', 'syn', 'formal-not-substituted', [(PPF, '                    replaced.push_str(*value);', '                    replaced.push_str(&text);', 1)]),
    ('x19-lookup-by-macro-name', 'X19', 'syn', 'lookup-key', [(PPF, 'if let Some(value) = arg_map.get(&text) {', 'if let Some(value) = arg_map.get(&id) {', 1)]),
    ('g16-bracket-group-uses-top-level', 'G16', 'syn', 'comma-splits-inside-brackets', [(CD, 'triple(tag("["), opt(define_argument_inner), tag("]"))', 'triple(tag("["), opt(define_argument), tag("]"))', 1)]),
    ('g16-brace-not-a-delimiter', 'G16', 'syn', 'delimiter-not-stopped', [(CD, 'is_not(",([{}])\\""),', 'is_not(",([])\\""),', 1)]),
    ('g17-argument-string-ends-at-escaped-quote', 'G17', 'syn', 'define_argument_str:escaped-quote-ends-string', [(CD,
        '    let (s, b) = many0(alt((\n        is_not("\\\\\\""),\n        map(pair(tag("\\\\"), take(1usize)), |(x, y)| {\n            concat(x, y).unwrap()\n        }),\n    )))(s)?;\n    let (s, c) = tag("\\"")(s)?;\n\n    let mut ret = None;\n    for x in b {\n        ret = if let Some(ret) = ret {\n            Some(concat(ret, x).unwrap())\n        } else {\n            Some(x)\n        };\n    }\n\n    let a = if let Some(b) = ret {\n        let a = concat(a, b).unwrap();\n        concat(a, c).unwrap()\n    } else {\n        concat(a, c).unwrap()\n    };\n    Ok((s, a))',
        '    let (s, b) = many0(is_not("\\""))(s)?;\n    let (s, c) = tag("\\"")(s)?;\n\n    let mut ret = None;\n    for x in b {\n        ret = if let Some(ret) = ret {\n            Some(concat(ret, x).unwrap())\n        } else {\n            Some(x)\n        };\n    }\n\n    let a = if let Some(b) = ret {\n        let a = concat(a, b).unwrap();\n        concat(a, c).unwrap()\n    } else {\n        concat(a, c).unwrap()\n    };\n    Ok((s, a))', 1)]),
    ('g17-lone-backslash-alternative', 'G17', 'syn', 'string_literal_impl:escape-not-paired', [(PARSER + 'expressions/strings.rs',
        '        map(pair(tag("\\\\"), take(1usize)), |(x, y)| {\n            concat(x, y).unwrap()\n        }),', '        tag("\\\\\\""),\n        tag("\\\\"),', 1)]),
    ('g18-escaped-identifier-past-cr', 'G18', 'syn', 'escaped-identifier:escaped_identifier_impl:runs-past-white-space:0d', [(PARSER + 'general/identifiers.rs',
        'is_not(" \\t\\r\\n")', 'is_not(" \\t\\n")', 0)]),
    ('g18-run-swallows-quotes', 'G18', 'syn', 'sibling-start-swallowed', [(CD, 'is_not("`/\\"\\\\"),', 'is_not("`/\\\\"),', 1)]),
    ('g18-run-stops-at-dollar', 'G18', 'syn', 'stop-without-sibling', [(CD, 'is_not("`/\\"\\\\"),', 'is_not("`/\\"\\\\$"),', 1)]),
    ('g18-slash-before-star-taken', 'G18', 'syn', 'special-too-wide', [(CD, 'peek(not(alt((tag("/"), tag("*")))))', 'peek(not(alt((tag("/"), tag("/")))))', 1)]),
    ('g19-end-label-commits-on-colon', 'G19', 'syn', 'conditional-step-in-tail', [
        (PARSER + 'utils.rs', '// -----------------------------------------------------------------------------\n\n#[tracable_parser]\n#[packrat_parser]\npub(crate) fn white_space(',
         "pub(crate) fn end_label<'a, O, F>(\n    mut f: F,\n) -> impl FnMut(Span<'a>) -> IResult<Span<'a>, Option<(Symbol, O)>>\nwhere\n    F: FnMut(Span<'a>) -> IResult<Span<'a>, O>,\n{\n    move |s: Span<'a>| {\n        let (s, a) = opt(symbol(\":\"))(s)?;\n        if let Some(a) = a {\n            let (s, b) = f(s)?;\n            Ok((s, Some((a, b))))\n        } else {\n            Ok((s, None))\n        }\n    }\n}\n\n// -----------------------------------------------------------------------------\n\n#[tracable_parser]\n#[packrat_parser]\npub(crate) fn white_space(", 1),
        (PARSER + 'source_text/system_verilog_source_text.rs', '    let (s, (c, d)) = many_till(non_port_module_item, keyword("endmodule"))(s)?;\n    let (s, e) = opt(pair(symbol(":"), module_identifier))(s)?;',
         '    let (s, (c, d)) = many_till(non_port_module_item, keyword("endmodule"))(s)?;\n    let (s, e) = end_label(module_identifier)(s)?;', 1)]),
    ('g20-method-chain-popped', 'G20', 'syn', 'method_call:reversed', [(PARSER + 'expressions/subroutine_calls.rs',
        '    let (s, sub_calls) = many0(pair(symbol("."), method_call_body))(s)?;\n    for (dot, body) in sub_calls {',
        '    let (s, mut sub_calls) = many0(pair(symbol("."), method_call_body))(s)?;\n    while let Some((dot, body)) = sub_calls.pop() {', 1)]),
    ('g21-pp-entry-runs-to-eof', 'G21', 'syn', 'preprocessor_text:not-total', [(PARSER + 'preprocessor/preprocessor.rs',
        '    let (s, a) = many0(source_description)(s)?;', '    let (s, (a, _)) = many_till(source_description, eof)(s)?;', 1)]),
    ('p3-include-macro-error-swallowed', 'P3', 'syn', 'preprocess_str->resolve_text_macro_usage:swallowed', [(PPF,
        '                            resolve_depth + 1,\n                            include_depth,\n                        )? {\n                            let p = p.trim();',
        '                            resolve_depth + 1,\n                            include_depth,\n                        ) {\n                            let p = p.trim();', 1),
        (PPF, '                        if let Some((p, _, _)) = resolve_text_macro_usage(\n                            x,\n                            s,\n                            path.as_ref(),',
         '                        if let Ok(Some((p, _, _))) = resolve_text_macro_usage(\n                            x,\n                            s,\n                            path.as_ref(),', 1)]),
    ('x14-define-skipped-when-same-text', 'X14', 'syn', 'write-conditional:define', [(PPF, '                    defines.insert(id, Some(define));',
        '                    let same = matches!(defines.get(&id), Some(Some(prev)) if prev.arguments == define.arguments);\n                    if !same {\n                        defines.insert(id, Some(define));\n                    }', 1)]),
    ('g22-line-comment-stops-at-cr', 'G22', 'syn', 'one_line_comment:partial-closer-ends-body', [(PARSER + 'general/comments.rs',
        '    let (s, b) = opt(is_not("\\n"))(s)?;\n    let (s, c) = opt(tag("\\n"))(s)?;',
        '    let (s, b) = opt(is_not("\\r\\n"))(s)?;\n    let (s, c) = opt(alt((tag("\\r\\n"), tag("\\n"))))(s)?;', 1)]),
    ('g22-block-comment-star-unguarded', 'G22', 'syn', 'block_comment:guard-mismatch', [(PARSER + 'general/comments.rs',
        'terminated(tag("*"), peek(not(tag("/")))),', 'terminated(tag("*"), peek(not(tag("*")))),', 1)]),
    ('x20-last-byte-without-origin', 'X20', 'syn', 'valid-position-without-origin', [(PPF,
        '        let origin = self.origins.get(&Range::new(pos, pos + 1));\n        if let Some(origin) = origin {',
        '        if pos + 1 >= self.text.len() {\n            return None;\n        }\n        let origin = self.origins.get(&Range::new(pos, pos + 1));\n        if let Some(origin) = origin {', 1)]),
    ('x20-probe-two-bytes', 'X20', 'syn', 'origin:probe', [(PPF, 'self.origins.get(&Range::new(pos, pos + 1));', 'self.origins.get(&Range::new(pos, pos + 2));', 1)]),
    ('x20-translation-drops-segment-begin', 'X20', 'syn', 'origin:translation', [(PPF, 'let ret_pos = pos - origin.range.begin + origin_range.begin;', 'let ret_pos = pos + origin_range.begin;', 1)]),
    ('t4-unwrap-node-searches-per-kind', 'T4', 'syn', 'unwrap_node:first-match', [(API,
        '            for x in $n {\n                match x {\n                    $($crate::RefNode::$ty(x) => return Some($crate::RefNode::$ty(x)),)*\n                    _ => (),\n                }\n            }\n            None',
        '            let mut nodes = $n.into_iter();\n            $(\n                if let Some(x) = nodes.find(|x| matches!(x, $crate::RefNode::$ty(_))) {\n                    return Some(x);\n                }\n            )*\n            None', 1)]),
    ('x8-macro-level-spends-include-budget', 'X8', 'syn', 'cycle-couples-budgets', [(PPF,
        '                false,\n                strip_comments,\n                resolve_depth,\n                include_depth,\n            )?;',
        '                false,\n                strip_comments,\n                resolve_depth,\n                include_depth + 1,\n            )?;', 1)]),
    ('g7-keyword-boundary-without-dollar', 'G7', 'syn', 'keyword:boundary-alphabet', [(PARSER + 'utils.rs',
        'terminated(map(tag(t), into_locate), peek(none_of(AZ09_DOLLAR))),', 'terminated(map(tag(t), into_locate), peek(none_of(AZ09_))),', 0)]),
    ('k2-binary-search-on-unsorted-tables', 'K2', 'syn', 'binary-search-unsorted', [(PARSER + 'utils.rs',
        '    for k in keywords {\n        if s.fragment() == k {\n            return true;\n        }\n    }\n    false', '    keywords.binary_search(s.fragment()).is_ok()', 1)]),
    ('x9-include-paths-emptied-under-ignore-include', 'X9', 'syn', 'include_paths:rebound', [(API,
        '    ignore_include: bool,\n    allow_incomplete: bool,\n) -> Result<(SyntaxTree, Defines), Error> {\n    let (text, defines) = preprocess_str(',
        '    ignore_include: bool,\n    allow_incomplete: bool,\n) -> Result<(SyntaxTree, Defines), Error> {\n    let include_paths: &[U] = if ignore_include { &[] } else { include_paths };\n    let (text, defines) = preprocess_str(', 1)]),
    ('x13-expansion-fast-path-skips-nested-run', 'X13', 'syn', 're-preprocess-bypassed', [(PPF,
        '            let (replaced, new_defines) = preprocess_str(\n                &replaced,',
        '            if define.arguments.is_empty() && !replaced.contains(\'`\') {\n                return Ok(Some((replaced, text.origin.clone(), defines.clone())));\n            }\n\n            let (replaced, new_defines) = preprocess_str(\n                &replaced,', 1)]),
    ('g22-block-comment-closer-searched-with-fallback', 'G22', 'syn', 'block_comment:closer-optional', [(PARSER + 'general/comments.rs',
        '    let (s, b) = many0(alt((\n        is_not("*"),\n        terminated(tag("*"), peek(not(tag("/")))),\n    )))(s)?;\n    let (s, c) = tag("*/")(s)?;\n    let mut a = a;\n    for b in b {\n        a = concat(a, b).unwrap();\n    }\n    let a = concat(a, c).unwrap();',
        '    let len = match s.fragment().find("*/") {\n        Some(x) => x + 2,\n        None => s.fragment().len(),\n    };\n    let (s, b) = take(len)(s)?;\n    let a = concat(a, b).unwrap();', 1)]),
    ('x3-merge-key-not-shifted', 'X3', 'syn', ':merge', [(PPF, '            range.offset(base);\n            origin.range.offset(base);', '            origin.range.offset(base);', 1)]),
    ('x12-search-continues-after-hit', 'X12', 'syn', 'search-first-hit', [(PPF, '                            path = new_path;\n                            break;', '                            path = new_path;', 1)]),
    ('x12-search-ignores-literal-path', 'X12', 'syn', 'search-precondition', [(PPF, 'if path.is_relative() && !path.exists() {', 'if path.is_relative() {', 1)]),
    ('x7-skip-list-admits-unlocated-nodes', 'X7', 'syn', 'skip-list-admits-unlocated-nodes', [(PPF,
        '        let mut have_locate = false;\n        for x in node.clone() {\n            if let RefNode::Locate(_) = x {\n                have_locate = true;\n            }\n        }\n        if have_locate {\n            self.nodes.push(node);\n        }',
        '        self.nodes.push(node);', 1)]),
    ('x13-noargs-raised-inside-formal-loop', 'X13', 'syn', 'DefineNoArgs', [
        (PPF, '        if !define.arguments.is_empty() && no_args {\n            return Err(Error::DefineNoArgs(define.identifier.clone()));\n        }\n\n', '', 1),
        (PPF, '                    } else {\n                        return Err(Error::DefineArgNotFound(String::from(arg)));',
         '                    } else if no_args {\n                        return Err(Error::DefineNoArgs(define.identifier.clone()));\n                    } else {\n                        return Err(Error::DefineArgNotFound(String::from(arg)));', 1)]),
    ('g22-star-chunk-consumes-next-character', 'G22', 'syn', 'block_comment:partial-closer-consumes-next', [(PARSER + 'general/comments.rs',
        'terminated(tag("*"), peek(not(tag("/")))),', 'recognize(pair(tag("*"), none_of("/"))),', 1)]),
    ('x4-define-text-cut-under-strip', 'X4', 'syn', 'strip-changes-arm', [(PPF,
        '                let range = Range::new(locate.offset, locate.offset + locate.len);\n                ret.push(locate.str(&s), Some((path.as_ref(), range)));\n            }\n            NodeEvent::Enter(RefNode::IncludeCompilerDirective(x)) if !ignore_include => {',
        '                let mut kept = locate.str(&s);\n                if strip_comments {\n                    if let Some(pos) = kept.find("//") {\n                        kept = &kept[..pos];\n                    }\n                }\n                let range = Range::new(locate.offset, locate.offset + kept.len());\n                ret.push(kept, Some((path.as_ref(), range)));\n            }\n            NodeEvent::Enter(RefNode::IncludeCompilerDirective(x)) if !ignore_include => {', 1)]),
    ('w3-origin-of-previous-byte', 'W3', 'syn', 'error-mapping', [(API, 'if let Some(origin) = text.origin(pos) {', 'if let Some(origin) = text.origin(pos.saturating_sub(1)) {', 1)]),
    ('x7-skip-never-cleared', 'X7', 'syn', 'skip-bookkeeping', [(PPF,
        '            NodeEvent::Leave(x) => {\n                if skip_nodes.contains(&x) {\n                    skip = false;\n                }\n            }',
        '            NodeEvent::Leave(_) => {}', 1)]),
    ('x3-push-key-length-in-characters', 'X3', 'syn', ':push', [(PPF, '        let range = Range::new(base, base + s.len());', '        let len = s.chars().count();\n        let range = Range::new(base, base + len);', 1)]),
    ('g23-resetall-enters-directive-mode', 'G23', 'syn', 'directive-mode-outside-trivia', [(CD,
        '    let (s, b) = keyword("resetall")(s)?;', '    begin_directive();\n    let b = keyword("resetall")(s);\n    end_directive();\n    let (s, b) = b?;', 1)]),
    ('s1-version-stack-not-reset', 'S1', 'mir', 'not-reset:CURRENT_VERSION', [(PARSER + 'lib.rs', '    clear_directive();\n    clear_version();\n}', '    clear_directive();\n}', 1)]),
    ('s2-grammar-function-exported', 'S2', 'mir', 'source_text', [(PARSER + 'source_text/system_verilog_source_text.rs', 'pub(crate) fn source_text(s: Span)', 'pub fn source_text(s: Span)', 1)]),
    ('s3-scope-leak-on-error-path', 'S3', 'mir', 'text_macro_usage:unbalanced', [(CD,
        '    let b = text_macro_identifier(s);\n    end_keywords();\n    let (s, b) = b?;', '    let (s, b) = text_macro_identifier(s)?;\n    end_keywords();', 1)]),
    ('s4-pop-result-observed', 'S4', 'mir', 'observed-by:end_keywords', [(PARSER + 'utils.rs',
        'pub(crate) fn end_keywords() {\n    CURRENT_VERSION.with(|current_version| {\n        current_version.borrow_mut().pop();\n    });\n}',
        'pub(crate) fn end_keywords() -> bool {\n    CURRENT_VERSION.with(|current_version| current_version.borrow_mut().pop().is_some())\n}', 1)]),
    ('s3-end-keywords-pops-twice', 'S3', 'mir', 'end_keywords:unmodelled-primitive', [(PARSER + 'utils.rs',
        '        current_version.borrow_mut().pop();\n    });\n}\n\npub(crate) fn current_version()', '        let mut v = current_version.borrow_mut();\n        v.pop();\n        v.pop();\n    });\n}\n\npub(crate) fn current_version()', 1)]),
    ('s4-version-specifier-not-memoised', 'S4', 'mir', 'effect-not-memoised:version_specifier', [(CD,
        '#[tracable_parser]\n#[packrat_parser]\npub(crate) fn version_specifier(', '#[tracable_parser]\npub(crate) fn version_specifier(', 1)]),
    ('s5-shared-counter', 'S5', 'mir', 'shared-static', [(PARSER + 'lib.rs', 'fn init() {\n', 'static CALLS: std::sync::atomic::AtomicUsize = std::sync::atomic::AtomicUsize::new(0);\n\nfn init() {\n    CALLS.fetch_add(1, std::sync::atomic::Ordering::Relaxed);\n', 1)]),
    ('s6-parser-called-under-borrow', 'S6', 'mir', 'with-closure-calls-parser', [(PARSER + 'utils.rs',
        'pub(crate) fn in_directive() -> bool {\n    IN_DIRECTIVE.with(|x| x.borrow().last().is_some())', 'pub(crate) fn in_directive() -> bool {\n    IN_DIRECTIVE.with(|x| x.borrow().last().is_some() && current_version().is_none())', 1)]),
    ('s7-hash-order-reaches-output', 'S7', 'mir', 'preprocess_str:into_iter', [(PPF,
        '    for (k, v) in pre_defines {\n        defines.insert(k.clone(), (*v).clone());\n    }', '    let mut first_define = None;\n    for (k, v) in pre_defines {\n        first_define.get_or_insert(k.clone());\n        defines.insert(k.clone(), (*v).clone());\n    }\n    let _ = first_define;', 1)]),
    ('p1-unsigned-subtraction', 'P1', 'mir', 'assert-overflow-sub', [(PPF, '                last_include_line = Some(locate.line);', '                last_include_line = Some(locate.line - 1 + 1);', 1)]),
    ('p1-new-unwrap', 'P1', 'mir', 'preprocess_str:unclassified', [(PPF, '    let mut ret = PreprocessedText::new();\n\n    for n in pp_text', '    let mut ret = PreprocessedText::new();\n    let _first = include_paths.first().unwrap();\n\n    for n in pp_text', 1)]),
]


def make_scratch(root, edits):
    """copy the sources of `root` (no target/, no .git) to a fresh dir under the system temp dir and apply the edits;
    returns (dir, stale) — stale = list of edits whose anchor text was not found"""
    d = tempfile.mkdtemp(prefix='verif-control-')
    subprocess.run(['rsync', '-a', '--exclude', 'target', '--exclude', '.git', root.rstrip('/') + '/', d + '/'], check=True)
    stale = []
    for f, old, new, count in edits:
        p = os.path.join(d, f)
        try:
            s = open(p).read()
        except OSError:
            stale.append(f)
            continue
        if old not in s:
            stale.append('%s: anchor not found' % f)
            continue
        s = s.replace(old, new) if count == 0 else s.replace(old, new, count)
        open(p, 'w').write(s)
    return d, stale


def run_one(ctl, root, rule_runner):
    cid, rid, engine, expect, edits = ctl
    t0 = time.time()
    d, stale = make_scratch(root, edits)
    try:
        if stale:
            return cid, rid, 'stale', stale, time.time() - t0
        ctx = Ctx(root=d, tier='quick', log=lambda m: None)
        import props
        saved = dict(props._cache)
        props._cache.clear()
        try:
            res = rule_runner(rid)(ctx)
        finally:
            props._cache.clear()
            props._cache.update(saved)
        keys = [f.key for r in res for f in r.findings]
        hit = [k for k in keys if expect in k]
        # drop the scratch facts from the cache
        shutil.rmtree(ctx.facts.dir, ignore_errors=True)
        return cid, rid, 'fired' if hit else 'silent', (hit[:2] if hit else keys[:3]), time.time() - t0
    except Exception as e:  # a control that cannot be evaluated is a broken control, reported as such
        return cid, rid, 'error', ['%s: %s' % (type(e).__name__, e)], time.time() - t0
    finally:
        shutil.rmtree(d, ignore_errors=True)


def run_controls(ctx, rule_ids, jobs=4):
    import props
    r = RuleResult('PC', 'positive controls: every rule fires on its seeded mutation of a scratch copy')
    todo = [c for c in CONTROLS if c[1] in rule_ids]
    runner = lambda rid: props.rule(rid)[1]
    # controls are evaluated sequentially inside this process (the rule cache is process-global); MIR/exp extraction
    # dominates and is itself parallel (cargo -j16)
    for c in todo:
        cid, rid, status, detail, secs = run_one(c, ctx.root, runner)
        r.inst('control:' + cid, {'control': cid, 'rule': rid, 'status': status, 'fired_as': detail, 'seconds': round(secs, 1)})
        if status == 'stale':
            r.notes.append('control %s is stale on this tree (%s): not evaluated' % (cid, detail))
        elif status != 'fired':
            r.fail('control:%s' % cid, '-', 'rule %s did not fire on its positive control %s (%s: %s): the rule no longer matches what it is meant '
                   'to catch' % (rid, cid, status, detail))
    r.counts['controls_run'] = len(todo)
    return r
