#!/usr/bin/env python3
"""gen_seed_prompts.py <letter> <PROP>...  — prepare a round of independent seeded changes.

For each property: a scratch git worktree /tmp/wt/<letter><nn> of /repo at HEAD and a prompt file /tmp/wt/prompt_<letter><nn>.txt
holding ONLY the property record, the task rules and one-line summaries of the ideas already tried for that property (from
/verif/seeded/*/meta.json) so that the next sub-agent picks another mechanism.  Nothing else of /verif is handed over.
The sub-agent is then started with: "Read the file /tmp/wt/prompt_<id>.txt and follow the instructions in it exactly."
"""
import glob
import json
import os
import subprocess
import sys

letter = sys.argv[1]
props = sys.argv[2:]
recs = {}
for line in open('/verif/properties.jsonl'):
    line = line.strip()
    if line:
        r = json.loads(line)
        recs[r['id']] = r
os.makedirs('/tmp/wt', exist_ok=True)
tried = {}
for m in sorted(glob.glob('/verif/seeded/*/meta.json')):
    d = json.load(open(m))
    tried.setdefault(d.get('property'), []).append((d.get('summary') or '').replace('\n', ' ')[:170])

TEMPLATE = open(os.path.join(os.path.dirname(os.path.abspath(__file__)), 'seed_prompt.tmpl')).read()
for p in props:
    wid = letter + p[1:]
    wt = '/tmp/wt/' + wid
    if not os.path.exists(wt):
        subprocess.check_call(['git', '-C', '/repo', 'worktree', 'add', '--detach', '-q', wt, 'HEAD'])
    os.makedirs(wt + '/_seed', exist_ok=True)
    ideas = '\n'.join('   - ' + t for t in tried.get(p, [])) or '   (none yet)'
    txt = TEMPLATE.replace('@WT@', wt).replace('@PROP@', json.dumps(recs[p], indent=1)).replace('@TRIED@', ideas)
    open('/tmp/wt/prompt_%s.txt' % wid, 'w').write(txt)
    print(wid, wt)
