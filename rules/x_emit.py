"""X4 — exactly-once emission of the preprocessor, decided arm by arm over the CST type graph.

The event loop visits the pp tree in pre-order.  An arm that pushes the text of its whole node
covers every leaf below that node; if traversal then continues into the node (no self-skip) any
descendant kind that has an emitting arm of its own emits those leaves a second time.  Which
descendant kinds exist is read from the CST type graph, with one piece of context: below a
CompilerDirective node the grammar runs with in_directive() true, where white_space yields only
WhiteSpace::Space (checked here from the white_space body and the begin/end_directive bracket).
"""
from vlib import sx, grammar
from vlib.report import RuleResult
from rules.x_pp import model, sq, push_sites, resolve_let, arm_of_line, CRATE

WRAPPERS = ('Box', 'Option', 'Vec')


def child_types(nt, ty, out):
    """node-type names mentioned in a type expression (through Box/Option/Vec/tuples/generic wrappers)"""
    k = ty.get('k')
    if k == 'tuple':
        for t in ty['e']:
            child_types(nt, t, out)
    elif k == 'ref':
        child_types(nt, ty['e'], out)
    elif k == 'path':
        p = ty['p'].split('::')[-1]
        for a in ty.get('args', []):
            child_types(nt, a, out)
        if p in WRAPPERS:
            return
        if p in nt.structs and nt.structs[p]['generics']:
            # Paren<T> etc.: own fields with T substituted — args already visited; add the fixed parts
            r = nt.structs[p]
            if r.get('nodes') is not None:
                for t in (r['nodes']['e'] if r['nodes'].get('k') == 'tuple' else [r['nodes']]):
                    if not (t.get('k') == 'path' and t['p'] in r['generics']):
                        inner = []
                        child_types(nt, t, inner)
                        out.extend(x for x in inner if x not in r['generics'])
            return
        out.append(p)


def direct_children(nt, name, in_directive):
    if name == 'Locate':
        return []
    if name in nt.structs and nt.structs[name].get('nodes') is not None:
        out = []
        child_types(nt, nt.structs[name]['nodes'], out)
        return out
    if name in nt.enums:
        out = []
        for v, payload in nt.enums[name]['variants']:
            if name == 'WhiteSpace' and in_directive and v != 'Space':
                continue   # in directive context white_space yields only Space
            for t in payload:
                child_types(nt, t, out)
        return out
    return []


def descendants(nt, name, in_directive):
    seen = set()
    todo = [(name, in_directive)]
    out = set()
    while todo:
        n, d = todo.pop()
        for c in direct_children(nt, n, d):
            d2 = d or n == 'CompilerDirective' or c == 'CompilerDirective' and False
            key = (c, d or n == 'CompilerDirective')
            if key in seen:
                continue
            seen.add(key)
            out.add(c)
            todo.append(key)
    return out


def _ws_variants(pat):
    """the WhiteSpace variants a pattern selects (None if it is not a pattern over WhiteSpace variants)"""
    k = pat.get('k')
    if k == 'ts' and pat['p'].startswith('WhiteSpace::'):
        return {pat['p'].split('::')[-1]}
    if k == 'or':
        out = set()
        for x in pat['e']:
            v = _ws_variants(x)
            if v is None:
                return None
            out |= v
        return out
    if k in ('ref', 'paren'):
        return _ws_variants(pat['p']) if isinstance(pat.get('p'), dict) else None
    return None


def run(ctx):
    pp = model(ctx)
    nt = ctx.types
    g = ctx.grammar
    r = RuleResult('X4', 'every source leaf is emitted at most once, and at least once unless deliberately removed; strip mode removes comments only')
    if pp.problems:
        for p in pp.problems:
            r.fail('anchor:' + p, pp.where(1), 'preprocessor model: %s (fail closed)' % p)
        return r
    # ---- premises about directive context
    ws = g.fns.get('white_space')
    prem1 = None        # None = shape not recognised
    if ws is not None and ws.tail and ws.tail[0] == 'ifelse':
        cond = ws.tail[1]
        branch = None
        if sx.is_call(cond, 'in_directive'):
            branch = ws.tail[2]
        elif cond.get('k') == 'unary' and cond['op'] == '!' and sx.is_call(cond['e'], 'in_directive'):
            branch = ws.tail[3]
        if isinstance(branch, dict):
            def built(px):
                out = []
                if isinstance(px, dict):
                    if px.get('op') == 'map' and isinstance(px.get('f'), dict):
                        out += [n['p'] for n in sx.walk(px['f']) if n.get('k') == 'path' and n['p'].startswith('WhiteSpace::')]
                    for v in px.values():
                        if isinstance(v, dict) and 'op' in v:
                            out += built(v)
                        elif isinstance(v, list):
                            for x in v:
                                out += built(x)
                return out
            variants = built(branch)
            if variants:
                prem1 = set(variants) == {'WhiteSpace::Space'}
    r.inst('premise:white_space-in-directive-yields-Space-only', {'holds': prem1})
    if prem1 is False:
        r.fail('sv-parser-parser:white_space:directive-branch', '-', 'white_space: the in_directive() branch must build only WhiteSpace::Space (premise of the context-aware '
               'emission analysis)')
    elif prem1 is None:
        r.undecided('sv-parser-parser:white_space:directive-branch', '-', 'white_space is not written as `if in_directive() { <Space only> } else { .. }`: the premise "inside a '
                    'directive blanks are WhiteSpace::Space" of the context-aware emission analysis could not be established')
    # every CompilerDirective:: variant is constructed only in functions that bracket with begin_directive/end_directive
    builders = set()
    for f in g.parsers():
        for n in sx.walk(f.item['body']):
            if n.get('k') == 'path' and n['p'].startswith('CompilerDirective::'):
                builders.add(f.name)
    okb = True
    for b in builders:
        f = g.fns[b]
        eff = [sx.render(s[1]).replace(' ', '') for s in f.stmts if s[0] == 'other']
        if not (eff and eff[0] == 'begin_directive();' and eff[-1] == 'end_directive();'):
            okb = False
    r.inst('premise:directives-parsed-in-directive-context', {'builders': sorted(builders), 'bracketed': okb})
    if not okb or not builders:
        r.fail('sv-parser-parser:compiler_directive:bracket', '-', 'functions building CompilerDirective nodes must start with begin_directive() and end with end_directive()')

    # ---- arm features
    sites, stray = push_sites(pp)
    feats = {}
    for a in pp.arms:
        if a.event not in ('Enter', 'Leave') or a.kind is None:
            continue
        body = a.body
        txt = [sq(x) for x in sx.walk(body) if x.get('k') in ('assign',)]
        f = {'arm': a, 'whole_push': False, 'partial_push': 0, 'synth_push': 0, 'merge': False,
             'self_skip': False, 'skip_true': 'skip=true' in txt, 'skip_ws_true': 'skip_whitespace=true' in txt,
             'skip_ws_false': 'skip_whitespace=false' in txt, 'skiplists': [], 'guard': sq(a.guard) if a.guard else None}
        for n in sx.walk(body):
            if n.get('k') == 'mcall' and n['m'] == 'push' and sx.is_path(n['recv'], 'skip_nodes') and len(n['args']) == 1:
                arg = sq(n['args'][0])
                if a.var and arg == '%s.into()' % a.var:
                    f['self_skip'] = True
                else:
                    f['skiplists'].append(arg)
            if n.get('k') == 'mcall' and n['m'] == 'merge' and sx.is_path(n['recv'], pp.out_var):
                f['merge'] = True
        feats[(a.event, a.key)] = f
    for chain, stmts, i, call in sites:
        arm = arm_of_line(pp, call.get('l'))
        if arm is None:
            continue
        f = feats.get((arm.event, arm.key))
        if f is None:
            continue
        text = sx.strip_ref(call['args'][0])
        if text.get('k') == 'mcall' and text['m'] == 'str' and sx.is_path(text['recv']):
            loc = text['recv']['p']
            st, depth = resolve_let(chain, stmts, i, loc)
            src = None
            if st is not None and 'init' in st:
                init = st['init']
                # X.try_into().unwrap()
                if init.get('k') == 'mcall' and init['m'] == 'unwrap' and init['recv'].get('k') == 'mcall' and init['recv']['m'] == 'try_into':
                    src = sq(sx.strip_ref(init['recv']['recv']))
            whole = arm.var is not None and src in (arm.var, '**' + arm.var, '*' + arm.var) and len(chain) <= 3 and \
                sum(1 for s_ in chain if s_[0][s_[1]]['k'] == 'expr' and s_[0][s_[1]]['e'].get('k') == 'for') <= 1
            if whole:
                f['whole_push'] = True
            else:
                f['partial_push'] += 1
        else:
            f['synth_push'] += 1

    def emits(f):
        return f['whole_push'] or f['partial_push'] or f['synth_push'] or f['merge']

    emitting_kinds = {}
    for (ev, key), f in feats.items():
        if ev == 'Enter' and emits(f):
            emitting_kinds.setdefault(f['arm'].kind, []).append(f)
    r.inst('emitting-arms', {'kinds': sorted(emitting_kinds)})

    # ---- (a) at most once
    for (ev, key), f in sorted(feats.items()):
        if ev != 'Enter' or not f['whole_push']:
            continue
        a = f['arm']
        # type of the node whose text is pushed: the arm's kind, or the payload of the SourceDescription sub-variant
        T = a.kind
        if a.sub:
            en, v = a.sub.split('::')
            payload = [pl for vn, pl in nt.enums[en]['variants'] if vn == v]
            T = None
            if payload and payload[0]:
                tmp = []
                child_types(nt, payload[0][0], tmp)
                T = tmp[0] if tmp else None
        in_dir = T is not None and (T in descendants(nt, 'CompilerDirective', True)) and not a.sub
        desc = descendants(nt, T, in_dir) if T else set()
        leave = feats.get(('Leave', 'Leave(%s)' % a.kind))
        mode = None
        problem = None
        if f['self_skip'] and f['skip_true']:
            mode = 'self-skip'
            if f['skiplists']:
                problem = 'pushes its whole text and skips itself, but also skip-lists %s: the Leave of that child clears `skip` and the rest of the node is emitted again' % f['skiplists']
        elif f['skip_ws_true']:
            mode = 'skip_whitespace'
            if leave is None or not leave['skip_ws_false']:
                problem = 'sets skip_whitespace on Enter but no Leave arm of the same kind clears it: directive-adjacent blanks after it are lost'
            again = sorted(k for k in desc if k in emitting_kinds and k != 'WhiteSpace' and
                           not all(x['guard'] and 'skip_whitespace' in x['guard'] for x in emitting_kinds[k]))
            if 'WhiteSpace' in desc and not all(x['guard'] and '!skip_whitespace' in x['guard'] for x in emitting_kinds.get('WhiteSpace', [])):
                again.append('WhiteSpace')
            if again:
                problem = 'pushes its whole text and only suppresses blanks, but its descendants of kind %s have emitting arms: their text is emitted twice' % again
        elif T is not None and direct_children(nt, T, in_dir) == ['Locate']:
            mode = 'single-leaf'
        else:
            again = sorted(k for k in desc if k in emitting_kinds)
            mode = 'descends'
            problem = ('pushes the text of its whole node (%s) and traversal then continues into it: descendants of kind %s have emitting '
                       'arms of their own, so trailing blanks / comments are emitted twice and a directive following the token is emitted raw '
                       'and processed' % (T, again)) if again else None
        r.inst('a:%s' % a.key, {'arm': a.key, 'node_type': T, 'mode': mode, 'descendant_kinds_with_emitting_arms': sorted(k for k in desc if k in emitting_kinds)})
        if problem:
            r.fail('%s:%s:double-emission' % (CRATE, a.key), pp.where(a.line), '%s: %s' % (a.key, problem), {'arm': a.key, 'type': T})
    # ---- (a2) which blanks the WhiteSpace arm copies.  Under premise 1 a blank inside a directive is WhiteSpace::Space; every other
    # variant occurs only outside directives, where a WhiteSpace node is the trailing trivia of a token whose own arm copies the whole
    # node (string literal, escaped identifier) or of plain text — so copying it in the WhiteSpace arm as well emits it a second time.
    for (ev, key), f in sorted(feats.items()):
        a = f['arm']
        if ev != 'Enter' or a.kind != 'WhiteSpace' or a.sub:
            continue
        emitted = set()
        unknown = []

        def scan(node, variants):
            if isinstance(node, dict):
                k_ = node.get('k')
                if k_ == 'mcall' and node['m'] in ('push', 'merge') and sx.is_path(node['recv'], pp.out_var):
                    if variants is None:
                        unknown.append(node)
                    else:
                        emitted.update(variants)
                if k_ == 'if' and node['c'].get('k') == 'let' and sx.is_path(sx.strip_ref(node['c']['e']), a.var):
                    vs = _ws_variants(node['c']['pat'])
                    scan(node['t'], vs if vs is not None else variants)
                    if 'e' in node:
                        scan(node['e'], variants)
                    return
                if k_ == 'match' and sx.is_path(sx.strip_ref(node['e']), a.var):
                    for arm_ in node['arms']:
                        vs = _ws_variants(arm_['pat'])
                        scan(arm_['body'], vs if vs is not None else variants)
                    return
                for v_ in node.values():
                    if isinstance(v_, (dict, list)):
                        scan(v_, variants)
            elif isinstance(node, list):
                for x_ in node:
                    scan(x_, variants)
        scan(a.body, None)
        r.inst('a2:whitespace-variants', {'copied_variants': sorted(emitted), 'unrestricted_pushes': len(unknown)})
        if unknown:
            emitted.update(v for v, _ in nt.enums.get('WhiteSpace', {}).get('variants', []))
        for v in sorted(emitted - {'Space'}):
            if v in ('Comment', 'CompilerDirective') and v not in emitting_kinds:
                continue
            r.fail('%s:%s:copies-variant:%s' % (CRATE, a.key, v), pp.where(a.line),
                   'the WhiteSpace arm copies WhiteSpace::%s nodes: inside a directive blanks are always WhiteSpace::Space, so such a node only occurs outside directives, as the '
                   'trailing trivia of a token whose own arm has already copied it (string literal, escaped identifier): the blanks — e.g. the line break after a string — appear '
                   'twice in the output and every later origin is shifted' % v)
    # ---- (a3) plain text is only ever copied.  The arms that see directive-free text (comments, blanks, strings, escaped identifiers, other
    # text) may emit something that is not a slice of the source only where a comment is being stripped: a literal pushed on any other path
    # makes the output differ from the input on text without directives
    for (ev, key), f in sorted(feats.items()):
        a = f['arm']
        if ev != 'Enter' or not (a.kind in ('Comment', 'WhiteSpace') or (a.sub and a.sub.startswith('SourceDescription::') and a.sub.split('::')[-1] != 'CompilerDirective')):
            continue

        def lit_text(e_, scope):
            e_ = sx.strip_ref(e_)
            if sx.lit_str(e_) is not None:
                return True
            if sx.is_path(e_):
                for st_ in scope:
                    if st_.get('k') == 'let' and st_['pat'].get('k') == 'ident' and st_['pat']['n'] == e_['p'] and 'init' in st_:
                        lits_ = [z for z in sx.walk(st_['init']) if z.get('k') == 'lit' and z.get('t') == 'str']
                        leafs_ = [z for z in sx.walk(st_['init']) if z.get('k') == 'mcall' and z['m'] == 'str']
                        return bool(lits_) and not leafs_ or (bool(lits_) and st_['init'].get('k') in ('if', 'match'))
            return False

        def scan3(node, strip_true, scope):
            if isinstance(node, dict):
                if node.get('k') == 'block':
                    scope = scope + [x_ for x_ in node['stmts']]
                if node.get('k') == 'mcall' and node['m'] == 'push' and sx.is_path(node['recv'], pp.out_var) and node['args']:
                    if lit_text(node['args'][0], scope) and not strip_true:
                        r.fail('%s:%s:synthetic-text-in-plain-arm' % (CRATE, a.key), pp.where(node.get('l') or a.line),
                               '%s pushes text that is not copied from the source (`%s`) on a path that is taken without strip_comments: text without directives no longer passes '
                               'through unchanged (an extra byte appears, and every later offset is shifted or has no origin)' % (a.key, sq(node['args'][0])[:30]))
                if node.get('k') == 'if' and node['c'].get('k') != 'let':
                    c_ = sq(node['c'])
                    scan3(node['c'], strip_true, scope)
                    scan3(node['t'], strip_true or c_ == 'strip_comments', scope)
                    if 'e' in node:
                        scan3(node['e'], strip_true or c_ in ('!strip_comments', '(!strip_comments)'), scope)
                    return
                for v_ in node.values():
                    if isinstance(v_, (dict, list)):
                        scan3(v_, strip_true, scope)
            elif isinstance(node, list):
                for x_ in node:
                    scan3(x_, strip_true, scope)
        g_ = f['guard'] or ''
        r.inst('a3:%s' % a.key)
        scan3(a.body, g_ == 'strip_comments', [])
    # partial emitters inside a self-skipped node (TextMacroUsage trailing blanks) are emitted by the arm itself: once
    # ---- (b) at least once: every SourceDescription / CompilerDirective kind has a handler
    handled = set()
    for (ev, key), f in feats.items():
        if ev == 'Enter':
            a = f['arm']
            # an arm counts as the handler of its kind when it is unconditional, or conditional only on the documented flag
            # (`include under ignore_include deliberately contributes nothing)
            if f['guard'] in (None, '!ignore_include'):
                handled.add(a.sub if a.sub else a.kind)

    def check_variants(en, prefix):
        for v, payload in nt.enums[en]['variants']:
            tmp = []
            if payload:
                child_types(nt, payload[0], tmp)
            P = tmp[0] if tmp else None
            key = '%s::%s' % (en, v)
            ok = key in handled or (P in handled)
            if not ok and P in nt.enums and P != en:
                check_variants(P, prefix)
                continue
            r.inst('b:%s' % key, {'variant': key, 'payload': P, 'handled_by_arm': ok})
            if not ok:
                r.fail('%s:unhandled-kind:%s' % (CRATE, key), pp.where(pp.main.get('l', 1)),
                       'no Enter arm handles %s (payload %s): its text is silently dropped from the output' % (key, P))
    for en in ('SourceDescription', 'CompilerDirective'):
        if en not in nt.enums:
            r.fail('%s:type-missing:%s' % (CRATE, en), '-', 'CST enum %s not found (fail closed)' % en)
        else:
            check_variants(en, '')
    # kept directives push their whole text
    # ---- (c) strip mode
    guarded = sorted(f['arm'].kind for (ev, key), f in feats.items() if f['guard'] and 'strip_comments' in f['guard'])
    r.inst('c:strip-guarded-arms', {'arms_guarded_by_strip_comments': guarded})
    for k in guarded:
        if k != 'Comment':
            r.fail('%s:strip-guards:%s' % (CRATE, k), pp.where(1),
                   'the arm on %s is disabled by strip_comments: stripping then removes text that is not a comment%s' %
                   (k, ' (blanks next to a directive: `foo`endif bar` becomes `foobar`)' if k == 'WhiteSpace' else ''))
    # the flag decides nothing outside the Comment arm: in every other arm it may only be handed on to a nested run
    for (ev, key), f in sorted(feats.items(), key=lambda kv: str(kv[0])):
        a_ = f['arm']
        if a_.kind == 'Comment':
            continue
        reads = []

        def direct_read(e_):
            # the flag tested itself, not merely forwarded as an argument of a call inside the condition
            if not isinstance(e_, dict):
                return False
            if sx.is_path(e_, 'strip_comments'):
                return True
            k_ = e_.get('k')
            if k_ in ('call', 'mcall'):
                return direct_read(e_.get('recv')) if k_ == 'mcall' else False
            return any(direct_read(v_) if isinstance(v_, dict) else any(direct_read(x_) for x_ in v_) if isinstance(v_, list) else False for v_ in e_.values())
        for n in sx.walk(a_.body):
            if n.get('k') == 'if' and direct_read(n['c'].get('e') if n['c'].get('k') == 'let' else n['c']):
                reads.append(n)
            elif n.get('k') == 'match' and direct_read(n['e']):
                reads.append(n)
        r.inst('c:strip-read:%s' % a_.key)
        if reads:
            r.fail('%s:strip-changes-arm:%s' % (CRATE, a_.key), pp.where(reads[0].get('l') or a_.line),
                   'the handler of %s behaves differently under strip_comments (`%s`): the flag may only remove comments (the Comment arm) and be handed to '
                   'nested runs; any other dependence changes non-comment text between the two modes' % (a_.key, sq(reads[0]['c'] if reads[0].get('k') == 'if' else reads[0]['e'])[:50]))
    # ... and in the other functions of the preprocessor (the macro resolver, the file entry, helpers) the flag is only handed on: a
    # condition that tests it there makes something else than the removal of comments depend on the mode
    def _direct_read_any(e_):
        if not isinstance(e_, dict):
            return False
        if sx.is_path(e_, 'strip_comments'):
            return True
        k_ = e_.get('k')
        if k_ == 'call':
            return False
        if k_ == 'mcall':
            return _direct_read_any(e_.get('recv'))
        if k_ == 'closure':
            return False
        return any(_direct_read_any(v_) if isinstance(v_, dict) else any(_direct_read_any(x_) for x_ in v_ if isinstance(x_, dict)) if isinstance(v_, list) else False
                   for v_ in e_.values())
    for fname_, f_ in sorted(pp.fns.items()):
        if f_ is pp.loop_fn or not f_.get('body'):
            continue
        pn_ = [sx.pat_idents(q['pat'])[0] for q in f_['sig']['params'] if q.get('k') == 'typed']
        if 'strip_comments' not in pn_:
            continue
        r.inst('c:strip-read-fn:%s' % fname_)
        for n in sx.walk(f_['body']):
            cond = None
            if n.get('k') == 'if':
                cond = n['c'].get('e') if n['c'].get('k') == 'let' else n['c']
            elif n.get('k') == 'match':
                cond = n['e']
            elif n.get('k') == 'let' and 'init' in n and n['init'].get('k') in ('binary', 'unary', 'path'):
                cond = n['init']
            if cond is not None and _direct_read_any(cond):
                r.fail('%s:strip-read-outside-comment-arm:%s' % (CRATE, fname_), pp.where(n.get('l') or f_['l']),
                       '%s tests strip_comments (`%s`): outside the Comment handler the flag may only be handed to nested runs; here something else than the removal of comments '
                       'depends on the mode, so the two modes can differ in their non-comment tokens' % (fname_, sq(cond)[:50]))
                break
    # what happens to a comment under strip: nothing emitted in its place?
    cm = [f for (ev, key), f in feats.items() if ev == 'Enter' and f['arm'].kind == 'Comment']
    r.exactly('comment_arm', len(cm), 1)
    if cm:
        f = cm[0]
        a = f['arm']
        replaced = False
        if not (f['guard'] and 'strip_comments' in f['guard']):
            # unguarded arm: an else-branch / separate push must emit a separator when stripping
            ifs = [n for n in sx.walk(a.body) if n.get('k') == 'if' and 'strip_comments' in sq(n['c'])]
            replaced = bool(ifs) and all('e' in n and pp.pushes(n['t']) and pp.pushes(n['e']) for n in ifs)
        if replaced:
            # the separator must be a non-empty run of blanks on every path
            for n in ifs:
                strip_branch = n['e'] if sq(n['c']).startswith('!') else n['t']
                lits = [sx.lit_str(x) for x in sx.walk(strip_branch) if x.get('k') == 'lit' and x.get('t') == 'str']
                r.inst('c:separator-literals', {'separators': lits})
                bad = [l_ for l_ in lits if l_ == '' or l_.strip(' \t\n\r\x0c') != '']
                pushes_ = pp.pushes(strip_branch)
                txtvars = [sx.strip_ref(p_['args'][0]) for p_ in pushes_]
                if bad or not lits or any(not (sx.is_path(t_) or sx.lit_str(t_)) for t_ in txtvars):
                    r.fail('%s:strip-separator:Comment' % CRATE, pp.where(n.get('l')),
                           'under strip_comments the text emitted in place of a comment must be a non-empty run of blanks on every path '
                           '(found literals %s): an empty separator joins the neighbouring tokens' % lits)
        r.inst('c:comment-under-strip', {'separator_emitted_in_place_of_a_stripped_comment': replaced})
        if not replaced:
            r.fail('%s:strip-joins-tokens:Comment' % CRATE, pp.where(a.line),
                   'with strip_comments a comment is dropped and nothing is emitted in its place: the tokens on both sides are joined '
                   '(`a/**/b` becomes `ab`), so the non-comment token sequence changes')
    r.floor('enter_arms', sum(1 for (ev, k) in feats if ev == 'Enter'), 20)
    return r
