"""E3 — compile-fail witnesses (thorough tier): rustdoc compile_fail,E0xxx doc tests of a harness crate that
path-depends on the repository being checked; each witness has a compiling twin."""
import os
import re
import shutil
import subprocess
import tempfile

from vlib.facts import VERIF
from vlib.report import RuleResult

WHICH = {'C07': 'C07EntryIsTheOnlyDoor', 'C01': 'C01TreeAndTextAreCoupled', 'C03': 'C03OnlyThePreprocessorWritesOrigins'}


def run(ctx, pid):
    r = RuleResult('E3', 'compile-fail witnesses: the violating program does not build (twin compiles)')
    d = tempfile.mkdtemp(prefix='verif-witness-')
    try:
        src = os.path.join(VERIF, 'tools', 'witness')
        os.makedirs(os.path.join(d, 'src'))
        shutil.copy(os.path.join(src, 'src', 'lib.rs'), os.path.join(d, 'src', 'lib.rs'))
        open(os.path.join(d, 'Cargo.toml'), 'w').write(open(os.path.join(src, 'Cargo.toml.in')).read().replace('@REPO@', ctx.root))
        shutil.copy(os.path.join(ctx.root, 'Cargo.lock'), os.path.join(d, 'Cargo.lock'))
        env = dict(os.environ)
        env.update({'CARGO_TARGET_DIR': os.path.join(d, 'target'), 'CARGO_NET_OFFLINE': 'true'})
        p = subprocess.run(['cargo', '+nightly', 'test', '--doc', '--offline', '--', WHICH[pid]], cwd=d, env=env, capture_output=True, text=True)
        out = p.stdout + p.stderr
        tests = re.findall(r'^test (\S+) - (\S+) \(line (\d+)\)( - compile fail)? \.\.\. (\w+)', out, re.M)
        for f, item, line, cf, status in tests:
            kind = 'witness' if cf else 'twin'
            r.inst('%s:%s:%s' % (item, kind, line), {'item': item, 'kind': kind, 'line': int(line), 'result': status})
            if status != 'ok':
                r.fail('witness:%s:%s:%s' % (item, kind, line), 'tools/witness/src/lib.rs:%s' % line,
                       '%s of %s (line %s): %s' % (kind, item, line, 'the violating program now compiles (or fails with a different error)' if cf else 'the twin no longer compiles'))
        if not tests:
            r.fail('witness:no-tests', '-', 'no doc tests were run (fail closed): %s' % out[-600:])
        nw = sum(1 for t in tests if t[3])
        nt = sum(1 for t in tests if not t[3])
        r.floor('witnesses', nw, 2)
        r.floor('twins', nt, 1)
    finally:
        shutil.rmtree(d, ignore_errors=True)
    return r
