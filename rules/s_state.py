"""S1-S7 — state, effects and isolation rules over the E2 (MIR) facts."""
import re
from vlib import sx
from vlib.mirmodel import Mir, WORKSPACE
from vlib.report import RuleResult

PARSER = 'sv_parser_parser'
PP = 'sv_parser_pp'


def mir(ctx):
    if not hasattr(ctx, '_mir_model'):
        ctx._mir_model = Mir(ctx.mir)
    return ctx._mir_model


def rel(path):
    """path of a source file relative to the repository root"""
    return path


def is_with(c):
    return c.callee is not None and c.callee.startswith('std::thread::local::') and c.callee.endswith('::with')


def vec_op(c):
    if c.callee is None:
        return None
    m = re.match(r'^alloc::vec::\{impl#\d+\}::(push|pop|clear|truncate|drain|insert|remove|swap_remove|retain|append|extend|resize)$', c.callee)
    if m:
        return m.group(1)
    if re.match(r'^nom_packrat::\{impl#\d+\}::clear$', c.callee):
        return 'clear'
    return None


class Prims:
    """Scope primitives by role: functions of the parser crate that access a thread-local key through
    LocalKey::with; classified by the container operations their `with`-closures perform."""

    def __init__(self, m):
        self.m = m
        self.keys = sorted(k for k in m.tl_keys if k.startswith(PARSER + '::'))
        self.memo_keys = [k for k in self.keys if any('PackratStorage' in s['ty'] for s in m.tl_keys[k])]
        self.scope_keys = [k for k in self.keys if k not in self.memo_keys]
        self.access = {}    # fn name -> {'key', 'ops', 'closures'}
        for b in m.by_crate.get(PARSER, []):
            ks = [k for k in b.consts if k in m.tl_keys]
            if not ks or not any(is_with(c) for c in b.calls):
                continue
            ops = []
            cl = []
            for c in b.calls:
                if is_with(c):
                    cl += [m.bodies[r] for r in c.arg_fns if r in m.bodies]
            for c in cl:
                for call in c.calls:
                    o = vec_op(call)
                    if o:
                        ops.append(o)
            self.access[b.name] = {'keys': ks, 'ops': ops, 'closures': cl, 'body': b}

    def effect_sets(self, axis_of):
        """fn name -> set of delta tuples (or 'clear') for functions that write a scope key"""
        out = {}
        n = len(axis_of)
        for f, a in self.access.items():
            ks = [k for k in a['keys'] if k in axis_of]
            if not ks or a['body'].kind != 'fn':
                continue
            k = ks[0]
            ops = set(a['ops'])
            if not ops:
                continue   # reader
            zero = tuple([0] * n)

            def unit(d):
                t = [0] * n
                t[axis_of[k]] = d
                return tuple(t)
            if ops == {'push'}:
                # several pushes in different arms (match): net effect per call is 0 or +1 — decided from the closure CFG
                out[f] = self._closure_effects(a['closures'], unit(1), zero)
            elif ops == {'pop'}:
                # exactly one pop on every path through the closure (a pop in a loop, or a second pop behind it, closes more than the scope it
                # is called for: the enclosing `begin_keywords region goes with the transient directive marker)
                cnt_ = self._closure_effects(a['closures'], 'one', 'none', op='pop')
                if cnt_ == {'one'}:
                    out[f] = {unit(-1)}
                else:
                    out[f] = 'other:pop ' + '/'.join(sorted(str(x_) for x_ in cnt_)) + ' times per call'
            elif ops == {'clear'}:
                out[f] = 'clear'
            else:
                out[f] = 'other:' + ','.join(sorted(ops))
        return out

    def _closure_effects(self, closures, plus, zero, op='push'):
        res = set()
        for c in closures:
            # paths through the closure: count pushes (pops) per path
            states = {0: {0}}
            todo = [0]
            push_blocks = {call.block for call in c.calls if vec_op(call) == op}
            while todo:
                bi = todo.pop()
                for cnt in list(states[bi]):
                    ncnt = min(cnt + (1 if bi in push_blocks else 0), 2)
                    blk = c.blocks[bi]
                    if blk[0] == 'r':
                        res.add(min(ncnt, 2))
                    for t in blk[1:]:
                        if ncnt not in states.setdefault(t, set()):
                            states[t].add(ncnt)
                            todo.append(t)
        out = set()
        for r_ in res:
            if r_ == 0:
                out.add(zero)
            elif r_ == 1:
                out.add(plus)
            else:
                out.add('multi')
        return out


def all_with_closures(m, crate=PARSER):
    """every closure / fn passed to LocalKey::with anywhere in the crate (parser state, memo, recursion tracer)"""
    out = {}
    for b in m.by_crate.get(crate, []):
        for c in b.calls:
            if is_with(c):
                for r in c.arg_fns:
                    if r in m.bodies:
                        out[r] = (b, c)
    return out


def add(a, b):
    return tuple(x + y for x, y in zip(a, b))


def s3_s4(ctx):
    m = mir(ctx)
    g = ctx.grammar
    P = Prims(m)
    r3 = RuleResult('S3', 'directive / keyword-version scopes are balanced on every path of every parser body')
    r4 = RuleResult('S4', 'the memo key covers all state memoised parsers depend on; memoised parsers have no other effect')
    r6 = RuleResult('S6', 'closures run under LocalKey::with on parser state are leaves (no parser is called while the cell is borrowed)')
    axis_of = {k: i for i, k in enumerate(P.scope_keys)}
    r3.floor('scope_stacks(thread-local Vec keys)', len(P.scope_keys), 2)
    r4.exactly('memo_key(thread-local PackratStorage)', len(P.memo_keys), 1)
    n = len(axis_of)
    zero = tuple([0] * n)
    eff = P.effect_sets(axis_of)
    r3.inst('primitives', {'writers': {k.split('::')[-1]: (sorted(map(str, v)) if isinstance(v, set) else v) for k, v in eff.items()}})
    for f, v in eff.items():
        if isinstance(v, str) and v.startswith('other'):
            b = m.bodies[f]
            r3.fail('%s:%s:unmodelled-primitive' % (PARSER, f.split('::')[-1]), b.where(), '%s performs %s on a scope stack (fail closed)' % (f, v))
    # literals for which begin_keywords provably pushes exactly once (decided on the source by K2's model)
    from rules.k_keywords import begin_keywords_model
    bkm = begin_keywords_model(ctx)
    assume_literals = False
    if bkm['form'] is not None and not bkm['state_cond'] and (bkm['form'] == 'arm' or bkm['pushes'] == 1):
        lits = set(bkm['map'])
    elif bkm['form'] is None:
        # shape not recognised: not decided — assume +1 for literal calls rather than raising alarms on every caller
        lits = None
        assume_literals = True
        r3.undecided('%s:begin_keywords:effect' % PARSER, '-', 'the push effect of begin_keywords could not be derived from its source (%s); '
                     'calls with a literal are assumed to push exactly once' % bkm['why'])
    else:
        lits = set()
    # exception table by role
    vs_owner = None
    ek_owner = None
    for f in g.parsers():
        if f.out_ty and f.out_ty.get('p') == 'VersionSpecifier':
            vs_owner = f.name
        if f.out_ty and f.out_ty.get('p') == 'EndkeywordsDirective':
            ek_owner = f.name
    exempt_owner = {}
    if vs_owner:
        exempt_owner[vs_owner] = 'version_specifier: selecting the keyword set is the meaning of `begin_keywords (handed to S4)'
    if ek_owner:
        exempt_owner[ek_owner] = 'endkeywords_directive: leaving the keyword set is the meaning of `end_keywords (handed to S4)'
    clear_fns = {f for f, v in eff.items() if v == 'clear'}
    writer_fns = set(eff)
    # private helpers of an exempt owner (functions whose every caller belongs to that owner's family) carry the same
    # by-design effect: `version_specifier` may delegate "match the word, select the set" to a helper
    exempt_root = {k: k for k in exempt_owner}
    _callers = {}
    for b_ in m.by_crate.get(PARSER, []):
        for c_ in b_.calls:
            _callers.setdefault(c_.callee.split('::')[-1].split('::{closure')[0], set()).add(m.owner(b_.name).split('::')[-1])
    _changed = True
    while _changed:
        _changed = False
        for callee_short, cs_ in _callers.items():
            if callee_short in exempt_root or callee_short in {x.split('::')[-1] for x in eff}:
                continue
            fi_ = g.fns.get(callee_short)
            if fi_ is None or fi_.item.get('vis') not in ('', None, 'priv', 'inherited'):
                continue
            roots = {exempt_root.get(x) for x in cs_}
            if None not in roots and len(roots) == 1:
                exempt_root[callee_short] = roots.pop()
                _changed = True

    summaries = {}
    witnesses = {}
    in_progress = set()
    bodies = {b.name: b for b in m.by_crate.get(PARSER, [])}

    def short(nm):
        return nm.replace(PARSER + '::', '')

    def call_effect(c):
        cal = c.callee
        if cal in eff:
            v = eff[cal]
            if v == 'clear':
                return 'clear'
            if isinstance(v, str):
                return {zero}
            if c.strs and cal.endswith('::begin_keywords'):
                # begin_keywords("lit"): exactly +1 iff K2's model proves an unconditional push for that literal
                plus = {x for x in v if x != zero and x != 'multi'}
                if lits is None or all(s_ in lits for s_ in c.strs):
                    return plus or {zero}
                if lits == set():
                    return set(plus) | {zero}
                return {zero}
            return {x for x in v if x != 'multi'}
        if cal in bodies:
            if m.owner(cal) in [PARSER + '::' + p for p in ()]:
                return {zero}
            s = summary(cal)
            if s != {zero}:
                # either a by-design effect (S4 owns it) or a violation reported at the callee itself:
                # charge it once, at its origin, not to every caller up the chain
                return {zero}
            return s
        return {zero}

    def summary(name):
        if name in summaries:
            return summaries[name]
        if name in in_progress:
            return {zero}
        in_progress.add(name)
        b = bodies[name]
        calls_at = {}
        for c in b.calls:
            calls_at[c.block] = c
        interesting = any((c.callee in eff) or (c.callee in bodies) for c in b.calls)
        if not interesting or not b.blocks:
            summaries[name] = {zero}
            in_progress.discard(name)
            return summaries[name]
        states = {0: {zero: None}}     # block -> {state: (pred block, pred state)}
        todo = [(0, zero)]
        rets = {}
        bad = None
        while todo:
            bi, st = todo.pop()
            blk = b.blocks[bi]
            out_states = [st]
            if bi in calls_at:
                e = call_effect(calls_at[bi])
                if e == 'clear':
                    out_states = [zero]      # reset: only legal in the init role (checked separately)
                else:
                    out_states = [add(st, d) for d in e]
            for ns in out_states:
                if max(abs(x) for x in ns) > 4 if ns else False:
                    bad = (bi, ns)
                    continue
                if blk[0] == 'r':
                    rets.setdefault(ns, (bi, st))
                for t in blk[1:]:
                    if t in b.cleanup:
                        continue
                    d = states.setdefault(t, {})
                    if ns not in d:
                        d[ns] = (bi, st)
                        todo.append((t, ns))
        res = set(rets)
        if bad is not None:
            res.add('unbounded')
        summaries[name] = res or {zero}

        # witness path for each non-neutral exit
        for ns, (bi, st) in rets.items():
            if ns == zero:
                continue
            path = []
            cur = (bi, st)
            guard = 0
            while cur is not None and guard < 10000:
                guard += 1
                cb, cs = cur
                if cb in calls_at and (calls_at[cb].callee in eff or (calls_at[cb].callee in bodies and summaries.get(calls_at[cb].callee, {zero}) != {zero})):
                    c = calls_at[cb]
                    path.append('%s%s at line %d' % (short(c.callee), ('(%s)' % ', '.join('"%s"' % x for x in c.strs)) if c.strs else '()', c.line))
                cur = states.get(cb, {}).get(cs)
            witnesses[(name, ns)] = list(reversed(path))
        in_progress.discard(name)
        return summaries[name]

    n_touch = 0
    for name, b in bodies.items():
        s = summary(name)
        touches = any((c.callee in eff) for c in b.calls)
        if touches:
            n_touch += 1
        own = m.owner(name)
        own_short = own.split('::')[-1]
        if name in eff:
            continue    # the primitives themselves
        if touches:
            r3.inst(short(name), {'body': short(name), 'net_effects_at_return': sorted(map(str, s)),
                                  'axes': [k.split('::')[-1] for k in P.scope_keys]})
        if s == {zero}:
            continue
        if own_short in exempt_root:
            # by design; must be exactly the documented effect
            ax = axis_of.get([k for k in P.scope_keys if 'VERSION' in k.upper()][0]) if any('VERSION' in k.upper() for k in P.scope_keys) else None
            allowed = set()
            if ax is not None:
                up = [0] * n
                up[ax] = 1
                dn = [0] * n
                dn[ax] = -1
                allowed = {zero, tuple(up)} if exempt_root[own_short] == vs_owner else {zero, tuple(dn)}
            if not s <= allowed:
                r3.fail('%s:%s:by-design-effect-changed' % (PARSER, short(name)), b.where(),
                        '%s: net scope effects %s differ from the documented effect of the directive' % (short(name), sorted(map(str, s))))
            continue
        # init role: may clear
        if any(c.callee in clear_fns for c in b.calls):
            continue
        for ns in sorted(s, key=str):
            if ns == zero:
                continue
            wit = witnesses.get((name, ns), [])
            r3.fail('%s:%s:unbalanced' % (PARSER, own_short), b.where(),
                    '%s: a path returns with net scope effect %s on (%s): %s — the scope stays open (or is closed twice) for the rest '
                    'of the parse' % (short(name), ns, ', '.join(k.split('::')[-1] for k in P.scope_keys),
                                      ' -> '.join(wit) + ' -> return' if wit else 'see calls'),
                    {'body': name, 'effect': str(ns), 'path': wit})
    r3.floor('bodies_analysed', len(bodies), 7000)
    r3.floor('bodies_touching_a_scope_primitive', n_touch, 4)
    # clear only from the init role (directly, or in private helpers that only the init role calls)
    init_role = init_fn(m)
    callers_of = {}
    for name, b in bodies.items():
        for c in b.calls:
            if c.callee in bodies:
                callers_of.setdefault(c.callee, set()).add(m.owner(name))
        for rf in b.refs:
            if rf in bodies and m.bodies[rf].kind == 'fn':
                callers_of.setdefault(rf, set()).add('<referenced>')
    init_only = {init_role}
    changed = True
    while changed:
        changed = False
        for fn_, cs in callers_of.items():
            if fn_ not in init_only and cs and cs <= init_only:
                init_only.add(fn_)
                changed = True
    for name, b in bodies.items():
        for c in b.calls:
            if c.callee in clear_fns:
                r3.inst('clear-site:' + short(name))
                if m.owner(name) not in init_only:
                    r3.fail('%s:%s:clear-outside-init' % (PARSER, short(name)), b.where(),
                            '%s clears a scope stack outside the init role (%s)' % (short(name), short(init_role or '?')))

    # ---------------------------------------------------------------- S4
    memo_fns = {f.name for f in g.fns.values() if f.memo}
    r4.floor('memoised_functions', len(memo_fns), 1090)
    # state accessed (transitively) by memoised parsers, excluding the memo itself
    by_short = {}
    for name in bodies:
        by_short.setdefault(name.split('::{closure#')[0].split('::')[-1], []).append(name)
    readers = {}   # key -> accessor fns
    for f, a in P.access.items():
        for k in a['keys']:
            readers.setdefault(k, set()).add(f)
    # keys covered by the memo key: thread-locals accessed by the HasExtraState implementation
    extra = [b for nme, b in bodies.items() if nme.endswith('::get_extra_state')]
    r4.exactly('HasExtraState_impl', len(extra), 1)
    covered = set(P.memo_keys)
    if extra:
        for nme in m.reach([extra[0].name], crates={PARSER}):
            if nme in P.access:
                covered |= set(P.access[nme]['keys'])
    r4.inst('memo-key', {'state_in_memo_key': sorted(k.split('::')[-1] for k in covered if k not in P.memo_keys)})
    roots = []
    for f in memo_fns:
        roots += by_short.get(f, [])
    reach = m.reach(roots, crates={PARSER})
    for k in P.keys:
        if k in P.memo_keys:
            continue
        acc = sorted(f for f in readers.get(k, ()) if f in reach)
        r4.inst('state:' + k.split('::')[-1], {'thread_local': k.split('::')[-1], 'accessed_from_memoised_parsers_via': [short(x) for x in acc][:6],
                                               'in_memo_key': k in covered})
        if acc and k not in covered:
            # one finding per OBSERVER: an accessor whose owner function returns a value (the state flows into a result); accessors
            # that return () only change the state (that side is `effect-in-memoised`)
            observers = {}
            for x in acc:
                own = short(m.owner(x)).split('::')[-1]
                fi = g.fns.get(own)
                rets = (fi.item['sig'].get('rets') or '').replace(' ', '') if fi is not None else '?'
                if rets not in ('', '()', 'None'):
                    observers.setdefault(own, rets)
            r4.inst('observers:' + k.split('::')[-1], {'thread_local': k.split('::')[-1], 'value_returning_accessors': sorted(observers)})
            for own, rets in sorted(observers.items()):
                r4.fail('%s:unkeyed-state:%s:observed-by:%s' % (PARSER, k.split('::')[-1], own), m.tl_keys[k][0]['file'] + ':' + str(m.tl_keys[k][0]['line']),
                        'memoised parsers depend on thread-local %s through %s() -> %s but the memo key (HasExtraState) does not include it: a memo '
                        'hit can replay a result computed under another value, and a result can depend on whether an earlier visit was a memo hit'
                        % (k.split('::')[-1], own, rets), {'key': k, 'via': acc, 'observer': own})
    # (b) effect freedom: by-design effect sites inside memoised parsers
    for own_short, why in exempt_owner.items():
        fam = [nme for nme in bodies if exempt_root.get(m.owner(nme).split('::')[-1]) == own_short]
        non_neutral = [nme for nme in fam if summaries.get(nme, {zero}) != {zero}]
        r4.inst('effect-site:' + own_short, {'parser': own_short, 'memoised': own_short in memo_fns, 'bodies_with_effect': len(non_neutral)})
        if non_neutral and own_short in memo_fns:
            b = bodies[non_neutral[0]]
            r4.fail('%s:effect-in-memoised:%s' % (PARSER, own_short), b.where(),
                    'memoised parser %s changes the keyword-version stack (%d bodies): whether the effect happens depends on memo hits, so '
                    'acceptance can depend on the memo capacity' % (own_short, len(non_neutral)), {'bodies': non_neutral})
        if non_neutral and own_short not in memo_fns:
            b = bodies[non_neutral[0]]
            r4.fail('%s:effect-not-memoised:%s' % (PARSER, own_short), b.where(),
                    'parser %s opens / closes a keyword-version region and is NOT memoised: it is reached through trivia, which every alternative that re-reads the preceding token '
                    'scans again, so the region is opened (closed) once per scan instead of once per position — the memo entry is what makes a re-scan idempotent. The version stack '
                    'ends up unbalanced, and by how much depends on which enclosing memo entries are present' % own_short, {'bodies': non_neutral})
    # any other memoised body with an effect is already an S3 violation
    # ---------------------------------------------------------------- S6
    nleaf = 0
    for cname, (host, call) in sorted(all_with_closures(m).items()):
        c = m.bodies[cname]
        nleaf += 1
        bad = [cl.callee for cl in c.calls if cl.callee and cl.callee.startswith(PARSER + '::')]
        r6.inst(short(c.name), {'closure': short(c.name), 'key': call.gen[:60], 'calls': sorted({(cl.callee or '?').split('::')[-1] for cl in c.calls})[:8]}
                if nleaf % 700 == 1 else None)
        if bad or c.refs:
            r6.fail('%s:%s:with-closure-calls-parser' % (PARSER, short(c.name)), c.where(),
                    '%s runs while a thread-local RefCell is borrowed and calls / references %s: a nested borrow_mut would panic '
                    '(BorrowMutError)' % (short(c.name), ', '.join(short(x) for x in (bad + c.refs))))
    r6.floor('with_closures', nleaf, 3300)
    return [r3, r4, r6]


def init_fn(m):
    """role: the function every exported parser entry calls first"""
    firsts = {}
    for b in m.by_crate.get(PARSER, []):
        if b.exported and b.kind == 'fn' and len(b.calls) >= 2:
            c0 = b.calls[0]
            if c0.block == 0 and c0.callee and c0.callee.startswith(PARSER + '::'):
                firsts[c0.callee] = firsts.get(c0.callee, 0) + 1
    if not firsts:
        return None
    return max(firsts, key=firsts.get)


def s1_s2(ctx):
    m = mir(ctx)
    g = ctx.grammar
    P = Prims(m)
    r1 = RuleResult('S1', 'every piece of state that outlives a call is enumerated and reset by init()')
    r2 = RuleResult('S2', 'every externally reachable parser entry passes through init() first; nothing else reaches the grammar')
    init = init_fn(m)
    r2.exactly('init_role', 1 if init else 0, 1)
    # statics of all workspace crates
    for s in m.statics:
        key = s['path']
        r1.inst('static:' + key, {'static': key, 'thread_local': s['thread_local'], 'mut': s['mut'], 'freeze': s['freeze']}
                if r1.instances < 3 else None)
        if s['crate'] == 'sv_parser_macros' and key.endswith('::_DECLS') and not s['mut'] and s['freeze']:
            continue   # proc-macro registration table of a compile-time crate
        if s['thread_local'] and s['crate'] == PARSER:
            continue   # handled per key below
        if not s['mut'] and s['freeze'] and not s['thread_local']:
            continue   # immutable data
        r1.fail('%s:static:%s' % (s['crate'], key), '%s:%s' % (s['file'], s['line']),
                'static %s (%s) is mutable state outside the parser crate\'s resettable thread-locals (mut=%s, interior mutability=%s, '
                'thread_local=%s): nothing resets it between calls' % (key, s['ty'], s['mut'], not s['freeze'], s['thread_local']))
    for crate in WORKSPACE:
        r1.inst('crate-statics:' + crate, {'crate': crate, 'statics': sum(1 for s in m.statics if s['crate'] == crate)})
    # reset exhaustiveness
    reach_init = m.reach([init], with_refs=True, crates={PARSER}) if init else set()
    for k in P.keys:
        clearers = []
        for f, a in P.access.items():
            if k in a['keys'] and 'clear' in a['ops'] and f in reach_init:
                clearers.append(f)
        r1.inst('reset:' + k, {'thread_local': k, 'cleared_by': clearers, 'reachable_from': init})
        if not clearers:
            st = m.tl_keys[k][0]
            r1.fail('%s:not-reset:%s' % (PARSER, k.split('::')[-1]), '%s:%s' % (st['file'], st['line']),
                    'thread-local %s is never cleared on the way through %s(): what a previous call (even a failed one) left in it '
                    'leaks into the next call on the same thread' % (k, (init or '?').split('::')[-1]))
    r1.floor('thread_local_keys', len(P.keys), 3)
    # every thread_local! in the parser crate source is one of the keys E2 found (E1 cross-check)
    n_tl_src = 0
    for fl, fv in sx.crate_files(ctx.syn, 'sv-parser-parser').items():
        for mp, it in sx.items_rec(fv['items']):
            if it['k'] == 'item_macro' and (it['p'].endswith('thread_local') or it['p'].endswith('storage')):
                n_tl_src += 1
    r1.inst('source-cross-check', {'thread_local!/storage! invocations in source': n_tl_src, 'keys in MIR': len(P.keys)})
    if n_tl_src != len(P.keys):
        r1.fail('%s:thread-local-count' % PARSER, '-', 'source declares %d thread-local stores, MIR shows %d keys (fail closed)' % (n_tl_src, len(P.keys)))

    # ---- S2
    ents_e1 = sorted(f.name for f in g.parsers() if f.item['vis'] == 'pub')
    exported = [b for b in m.by_crate.get(PARSER, []) if b.exported and b.kind in ('fn', 'assoc')]
    grammar_fns = {PARSER + '::' + '::'.join(p) for p in ()}  # unused
    parser_bodies = {b.name for b in m.by_crate.get(PARSER, [])}
    # state writers: functions whose with-closures mutate
    writers = {f for f, a in P.access.items() if a['ops']}
    for b in exported:
        nm = b.name.split('::')[-1]
        reach = m.reach([b.name], crates={PARSER})
        touches_grammar = any(x in parser_bodies and m.bodies[x].kind == 'fn' and x != b.name and x.split('::')[-1] in g.fns
                              and g.fns[x.split('::')[-1]].kind == 'parser' for x in reach)
        writes = sorted(x for x in reach if x in writers)
        r2.inst('exported:' + b.name, {'exported': b.name.replace(PARSER + '::', ''), 'reaches_grammar': touches_grammar,
                                       'first_call': (b.calls[0].callee or '?').split('::')[-1] if b.calls else None})
        if not touches_grammar and not writes:
            continue
        if nm not in ents_e1:
            r2.fail('%s:%s:back-door' % (PARSER, b.name.replace(PARSER + '::', '')), b.where(),
                    'externally reachable %s reaches the grammar / writes parser state but is not one of the entry points (%s)' % (b.name, ', '.join(ents_e1)))
            continue
        c0 = b.calls[0] if b.calls else None
        if c0 is None or c0.block != 0 or c0.callee != init:
            r2.fail('%s:%s:init-not-first' % (PARSER, nm), b.where(),
                    'entry %s does not call %s() before anything else (first call: %s): memo table and scope stacks of the previous '
                    'call are still in place' % (nm, (init or 'init').split('::')[-1], c0.callee if c0 else None))
    seen_entries = sorted(b.name.split('::')[-1] for b in exported if b.name.split('::')[-1] in ents_e1)
    if seen_entries != ents_e1:
        r2.fail('%s:entry-set' % PARSER, '-', 'entries by source visibility %s differ from exported entries in MIR %s' % (ents_e1, seen_entries))
    r2.floor('entries', len(seen_entries), 5)
    # init itself: resets come before nothing else matters (it has no other effect); entries only: init then grammar fn
    return [r1, r2]


# shared-state and process-global effects
FORBIDDEN_CALLS = [
    (r'^std::env::(set_var|remove_var|set_current_dir)$', 'changes process-global environment'),
    (r'^std::fs::(write|remove_file|remove_dir|remove_dir_all|create_dir|create_dir_all|rename|copy|set_permissions|hard_link)$', 'writes to the file system'),
    (r'^std::fs::\{impl#\d+\}::(create|create_new|set_len|set_permissions)$', 'writes to the file system'),
    (r'^std::fs::OpenOptions', 'opens files with explicit (possibly write) options'),
    (r'^std::process::(exit|abort)$', 'terminates the process'),
    (r'^std::panic::(set_hook|take_hook)$', 'replaces the process-wide panic hook'),
    (r'^std::thread::(spawn|Builder)', 'spawns threads'),
    (r'^std::sync::', 'uses shared-memory synchronisation primitives'),
    (r'^core::sync::atomic::', 'uses atomics (shared mutable state)'),
]


def s5_s7(ctx):
    m = mir(ctx)
    r5 = RuleResult('S5', 'no shared mutable state and no process-global effect in the workspace crates')
    r7 = RuleResult('S7', 'hash-map iteration order never reaches an output')
    # statics
    ns = 0
    for s in m.statics:
        ns += 1
        ok = s['thread_local'] or (not s['mut'] and s['freeze'])
        r5.inst('static:' + s['path'], {'static': s['path'], 'thread_local': s['thread_local'], 'mut': s['mut'], 'interior_mut': not s['freeze']})
        if not ok:
            r5.fail('%s:shared-static:%s' % (s['crate'], s['path']), '%s:%s' % (s['file'], s['line']),
                    'static %s is shared between threads and mutable (mut=%s, interior mutability=%s)' % (s['path'], s['mut'], not s['freeze']))
    # positive control for the zero-count part: the thread-locals must be visible to this rule
    r5.floor('statics_seen(incl. thread-locals)', ns, 6)
    ncalls = 0
    unsafe_sites = []
    for crate in WORKSPACE:
        if crate == 'sv_parser_macros':
            continue
        for b in m.by_crate.get(crate, []):
            for c in b.calls:
                ncalls += 1
                if c.callee is None:
                    continue
                for pat, why in FORBIDDEN_CALLS:
                    if re.match(pat, c.callee):
                        r5.fail('%s:%s:global-effect:%s' % (crate, b.name.replace(crate + '::', ''), c.callee), '%s:%s' % (b.file, c.line),
                                '%s calls %s, which %s' % (b.name, c.callee, why))
                if c.callee_unsafe and not c.from_expansion:
                    unsafe_sites.append((b, c))
    r5.counts['call_sites_scanned'] = ncalls
    # unsafe calls: enumerated, each touches only its arguments
    UNSAFE_OK = {
        r'^str_concat::concat$': 'joins two adjacent &str fragments of the caller\'s own input',
        r'^nom_locate::\{impl#\d+\}::new_from_raw_offset$': 'builds a span over the joined fragment; arguments only',
        r'^core::str::\{impl#\d+\}::get_unchecked$': 'slices the tree\'s own text; arguments only',
    }
    for b, c in unsafe_sites:
        r5.inst('unsafe:%s:%s' % (b.name, c.callee), {'in': b.name, 'unsafe_callee': c.callee})
        if not any(re.match(p_, c.callee) for p_ in UNSAFE_OK):
            r5.fail('%s:unsafe-call:%s:%s' % (b.crate, b.name.replace(b.crate + '::', ''), c.callee), '%s:%s' % (b.file, c.line),
                    '%s calls unsafe %s, which is not in the audited list (str_concat::concat, new_from_raw_offset, get_unchecked)' % (b.name, c.callee))
    r5.floor('call_sites_scanned', ncalls, 20000)
    # ---- S7
    pat = re.compile(r'^std::collections::hash::(map|set)::\{impl#\d+\}::(iter|iter_mut|into_iter|keys|values|values_mut|drain|into_keys|into_values|retain|extract_if)$')
    nh = 0
    from rules.x_pp import model as ppmodel
    pp = ppmodel(ctx)
    for crate in WORKSPACE:
        if crate == 'sv_parser_macros':
            continue
        for b in m.by_crate.get(crate, []):
            for c in b.calls:
                if c.callee and pat.match(c.callee):
                    nh += 1
                    key = '%s:%s:%s' % (crate, b.name.replace(crate + '::', ''), c.callee.split('::')[-1])
                    # accepted sink: a `for` at that line whose body is a single insert into another map
                    ok = False
                    detail = None
                    if crate == PP:
                        for fn_name, f in pp.fns.items():
                            for node in sx.walk(f['body']):
                                if node.get('k') == 'for' and node.get('l') == c.line:
                                    body = node['body']['stmts']
                                    detail = [sx.render(x)[:60] for x in body]
                                    ok = len(body) == 1 and body[0]['k'] == 'expr' and body[0]['e'].get('k') == 'mcall' and body[0]['e']['m'] == 'insert'
                    r7.inst(key, {'iteration': c.callee.split('::')[-1], 'in': b.name, 'loop_body': detail})
                    if not ok:
                        r7.fail(key, '%s:%s' % (b.file, c.line),
                                '%s iterates a HashMap (%s) and the loop body is not a plain insert into another map: the per-thread random '
                                'iteration order can reach the output' % (b.name, c.callee.split('::')[-1]))
    r7.floor('hash_iteration_sites', nh, 1)
    return [r5, r7]


def run(ctx):
    return s1_s2(ctx) + s3_s4(ctx) + s5_s7(ctx)


# ------------------------------------------------------------------------- S5 over the dependency closure (thorough tier)
DEP_STATIC_OK = [
    (r'^memchr::.*::FN$', r'Atomic', 'memchr: idempotent CPU-feature dispatch cache (every thread computes and stores the same function pointer)'),
]


def s5_deps(ctx):
    """Statics and process-global effects of every non-proc-macro crate linked into a user of sv-parser."""
    r = RuleResult('S5d', 'no shared mutable state / process-global effect in the runtime dependency closure')
    facts = ctx.facts.mir_deps()
    m = Mir(facts)
    r.inst('closure', {'crates': sorted(facts)})
    for s in m.statics:
        ok = s['thread_local'] or (not s['mut'] and s['freeze'])
        why = None
        if not ok:
            for cp, tp, reason in DEP_STATIC_OK:
                if re.match(cp, s['path']) and re.search(tp, s['ty']):
                    ok, why = True, reason
        r.inst('static:' + s['path'], {'static': s['path'], 'ty': s['ty'][:60], 'thread_local': s['thread_local'], 'allowed_because': why}
               if (why or s['thread_local']) else None)
        if not ok:
            r.fail('%s:shared-static:%s' % (s['crate'], s['path']), '%s:%s' % (s['file'], s['line']),
                   'dependency static %s: %s is shared between threads and mutable (mut=%s, interior mutability=%s) and not in the audited '
                   'allow-list' % (s['path'], s['ty'], s['mut'], not s['freeze']))
    n = 0
    for crate, bodies in m.by_crate.items():
        for b in bodies:
            for c in b.calls:
                n += 1
                if c.callee is None:
                    continue
                for pat, why in FORBIDDEN_CALLS[:6]:
                    if re.match(pat, c.callee):
                        r.fail('%s:%s:global-effect:%s' % (crate, b.name, c.callee), '%s:%s' % (b.file, c.line), '%s calls %s, which %s' % (b.name, c.callee, why))
    r.counts['call_sites_scanned'] = n
    r.floor('runtime_crates', len(facts), 12)
    r.floor('call_sites_scanned', n, 60000)
    return r
