"""Preprocessor rules X1-X3, X5-X7 (E1 over sv-parser-pp/src/preprocess.rs)."""
from vlib import sx
from vlib.ppmodel import PPModel, CRATE, FILE
from vlib.report import RuleResult


def model(ctx):
    if not hasattr(ctx, '_pp'):
        ctx._pp = PPModel(ctx.syn)
    return ctx._pp


def sq(e):
    return sx.render(e).replace(' ', '')


def table_var(pp):
    """role: the define table = second component of the loop function's final Ok((out, table))"""
    tail = pp.loop_fn['body']['stmts'][-1]
    e = tail.get('e', {})
    if sx.is_call(e, 'Ok') and e['args'] and e['args'][0].get('k') == 'tuple' and len(e['args'][0]['e']) == 2 \
            and sx.is_path(e['args'][0]['e'][1]):
        return e['args'][0]['e'][1]['p']
    return 'defines'


def stmts_with_scope(block, chain=()):
    """Yield (chain, stmts, i, stmt) for every statement at any depth; chain = tuple of (stmts, i) of the
    enclosing statements, outermost first."""
    stmts = block['stmts']
    for i, st in enumerate(stmts):
        yield chain, stmts, i, st
        here = chain + ((stmts, i),)
        for sub in sub_blocks(st):
            yield from stmts_with_scope(sub, here)


def sub_blocks(node):
    """blocks directly nested in a statement/expression (not crossing another block)"""
    out = []

    def rec(n):
        if isinstance(n, dict):
            if n.get('k') == 'block':
                out.append(n)
                return
            for k, v in n.items():
                if k in ('l', 'col', 'el'):
                    continue
                rec(v)
        elif isinstance(n, list):
            for x in n:
                rec(x)
    for k, v in node.items():
        if k in ('l', 'col', 'el'):
            continue
        rec(v)
    return out


def resolve_let(chain, stmts, i, name):
    """closest preceding `let name` in the enclosing scopes; returns (stmt, depth) or (None, None)"""
    scopes = list(chain) + [(stmts, i)]
    for d in range(len(scopes) - 1, -1, -1):
        ss, upto = scopes[d]
        for st in reversed(ss[:upto]):
            if st['k'] == 'let' and name in [x for x in sx.pat_idents(st['pat']) if x]:
                return st, d
    return None, None


def _field_aliases(scope_node, loc):
    """locals bound exactly once (in scope_node) to `loc.offset` / `loc.len`: {name: 'loc.offset'}"""
    seen = {}
    for n in sx.walk(scope_node):
        if n.get('k') == 'let' and 'init' in n and n.get('pat', {}).get('k') == 'ident':
            seen.setdefault(n['pat']['n'], []).append(sq(n['init']))
    return {k: v[0] for k, v in seen.items() if len(v) == 1 and v[0] in ('%s.offset' % loc, '%s.len' % loc)}


def is_span_of(e, loc, aliases=None):
    """e == Range::new(loc.offset, loc.offset + loc.len)   (modulo locals that merely name loc.offset / loc.len)"""
    if not (sx.is_call(e) and e['f']['p'] == 'Range::new' and len(e['args']) == 2):
        return False
    a, b = sq(e['args'][0]), sq(e['args'][1])
    if aliases:
        import re as _re
        for k_, v_ in aliases.items():
            a = _re.sub(r'(?<![\w.])%s(?![\w(])' % _re.escape(k_), v_, a)
            b = _re.sub(r'(?<![\w.])%s(?![\w(])' % _re.escape(k_), v_, b)
    return a == '%s.offset' % loc and b in ('(%s.offset+%s.len)' % (loc, loc), '(%s.len+%s.offset)' % (loc, loc))


def push_sites(pp):
    """every statement `OUT.push(..)` of the loop function with its scope chain; plus pushes that are not
    plain statements (unmodelled)."""
    sites = []
    direct = set()
    for chain, stmts, i, st in stmts_with_scope(pp.loop_fn['body']):
        if st['k'] == 'expr' and st['e'].get('k') == 'mcall' and st['e']['m'] == 'push' \
                and sx.is_path(st['e']['recv'], pp.out_var) and len(st['e']['args']) == 2:
            sites.append((chain, stmts, i, st['e']))
            direct.add(id(st['e']))
    stray = [n for n in pp.pushes(pp.loop_fn['body']) if id(n) not in direct]
    return sites, stray


def arm_of_line(pp, line):
    for a in pp.arms:
        if a.line <= line <= a.end:
            return a
    return None


_PP_METHODS = [{}]


def _len_kind(e, depth=0):
    """what a length expression over the output text measures: 'bytes' (`self.text.len()`), 'chars' (`self.text.chars().count()`),
    through private zero-argument methods of the output type; None if not recognised"""
    t = sq(e)
    if t in ('self.text.len()', 'self.text.as_bytes().len()', 'self.text.as_str().len()'):
        return 'bytes'
    if t in ('self.text.chars().count()', 'self.text.as_str().chars().count()', 'self.text.char_indices().count()'):
        return 'chars'
    if isinstance(e, dict) and e.get('k') == 'mcall' and not e['args'] and sx.is_path(e['recv'], 'self') and depth < 3:
        for (ty, name), m in _PP_METHODS[0].items():
            if name == e['m'] and m.get('body'):
                st = m['body']['stmts']
                if len(st) == 1 and st[0]['k'] == 'expr' and not st[0].get('semi'):
                    return _len_kind(st[0]['e'], depth + 1)
    return None


def _len_lets(m, kind='bytes'):
    """top-level `let v = <length of self.text>;` statements (measured in `kind`) with their statement index"""
    out = {}
    for i, st in enumerate(m['body']['stmts']):
        if st['k'] == 'let' and 'init' in st and st['pat'].get('k') == 'ident' and _len_kind(st['init']) == kind:
            out[st['pat']['n']] = i
    return out


def _append_index(m, what):
    for i, st in enumerate(m['body']['stmts']):
        if st['k'] == 'expr' and st['e'].get('k') == 'mcall' and st['e']['m'] == 'push_str' and sq(st['e']['recv']) == 'self.text' \
                and sq(st['e']['args'][0]) in what:
            return i
    return None


def judge_push(pm):
    pn = [sx.pat_idents(p_['pat'])[0] for p_ in pm['sig']['params'] if p_.get('k') == 'typed']
    t = pn[0] if pn else 's'
    lens = _len_lets(pm)
    ai = _append_index(pm, (t, '&' + t))
    if ai is None:
        return 'undecided', 'the append of the text (`self.text.push_str(%s)`) was not found as a plain statement' % t, t
    before = {v for v, i in lens.items() if i < ai}
    after = {v for v, i in lens.items() if i > ai}
    keys = [n for n in sx.walk(pm['body']) if sx.is_call(n) and n['f']['p'] == 'Range::new' and len(n['args']) == 2]
    inserts = [n for n in sx.walk(pm['body']) if n.get('k') == 'mcall' and n['m'] == 'insert' and sq(n['recv']) == 'self.origins']
    if not inserts:
        return 'wrong', 'no insertion into the origin map', t
    if len(inserts) != 1 or len(keys) != 1:
        return 'undecided', '%d insertions / %d Range::new calls' % (len(inserts), len(keys)), t
    A, B = sq(keys[0]['args'][0]), sq(keys[0]['args'][1])
    charl = _len_lets(pm, 'chars')
    if A in charl or B in charl or any(('(%s+' % c_) in B or ('+%s)' % c_) in B for c_ in charl):
        return 'wrong', 'the key (%s, %s) is computed from a CHARACTER count of the text emitted so far; the text and all offsets are in bytes' % (A, B), t
    key_line = keys[0].get('l', 0)
    ap_line = pm['body']['stmts'][ai].get('l', 0)
    okA = A in before
    okB = any(B in ('(%s+%s.len())' % (a_, t), '(%s.len()+%s)' % (t, a_)) for a_ in before) or B in after or (B == 'self.text.len()' and key_line > ap_line)
    # the inserted key is that range
    karg = inserts[0]['args'][0]
    same = karg is keys[0]
    if sx.is_path(karg):
        kst = [st_ for st_ in pm['body']['stmts'] if st_['k'] == 'let' and karg['p'] in sx.pat_idents(st_['pat'])]
        same = bool(kst) and kst[-1].get('init') is keys[0]
    if okA and okB and same:
        return 'ok', 'key = Range::new(%s, %s)' % (A, B), t
    if A in after or (A == 'self.text.len()' and key_line > ap_line):
        return 'wrong', 'the key begins at the text length AFTER the append (%s)' % A, t
    if B == A:
        return 'wrong', 'the key is the empty range (%s, %s)' % (A, B), t
    if okA and B in before:
        return 'wrong', 'the key ends at a length taken before the append (%s)' % B, t
    # what the end of the key derives from: only the text length before the append and the appended text may enter
    deps = {}
    for n in sx.walk(pm['body']):
        if n.get('k') == 'let' and n.get('pat', {}).get('k') == 'ident' and 'init' in n:
            deps.setdefault(n['pat']['n'], set()).update(x['p'] for x in sx.walk(n['init']) if x.get('k') == 'path')
    roots = {x['p'] for x in sx.walk(keys[0]['args'][1]) if x.get('k') == 'path'}
    changed = True
    while changed:
        changed = False
        for v in list(roots):
            if v in deps and not deps[v] <= roots:
                roots |= deps[v]
                changed = True
    # measured in bytes: the text offsets are byte offsets, a length in characters is shorter for non-ASCII text
    btxt = sq(keys[0]['args'][1])
    char_len = [n for n in sx.walk(pm['body']) if n.get('k') == 'mcall' and n['m'] in ('count', 'width') and 'chars()' in sq(n['recv'])]
    if char_len and any(v_ in roots or 'chars()' in btxt for v_ in [x_['pat']['n'] for x_ in sx.walk(pm['body']) if x_.get('k') == 'let' and x_.get('pat', {}).get('k') == 'ident' and 'init' in x_
                                                                   and any(z is char_len[0] for z in sx.walk(x_['init']))] + ['\0']):
        return 'wrong', ('the end of the key (%s) is computed from a CHARACTER count of the appended text; the text and all offsets are in bytes, so for non-ASCII text the '
                         'recorded segment is shorter than what was appended and its last bytes have no origin' % B), t
    foreign = sorted(r_ for r_ in roots if r_ in pn and r_ != t)
    if foreign:
        return 'wrong', ('the end of the key (%s) depends on the parameter `%s`, not only on the length of the appended text: the recorded segment can be shorter '
                         '(bytes without origin) or longer (overlap with the next segment) than the text that was appended' % (B, foreign[0])), t
    return 'undecided', 'key Range::new(%s, %s) is not in a recognised form' % (A, B), t


_PP_FNS = [{}]


def judge_merge(mm):
    opn = [sx.pat_idents(p_['pat'])[0] for p_ in mm['sig']['params'] if p_.get('k') == 'typed']
    oth = opn[0] if opn else 'other'
    lens = _len_lets(mm)
    # the appended text: other.text or a local destructured from other
    text_names = {'&%s.text' % oth}
    origins_names = {'%s.origins' % oth, '%s.origins.into_iter()' % oth}
    for st in mm['body']['stmts']:
        if st['k'] == 'let' and 'init' in st and st['pat'].get('k') == 'struct' and sq(st['init']) == oth:
            for f in st['pat']['fields']:
                nm = sx.pat_idents(f['p'])
                if f['n'] == 'text' and nm:
                    text_names |= {'&' + nm[0], nm[0] + '.as_str()'}
                if f['n'] == 'origins' and nm:
                    origins_names |= {nm[0], nm[0] + '.into_iter()'}
    ai = _append_index(mm, text_names)
    if ai is None:
        return 'undecided', 'the append of the included text was not found as a plain statement'
    before = {v for v, i in lens.items() if i < ai}
    after = {v for v, i in lens.items() if i > ai}
    fors = [n for n in sx.walk(mm['body']) if n.get('k') == 'for']
    if len(fors) != 1 or sq(fors[0]['e']) not in origins_names:
        return 'undecided', 'loop over the included origin map not recognised'
    ids_ = [x for x in sx.pat_idents(fors[0]['pat']) if x]
    if len(ids_) != 2:
        return 'undecided', 'loop pattern'
    kv, ov = ids_
    offs = [n for n in sx.walk(fors[0]['body']) if n.get('k') == 'mcall' and n['m'] == 'offset' and len(n['args']) == 1]
    ins = [n for n in sx.walk(fors[0]['body']) if n.get('k') == 'mcall' and n['m'] == 'insert' and sq(n['recv']) == 'self.origins']
    if not ins:
        return 'wrong', 'the re-based entries are not inserted'
    shifted = {sq(n['recv']): sq(n['args'][0]) for n in offs}
    charl = _len_lets(mm, 'chars')
    if any(v in charl for v in shifted.values()):
        return 'wrong', ('the included entries are shifted by a CHARACTER count of the text emitted so far (`%s`); the text and all offsets are in bytes, so after '
                         'non-ASCII text the included ranges land too low, overlap the parent\'s last segment and replace it in the map' % sorted(v for v in shifted.values() if v in charl)[0])
    if any(v in after for v in shifted.values()):
        return 'wrong', 'entries are shifted by the text length AFTER the append'
    if kv in shifted and ('%s.range' % ov) in shifted and all(v in before for v in shifted.values()) and len(ins) == 1 \
            and [sq(x) for x in ins[0]['args']] == [kv, ov]:
        return 'ok', 'keys and origin ranges shifted by %s' % sorted(set(shifted.values()))
    if (kv in shifted) != (('%s.range' % ov) in shifted):
        return 'wrong', 'only one of key / Origin.range is shifted (%s)' % sorted(shifted)
    if not shifted:
        args_ = ins[0]['args'] if len(ins) == 1 else []
        if [sq(x) for x in args_] == [kv, ov]:
            return 'wrong', 'the included entries are not shifted at all'
        # shifting delegated to private helpers: helper(value, shift) whose body offsets its first parameter (or its .range) by its second

        def helper_shifts(e, want_range, depth=0):
            if not (sx.is_call(e) and e['f']['p'] in _PP_FNS[0] and len(e['args']) == 2 and depth < 3):
                return None
            h = _PP_FNS[0][e['f']['p']]
            ps = [sx.pat_idents(q['pat'])[0] for q in h['sig']['params'] if q.get('k') == 'typed']
            if len(ps) != 2:
                return None
            for n in sx.walk(h['body']):
                if n.get('k') == 'mcall' and n['m'] == 'offset' and len(n['args']) == 1 and sq(n['args'][0]) == ps[1]:
                    if sq(n['recv']) in ((ps[0] + '.range',) if want_range else (ps[0],)):
                        return sq(e['args'][1])
                if sx.is_call(n) and n['f']['p'] in _PP_FNS[0] and len(n['args']) == 2 and sq(n['args'][1]) == ps[1]:
                    a0 = sq(n['args'][0])
                    if a0 == (ps[0] + '.range' if want_range else ps[0]) and helper_shifts(n, False, depth + 1) is not None:
                        return sq(e['args'][1])
            return None
        if len(args_) == 2:
            s1 = helper_shifts(args_[0], False) if sq(sx.strip_ref(args_[0]['args'][0]) if sx.is_call(args_[0]) and args_[0]['args'] else {}) == kv else None
            s2 = helper_shifts(args_[1], True) if sq(sx.strip_ref(args_[1]['args'][0]) if sx.is_call(args_[1]) and args_[1]['args'] else {}) == ov else None
            if s1 is not None and s2 is not None:
                if s1 in after or s2 in after:
                    return 'wrong', 'entries are shifted by the text length AFTER the append'
                if s1 in before and s2 in before:
                    return 'ok', 'keys and origin ranges shifted by %s through helpers' % sorted({s1, s2})
        return 'undecided', 'how the included entries are shifted is not recognised'
    return 'undecided', 'shift pattern %s not recognised' % shifted


def x1_x3(ctx):
    pp = model(ctx)
    r1 = RuleResult('X1', 'every emission site records the source range of exactly the text it copies, under the file being read')
    r3 = RuleResult('X3', 'only new/push/merge write the output and its origin map; synthesised text is the only origin-less text')
    r2 = RuleResult('X2', 'origin-map keys are non-empty ranges')
    for p in pp.problems:
        r1.fail('anchor:' + p, pp.where(1), 'preprocessor model: %s (fail closed)' % p)
    if pp.problems:
        return [r1, r2, r3]
    text_param = pp.params[0]
    path_param = 'path'
    # must-pass-through: every successful exit of the event-loop function lies behind the call of the preprocessor's own parser.  That
    # parse is what rejects preprocessor-level lexical faults (unterminated string / block comment, stray backslash) as Error::Preprocess,
    # and what the emitted segments are cut from; a "nothing to do" shortcut in front of it hands such text on unscanned
    from vlib import paths as _paths
    scans = [n for n in sx.walk(pp.loop_fn['body']) if n.get('k') == 'call' and any(z.get('k') == 'path' and z['p'].split('::')[-1] == 'pp_parser' for z in sx.walk(n.get('f', {})))]
    scans += [n for n in sx.walk(pp.loop_fn['body']) if n.get('k') == 'call' and sx.is_path(n['f']) and n['f']['p'].split('::')[-1] == 'pp_parser']
    r1.inst('scan-dominates-exits', {'pp_parser_calls': len(scans)})
    if scans:
        exits_ = _paths.exits_avoiding(pp.loop_fn['body'], lambda n: any(n is c_ for c_ in scans))
        oks_ = [e_ for e_ in exits_ if sx.is_call(e_, 'Ok')]
        if oks_:
            r1.fail('%s:%s:unscanned-exit' % (CRATE, pp.loop_fn['name']), pp.where(oks_[0].get('l') or pp.loop_fn['l']),
                    '%s can return `%s` without having run the preprocessor\'s parser over the text: on that path an unterminated string or block comment or a stray backslash is '
                    'not reported as Error::Preprocess (it reaches the main parser, or the caller, unscanned) and the text is not cut into the segments the origin map is built from'
                    % (pp.loop_fn['name'], sq(oks_[0])[:40]))
    # an arm that expands something AND copies source text behind it (the blanks after a macro usage) copies that text on every path: a
    # `continue` / `return` between the expansion and the copy (a "nothing to emit" shortcut for a macro without body) drops the blanks,
    # and the tokens on both sides of the usage are joined
    for a_ in pp.arms:
        if a_.event != 'Enter' or a_.body.get('k') != 'block':
            continue
        st_ = a_.body['stmts']
        def _copies(n_):
            return any(z.get('k') == 'mcall' and z['m'] == 'push' and sx.is_path(z['recv'], pp.out_var) and z['args'] and
                       sx.strip_ref(z['args'][0]).get('k') == 'mcall' and sx.strip_ref(z['args'][0])['m'] == 'str' for z in sx.walk(n_))
        def _expands(n_):
            return any(sx.is_call(z) and z['f']['p'] in pp.fns and z['f']['p'] != pp.loop_fn['name'] and
                       '(String,' in (pp.fns[z['f']['p']]['sig'].get('rets') or '').replace(' ', '') for z in sx.walk(n_))
        ie_ = [i_ for i_, x_ in enumerate(st_) if _expands(x_)]
        ic_ = [i_ for i_, x_ in enumerate(st_) if _copies(x_) and not _expands(x_)]
        if not ie_ or not ic_ or ic_[-1] <= ie_[0]:
            continue
        r1.inst('copy-after-expansion:%s' % a_.key)
        early_ = [z for x_ in st_[ie_[0]:ic_[-1]] for z in sx.walk_skip(x_, lambda q: q.get('k') == 'closure') if z.get('k') in ('continue', 'return', 'break')
                  and not (z.get('k') == 'return' and isinstance(z.get('e'), dict) and (sx.is_call(z['e'], 'Err') or sq(z['e']).startswith('Err(')))]      # an error exit is `?` written out
        if early_:
            r1.fail('%s:%s:early-exit-before-copy' % (CRATE, a_.key), pp.where(early_[0].get('l') or a_.line),
                    '%s: the handler can leave (`%s`) after the expansion step and before the source text behind the usage (its trailing blanks) is copied: on that path — '
                    'e.g. a macro without body — the blanks are dropped and the tokens around the usage are joined' % (a_.key, early_[0].get('k')))
    sites, stray = push_sites(pp)
    for n in stray:
        r1.fail('%s:push-not-statement' % CRATE, pp.where(n.get('l')), 'a push into the output that is not a plain statement (unmodelled, fail closed)')
    nA = 0
    for chain, stmts, i, call in sites:
        text, origin = call['args']
        arm = arm_of_line(pp, call.get('l'))
        akey = arm.key if arm else 'outside-main-match'
        ordinal = sum(1 for c in sites[:sites.index((chain, stmts, i, call))] if (arm_of_line(pp, c[3].get('l')) or arm) is arm)
        t = sx.strip_ref(text)
        # one emission = one piece of text with one origin: a local that is pushed after further text was appended to it (push_str, +=, insert..)
        # holds text from two places under a single origin, so the appended bytes map to the wrong file / offset (or to none)
        if sx.is_path(t) and arm is not None:
            tv = t['p']
            asm = [n for n in sx.walk(arm.body) if (n.get('l') or 0) <= (call.get('l') or 0) and (
                (n.get('k') == 'mcall' and n['m'] in ('push_str', 'push', 'insert_str', 'insert', 'extend') and sx.is_path(sx.strip_ref(n['recv']), tv)) or
                (n.get('k') in ('assign', 'binary') and str(n.get('op', '')) == '+=' and sx.is_path(n.get('l_', {}), tv)))]
            if asm:
                r1.fail('%s:%s:%d:text-assembled' % (CRATE, akey, ordinal), pp.where(asm[0].get('l') or call.get('l')),
                        '%s: the pushed text `%s` was extended before the push (`%s`): the segment then holds text from two places under the single origin `%s`; the bytes appended '
                        'map to the wrong file / offset, or to none' % (akey, tv, sq(asm[0])[:50], sx.render(origin)[:40]))
        if sx.is_path(t):
            # a local bound once to the copy: `let comment = locate.str(&s);`
            st_loc, _ = resolve_let(chain, stmts, i, t['p'])
            if st_loc is not None and 'init' in st_loc:
                ti = sx.strip_ref(st_loc['init'])
                if ti.get('k') == 'mcall' and ti['m'] == 'str' and sx.is_path(ti['recv']) and len(ti['args']) == 1:
                    t = ti
        if t.get('k') == 'mcall' and t['m'] == 'str' and sx.is_path(t['recv']) and len(t['args']) == 1:
            # class A: copy of source text
            nA += 1
            loc = t['recv']['p']
            key = '%s:%s:%d' % (CRATE, akey, ordinal)
            r1.inst(key, {'arm': akey, 'text': sx.render(text), 'origin': sx.render(origin)[:80]} if nA % 6 == 1 else None)
            src = sx.strip_ref(t['args'][0])
            if not sx.is_path(src, text_param):
                r1.fail(key + ':text-source', pp.where(call.get('l')), '%s: copied text is sliced from `%s`, not from the text being preprocessed (`%s`)' % (akey, sx.render(src), text_param))
            st_s, _ = resolve_let(chain, stmts, i, text_param)
            if st_s is not None:
                r1.fail(key + ':text-shadowed', pp.where(call.get('l')), '%s: `%s` is re-bound before this emission' % (akey, text_param))
            # origin = Some((path.as_ref(), R))
            ok_shape = sx.is_call(origin, 'Some') and origin['args'][0].get('k') == 'tuple' and len(origin['args'][0]['e']) == 2
            if not ok_shape:
                r1.fail(key + ':origin-missing', pp.where(call.get('l')),
                        '%s: text copied from the source is pushed with origin `%s` instead of Some((path, range))' % (akey, sx.render(origin)[:60]))
                continue
            pth, rng = origin['args'][0]['e']
            if sq(pth) not in ('%s.as_ref()' % path_param, path_param, '&' + path_param):
                r1.fail(key + ':origin-path', pp.where(call.get('l')), '%s: origin path is `%s`, not the file being read' % (akey, sx.render(pth)))
            st_p, _ = resolve_let(chain, stmts, i, path_param)
            if st_p is not None:
                r1.fail(key + ':origin-path-shadowed', pp.where(call.get('l')),
                        '%s: `%s` is re-bound (line %s) before this emission: the origin would name another file' % (akey, path_param, st_p.get('l')))
            rexpr = rng
            if sx.is_path(rng):
                st_r, _ = resolve_let(chain, stmts, i, rng['p'])
                rexpr = st_r['init'] if st_r is not None and 'init' in st_r else None
            if rexpr is None or not is_span_of(rexpr, loc, _field_aliases(arm.body, loc) if arm is not None else None):
                r1.fail(key + ':origin-range', pp.where(call.get('l')),
                        '%s: emits `%s` but records origin range `%s`; expected Range::new(%s.offset, %s.offset + %s.len)' %
                        (akey, sx.render(text), sx.render(rexpr)[:80] if rexpr else sx.render(rng), loc, loc, loc),
                        {'arm': akey, 'text': sx.render(text), 'range': sx.render(rexpr) if rexpr else None})
        else:
            # class B: synthesised / expanded text
            key = '%s:%s:synth:%d' % (CRATE, akey, ordinal)
            o = sq(origin)
            r3.inst(key, {'arm': akey, 'text': sx.render(text)[:60], 'origin': sx.render(origin)[:40]})
            if o == 'None':
                # only the position-directive arm may synthesise origin-less text
                if not (arm and arm.kind == 'PositionCompilerDirective'):
                    r3.fail(key + ':none-origin', pp.where(call.get('l')),
                            '%s: text pushed without origin outside the `__FILE__/`__LINE__ arm' % akey)
            elif sx.is_path(origin):
                # must be the origin returned by the macro resolver for this usage
                ok = False
                for sc, up in list(chain) + [(stmts, i)]:
                    pass
                # find the enclosing `if let Some((text, origin, ..)) = resolver(..)?`
                enclosing_ok = False
                for ss, idx in chain:
                    st = ss[idx]
                    for n in sx.walk_skip(st, lambda x: x.get('k') == 'block'):
                        if n.get('k') == 'let' and 'e' in n and origin['p'] in [x for x in sx.pat_idents(n['pat']) if x]:
                            src = n['e']
                            if src.get('k') == 'try':
                                src = src['e']
                            if sx.is_call(src) and src['f']['p'] in pp.fns:
                                ids = [x for x in sx.pat_idents(n['pat'])]
                                tv = sx.strip_ref(text)
                                if sx.is_path(tv) and tv['p'] in ids and ids.index(tv['p']) < ids.index(origin['p']):
                                    enclosing_ok = src['f']['p']
                            # the same binding written as a match arm: `match resolver(..) { Ok(Some((text, origin, ..))) => .. }`
                        if n.get('k') == 'match':
                            src = n['e']
                            if src.get('k') == 'try':
                                src = src['e']
                            if sx.is_path(src):
                                # `let resolved = resolver(..); match resolved {..}`: bound exactly once in the arm
                                lets_ = [z for ss2, _ in chain for z in ss2 if z.get('k') == 'let' and z['pat'].get('k') == 'ident' and z['pat']['n'] == src['p'] and 'init' in z]
                                if len(lets_) == 1:
                                    src = lets_[0]['init']
                            if sx.is_call(src) and src['f']['p'] in pp.fns:
                                for arm_ in n['arms']:
                                    ids = [x for x in sx.pat_idents(arm_['pat'])]
                                    tv = sx.strip_ref(text)
                                    if origin['p'] in ids and sx.is_path(tv) and tv['p'] in ids and ids.index(tv['p']) < ids.index(origin['p']) \
                                            and any(z is call for z in sx.walk(arm_['body'])):
                                        enclosing_ok = src['f']['p']
                st_o, _ = resolve_let(chain, stmts, i, origin['p'])
                rebound = False
                if st_o is not None:
                    # re-bound by a `let` between the resolver call and the push: no longer the resolver's value
                    enclosing_ok = False
                    rebound = True
                st_t2, _ = resolve_let(chain, stmts, i, sx.strip_ref(text)['p']) if sx.is_path(sx.strip_ref(text)) else (None, None)
                if st_t2 is not None:
                    enclosing_ok = False
                    rebound = True
                if not enclosing_ok and rebound:
                    r3.fail(key + ':origin-source', pp.where(call.get('l')),
                            '%s: pushes `%s` with origin variable `%s` that is not the (text, origin, ..) pair returned by the macro resolver' % (akey, sx.render(text), origin['p']))
                elif not enclosing_ok:
                    r3.undecided(key + ':origin-source', pp.where(call.get('l')),
                                 '%s: pushes `%s` with origin variable `%s`; how that variable is bound from the macro resolver\'s result is not recognised' % (akey, sx.render(text), origin['p']))
                else:
                    # the resolver returns the definition's DefineText.origin
                    rf = pp.fns[enclosing_ok]
                    rets = [n for n in sx.walk(rf['body']) if sx.is_call(n, 'Some') and n['args'] and n['args'][0].get('k') == 'tuple'
                            and len(n['args'][0]['e']) == 3]
                    def _def_origin(e_, depth=0):
                        """'ok' if e_ is <D>.origin(.clone()) with D bound to the `text` field of the define; 'wrong' if it has a fallback; None if unknown"""
                        while e_.get('k') == 'mcall' and e_['m'] in ('clone', 'to_owned') and not e_['args']:
                            e_ = e_['recv']
                        if e_.get('k') == 'mcall' and e_['m'] in ('or', 'or_else', 'unwrap_or', 'unwrap_or_else', 'map', 'and_then', 'xor', 'filter'):
                            return 'wrong'
                        if e_.get('k') in ('if', 'match') or sx.is_call(e_, 'Some'):
                            return 'wrong'
                        if e_.get('k') == 'field' and e_.get('m') == 'origin' and sx.is_path(e_['e']):
                            d_ = e_['e']['p']
                            for n_ in sx.walk(rf['body']):
                                srcs_ = []
                                if n_.get('k') == 'let' and d_ in [x for x in sx.pat_idents(n_['pat']) if x]:
                                    srcs_.append(n_.get('init') or n_.get('e'))
                                if n_.get('k') == 'if' and n_['c'].get('k') == 'let' and d_ in [x for x in sx.pat_idents(n_['c']['pat']) if x]:
                                    srcs_.append(n_['c']['e'])
                                if n_.get('k') == 'match' and any(d_ in [x for x in sx.pat_idents(a_['pat']) if x] for a_ in n_['arms']):
                                    srcs_.append(n_['e'])
                                for s_ in srcs_:
                                    if isinstance(s_, dict) and any(z.get('k') == 'field' and z.get('m') == 'text' for z in sx.walk(s_)):
                                        return 'ok'
                            return None
                        if sx.is_path(e_) and depth < 2:
                            ls_ = [n_ for n_ in sx.walk(rf['body']) if n_.get('k') == 'let' and 'init' in n_ and n_['pat'].get('k') == 'ident' and n_['pat']['n'] == e_['p']]
                            if len(ls_) == 1:
                                return _def_origin(ls_[0]['init'], depth + 1)
                        return None
                    verdicts_ = [_def_origin(n['args'][0]['e'][1]) for n in rets]
                    good = [v_ for v_ in verdicts_ if v_ == 'ok']
                    r3.inst('%s:%s:returns-definition-origin' % (CRATE, enclosing_ok))
                    if len(rets) == 1 and verdicts_ == [None]:
                        r3.undecided('%s:%s:origin-of-expansion' % (CRATE, enclosing_ok), pp.where(rf['l']), 'how the origin handed back by %s derives from the definition is not recognised (`%s`)' % (enclosing_ok, sq(rets[0]['args'][0]['e'][1])[:40]))
                    elif len(rets) != 1 or len(good) != 1:
                        r3.fail('%s:%s:origin-of-expansion' % (CRATE, enclosing_ok), pp.where(rf['l']),
                                '%s must return the origin recorded with the macro definition (DefineText.origin) as the origin of the expansion' % enclosing_ok)
            elif sx.is_call(origin, 'Some') and origin['args'][0].get('k') == 'tuple' and len(origin['args'][0]['e']) == 2 \
                    and sx.is_path(sx.strip_ref(text)):
                # separator standing for a removed node: TEXT is a local holding string literals only, the origin is
                # Some((path, Range::new(L.offset, L.offset + TEXT.len()))) for the Locate L of the removed node
                tv = sx.strip_ref(text)['p']
                st_t, _ = resolve_let(chain, stmts, i, tv)
                def only_literal(e_):
                    if sx.lit_str(e_):
                        return True
                    if e_.get('k') == 'block' and len(e_['stmts']) == 1 and e_['stmts'][0]['k'] == 'expr' and not e_['stmts'][0].get('semi'):
                        return only_literal(e_['stmts'][0]['e'])
                    if e_.get('k') == 'if' and 'e' in e_:
                        return only_literal(e_['t']) and only_literal(e_['e'])
                    return False
                lits_only = st_t is not None and 'init' in st_t and only_literal(st_t['init'])
                pth, rng = origin['args'][0]['e']
                rexpr = rng
                if sx.is_path(rng):
                    st_r, _ = resolve_let(chain, stmts, i, rng['p'])
                    rexpr = st_r['init'] if st_r is not None and 'init' in st_r else None
                okr = False
                if rexpr is not None and sx.is_call(rexpr) and rexpr['f']['p'] == 'Range::new' and len(rexpr['args']) == 2:
                    a0, b0 = sq(rexpr['args'][0]), sq(rexpr['args'][1])
                    m_ = a0.endswith('.offset')
                    okr = m_ and b0 in ('(%s+%s.len())' % (a0, tv), '(%s.len()+%s)' % (tv, a0))
                if not (lits_only and okr and sq(pth) == 'path.as_ref()') and (not lits_only or not okr):
                    if lits_only and rexpr is not None and sx.is_call(rexpr) and not okr and '.len' in sq(rexpr) and tv not in sq(rexpr):
                        pass
                    else:
                        r3.undecided(key + ':separator-form', pp.where(call.get('l')),
                                     '%s: synthesised text `%s` with origin `%s`: not recognised as a literal separator mapped to the start of the node it replaces' %
                                     (akey, sx.render(text), sx.render(origin)[:80]))
                        continue
                if not (lits_only and okr and sq(pth) == 'path.as_ref()'):
                    r3.fail(key + ':separator-form', pp.where(call.get('l')),
                            '%s: synthesised text `%s` with origin `%s` is not a literal separator mapped to the start of the node it replaces' %
                            (akey, sx.render(text), sx.render(origin)[:80]))
            else:
                r3.fail(key + ':origin-form', pp.where(call.get('l')), '%s: unmodelled origin expression `%s` (fail closed)' % (akey, sx.render(origin)[:60]))
    # emission helpers: a private function that receives the output (`&mut OUT`), a Locate, the text and the path and pushes the copy
    for hname, h in sorted(pp.fns.items()):
        if hname == pp.loop_fn['name']:
            continue
        hps = [sx.pat_idents(q['pat'])[0] for q in h['sig']['params'] if q.get('k') == 'typed']
        hpush = [st_['e'] for st_ in h['body']['stmts'] if st_['k'] == 'expr' and st_['e'].get('k') == 'mcall' and st_['e']['m'] == 'push'
                 and sx.is_path(st_['e']['recv']) and st_['e']['recv']['p'] in hps and len(st_['e']['args']) == 2]
        calls_ = [n for n in sx.walk(pp.loop_fn['body']) if sx.is_call(n) and n['f']['p'] == hname and len(n['args']) == len(hps)]
        if len(hpush) != 1 or not calls_:
            continue
        outp = hpush[0]['recv']['p']
        if not all(sq(sx.strip_ref(c_['args'][hps.index(outp)])) == pp.out_var for c_ in calls_):
            continue
        text_, origin_ = hpush[0]['args']
        t_ = sx.strip_ref(text_)
        hkey = '%s:helper:%s' % (CRATE, hname)
        if not (t_.get('k') == 'mcall' and t_['m'] == 'str' and sx.is_path(t_['recv']) and len(t_['args']) == 1 and sx.is_path(sx.strip_ref(t_['args'][0]))):
            r1.undecided(hkey + ':shape', pp.where(h['l']), '%s pushes `%s`: not a copy `LOCATE.str(&TEXT)`' % (hname, sq(text_)[:40]))
            continue
        locp, textp = t_['recv']['p'], sx.strip_ref(t_['args'][0])['p']
        ok_shape = sx.is_call(origin_, 'Some') and origin_['args'][0].get('k') == 'tuple' and len(origin_['args'][0]['e']) == 2
        r1.inst(hkey, {'helper': hname, 'text': sq(text_), 'origin': sq(origin_)[:80], 'call_sites': len(calls_)})
        if not ok_shape:
            r1.fail(hkey + ':origin-missing', pp.where(hpush[0].get('l')), '%s: text copied from the source is pushed with origin `%s` instead of Some((path, range))' % (hname, sq(origin_)[:60]))
            continue
        pth_, rng_ = origin_['args'][0]['e']
        pathp = sx.strip_ref(pth_['recv'] if pth_.get('k') == 'mcall' and pth_['m'] == 'as_ref' else pth_)
        rexpr_ = rng_
        if sx.is_path(rng_):
            ls_ = [st_ for st_ in h['body']['stmts'] if st_['k'] == 'let' and rng_['p'] in sx.pat_idents(st_['pat']) and 'init' in st_]
            rexpr_ = ls_[-1]['init'] if ls_ else None
        if rexpr_ is None or not is_span_of(rexpr_, locp, _field_aliases(h['body'], locp)):
            r1.fail(hkey + ':origin-range', pp.where(hpush[0].get('l')), '%s: emits `%s` but records origin range `%s`; expected Range::new(%s.offset, %s.offset + %s.len)' %
                    (hname, sq(text_), sq(rexpr_)[:60] if rexpr_ else sq(rng_), locp, locp, locp))
        for c_ in calls_:
            nA += 1
            a_text = sq(sx.strip_ref(c_['args'][hps.index(textp)])) if textp in hps else None
            a_path = sq(c_['args'][hps.index(pathp['p'])]) if sx.is_path(pathp) and pathp['p'] in hps else None
            arm_ = arm_of_line(pp, c_.get('l'))
            if a_text != text_param:
                r1.fail('%s:%s:text-source' % (hkey, arm_.key if arm_ else '-'), pp.where(c_.get('l')), '%s is given `%s` as the text to copy from, not the text being preprocessed (`%s`)' % (hname, a_text, text_param))
            if a_path not in ('%s.as_ref()' % path_param, path_param, '&' + path_param):
                r1.fail('%s:%s:origin-path' % (hkey, arm_.key if arm_ else '-'), pp.where(c_.get('l')), '%s is given `%s` as the origin path, not the file being read' % (hname, a_path))
    r1.floor('source_copy_emission_sites', nA, 12)

    # ---- X3 writers: fields of the output struct are assigned only inside its own impl
    out_ty = 'PreprocessedText'
    st = pp.structs.get(out_ty)
    r3.exactly('PreprocessedText_struct', 1 if st else 0, 1)
    if st:
        fields = [f['n'] for f in st['fields']]
        for f in st['fields']:
            r3.inst('field-private:' + f['n'])
            if f['vis'] != '':
                r3.fail('%s:%s:field-visible:%s' % (CRATE, out_ty, f['n']), pp.where(st['l']),
                        '%s.%s is visible outside the module (%s): the text and its origin map could be changed independently' % (out_ty, f['n'], f['vis']))
        writers = {}
        for (ty, name), m in pp.methods.items():
            if ty != out_ty:
                continue
            muts = m['sig']['params'] and m['sig']['params'][0].get('k') == 'self' and m['sig']['params'][0].get('mut')
            ctor = any(n.get('k') == 'struct' and n['p'] == out_ty for n in sx.walk(m['body']))
            if muts or ctor:
                writers[name] = m
        r3.inst('writers', {'writers': sorted(writers)})
        for name, m in writers.items():
            if m['vis'] != '':
                r3.fail('%s:%s:writer-visible:%s' % (CRATE, out_ty, name), pp.where(m['l']),
                        '%s::%s can modify the output and is %s: code outside the preprocessor could write text without origin' % (out_ty, name, m['vis']))
        if sorted(writers) != ['merge', 'new', 'push']:
            r3.fail('%s:%s:writers' % (CRATE, out_ty), pp.where(st['l']), 'writers of %s are %s; expected new/push/merge' % (out_ty, sorted(writers)))
        # push: key range = [len_before, len_before + s.len())   — tri-state (OK / WRONG / UNDECIDED)
        pm = writers.get('push')
        if pm:
            _PP_METHODS[0] = pp.methods
            verdict, why, tparam = judge_push(pm)
            r3.inst('push-keys-tile', {'verdict': verdict, 'why': why})
            if verdict == 'wrong':
                r3.fail('%s:%s:push-key' % (CRATE, out_ty), pp.where(pm['l']),
                        'push must key the new segment by [text length before the append, text length after it) and insert it once: %s' % why)
            elif verdict == 'undecided':
                r3.undecided('%s:%s:push-key' % (CRATE, out_ty), pp.where(pm['l']), 'push: %s' % why)
            # X2: empty strings must not create a key
            stm = pm['body']['stmts']
            early = any(s_['k'] == 'expr' and s_['e'].get('k') == 'if' and sq(s_['e']['c']) in ('%s.is_empty()' % tparam, '(%s.len()==0)' % tparam)
                        and any(n.get('k') == 'return' for n in sx.walk(s_['e']['t']))
                        for s_ in stm[:2])
            r2.inst('push-empty-guard', {'push_returns_early_on_empty': early})
            if not early:
                # every call site's text must be provably non-empty
                for chain, stmts, i, call in sites:
                    text = sx.strip_ref(call['args'][0])
                    arm = arm_of_line(pp, call.get('l'))
                    akey = arm.key if arm else '-'
                    nonempty = False
                    if text.get('k') == 'mcall' and text['m'] == 'str':
                        nonempty = True   # Locate of a node that must contain a leaf; leaves are non-empty (G2/G9)
                    elif text.get('k') == 'mcall' and text['m'] == 'replace' and sx.is_path(text['recv']):
                        nonempty = True   # replacement of a marker inside a non-empty lexeme by a non-empty string
                    r2.inst('site:%s:%s' % (akey, sx.render(text)[:30]))
                    if not nonempty:
                        r2.fail('%s:%s:empty-key:%s' % (CRATE, akey, sx.render(text)[:30]), pp.where(call.get('l')),
                                '%s: `%s` can be the empty string (e.g. a macro expanding to nothing); push then inserts the empty key '
                                '[n,n) which compares Equal to the next segment under Range\'s overlap ordering and replaces it: the '
                                'following bytes lose their origin' % (akey, sx.render(call['args'][0])),
                                {'arm': akey, 'text': sx.render(call['args'][0])})
        mm = writers.get('merge')
        if mm:
            _PP_FNS[0] = pp.fns
            _PP_METHODS[0] = pp.methods
            verdict, why = judge_merge(mm)
            r3.inst('merge-rebases', {'verdict': verdict, 'why': why})
            if verdict == 'wrong':
                r3.fail('%s:%s:merge' % (CRATE, out_ty), pp.where(mm['l']),
                        'merge must shift every key and every Origin.range of the included map by the text length before appending: %s' % why)
            elif verdict == 'undecided':
                r3.undecided('%s:%s:merge' % (CRATE, out_ty), pp.where(mm['l']), 'merge: %s' % why)
    return [r1, r2, r3]


# --------------------------------------------------------------------------- X5 / X6 / X7
def x5_x7(ctx):
    pp = model(ctx)
    r5 = RuleResult('X5', 'every "is this name defined" test asks the define table and the predefined set about the same name')
    r6 = RuleResult('X6', '`ifdef and `ifndef handlers are the same algorithm up to the negation of the first test')
    r7 = RuleResult('X7', 'the skip guard precedes every effect of the event loop')
    if pp.problems:
        for p in pp.problems:
            r5.fail('anchor:' + p, pp.where(1), 'preprocessor model: %s (fail closed)' % p)
        return [r5, r6, r7]
    # predefined-name predicate: the function whose body matches on "__LINE__" / "__FILE__"
    pred = [n for n, f in pp.fns.items() if any(sx.lit_str(x) in ('__LINE__', '__FILE__') for x in sx.walk(f['body']))
            and f['sig']['rets'] == 'bool']
    r5.exactly('predefined_predicate', len(pred), 1)
    pred = pred[0] if pred else None
    # table variable: the HashMap returned as second component
    tests = []
    for n in sx.walk(pp.loop_fn['body']):
        if n.get('k') == 'binary' and n['op'] in ('||', '&&'):
            parts = [n['l_'], n['r']]
            ck = [p for p in parts if 'contains_key' in sq(p)]
            pr = [p for p in parts if pred and pred + '(' in sq(p)]
            # the node that directly combines the two tests: one operand holds the table test, the other the predicate
            if len(ck) == 1 and len(pr) == 1 and ck[0] is not pr[0]:
                tests.append((n, ck[0], pr[0]))
    arms_by_line = lambda l: arm_of_line(pp, l)
    # the pair may live in a private predicate `fn is_known(defines, id) -> bool { defines.contains_key(id) || <pred>(id) }`: a call of it
    # is one definedness test about ONE name (its body is judged once)
    helper_tests = []
    for hname_, h_ in pp.fns.items():
        hb_ = h_['body']['stmts'] if h_.get('body') else []
        if h_ is pp.loop_fn or len(hb_) != 1 or hb_[0]['k'] != 'expr' or hb_[0].get('semi') or h_['sig'].get('rets') != 'bool':
            continue
        e_ = hb_[0]['e']
        if e_.get('k') == 'binary' and e_['op'] in ('||', '&&') and 'contains_key' in sq(e_) and pred and pred + '(' in sq(e_):
            args_ = [sq(sx.strip_ref(x_['args'][0])) for x_ in sx.walk(e_) if (x_.get('k') == 'mcall' and x_['m'] == 'contains_key') or sx.is_call(x_, pred)]
            if len(set(args_)) != 1 or e_['op'] != '||':
                r5.fail('%s:%s:different-names' % (CRATE, hname_), pp.where(h_['l']), '%s: the predicate asks the table and the predefined set about different names, or combines them wrongly (%s)' % (hname_, sq(e_)[:60]))
            for n_ in sx.walk(pp.loop_fn['body']):
                if sx.is_call(n_, hname_):
                    helper_tests.append(n_)
    per_arm = {}
    events_ = sorted([(n.get('l') or 0, 'pair', (n, ck, pr)) for n, ck, pr in tests] + [(n_.get('l') or 0, 'helper', n_) for n_ in helper_tests], key=lambda t_: t_[0])
    for _l, kind_, item_ in events_:
        if kind_ == 'helper':
            a = arms_by_line(item_.get('l'))
            akey = a.key if a else '-'
            per_arm[akey] = per_arm.get(akey, 0) + 1
            r5.inst('%s:%s:%d' % (CRATE, akey, per_arm[akey]), {'arm': akey, 'test': sx.render(item_)[:100]})
            continue
        n, ck, pr = item_
        a = arms_by_line(n.get('l'))
        akey = a.key if a else '-'
        per_arm[akey] = per_arm.get(akey, 0) + 1
        key = '%s:%s:%d' % (CRATE, akey, per_arm[akey])

        def arg_of(e, fname):
            for x in sx.walk(e):
                if x.get('k') == 'mcall' and x['m'] == fname:
                    return sq(sx.strip_ref(x['args'][0]))
                if sx.is_call(x, fname):
                    return sq(sx.strip_ref(x['args'][0]))
            return None
        a1 = arg_of(ck, 'contains_key')
        a2 = arg_of(pr, pred)
        neg1 = ck.get('k') == 'unary' and ck['op'] == '!'
        neg2 = pr.get('k') == 'unary' and pr['op'] == '!'
        r5.inst(key, {'arm': akey, 'test': sx.render(n)[:100]})
        if a1 != a2:
            r5.fail(key + ':different-names', pp.where(n.get('l')),
                    '%s: the define table is asked about `%s` but the predefined-macro set about `%s`' % (akey, a1, a2),
                    {'test': sx.render(n)})
        if (n['op'] == '||' and (neg1 or neg2)) or (n['op'] == '&&' and not (neg1 and neg2)):
            r5.fail(key + ':polarity', pp.where(n.get('l')),
                    '%s: definedness test mixes polarities: %s' % (akey, sx.render(n)[:100]))
    # every contains_key / predicate use must be part of such a pair
    ck_all = [n for n in sx.walk(pp.loop_fn['body']) if n.get('k') == 'mcall' and n['m'] == 'contains_key']
    pr_all = [n for n in sx.walk(pp.loop_fn['body']) if pred and sx.is_call(n, pred)]
    paired_ck = sum(1 for t in tests for x in sx.walk(t[1]) if x.get('k') == 'mcall' and x['m'] == 'contains_key')
    if len(ck_all) != paired_ck:
        r5.fail('%s:unpaired-contains_key' % CRATE, pp.where(pp.loop_fn['l']),
                '%d of %d contains_key tests are not combined with the predefined-macro predicate' % (len(ck_all) - paired_ck, len(ck_all)))
    r5.floor('definedness_tests', len(tests) + len(helper_tests), 4)

    # ---- X6
    cond = [a for a in pp.arms if a.event == 'Enter' and a.kind in ('IfdefDirective', 'IfndefDirective')]
    r6.exactly('conditional_arms', len(cond), 2)
    if len(cond) == 2:
        a = [x for x in cond if x.kind == 'IfdefDirective'][0]
        b = [x for x in cond if x.kind == 'IfndefDirective'][0]

        def norm_body(arm, negate_first):
            stmts = sx.alpha(arm.body, keep=('defines', 'skip_nodes', 'skip', 's', 'path'))['stmts']
            out = []
            first = True
            for st in stmts:
                if first and st['k'] == 'expr' and st['e'].get('k') == 'if' and 'contains_key' in sq(st['e']['c']):
                    first = False
                    c = st['e']['c']
                    if negate_first:
                        # !A && !B  ->  A || B
                        if c.get('k') == 'binary' and c['op'] == '&&' and all(x.get('k') == 'unary' and x['op'] == '!' for x in (c['l_'], c['r'])):
                            c = {'k': 'binary', 'op': '||', 'l_': c['l_']['e'], 'r': c['r']['e']}
                        else:
                            c = {'k': 'unary', 'op': '!', 'e': c}
                    out.append('if %s %s else %s' % (sq(c), sq(st['e']['t']), sq(st['e'].get('e'))))
                else:
                    out.append(sq(st))
            return out
        na, nb = norm_body(a, False), norm_body(b, True)
        r6.inst('ifdef-vs-ifndef', {'statements': len(na)})
        if na != nb:
            diff = [(x, y) for x, y in zip(na, nb) if x != y][:2]
            # a syntactic cross-check: when the two copies are no longer textually parallel each is judged on its own by the
            # chain typestate rule (X15); the difference itself is reported as undecided, not as a violation
            r6.undecided('%s:ifdef-ifndef-differ' % CRATE, pp.where(b.line),
                         'the `ifndef handler is not textually the `ifdef handler with the first test negated (%s); X15 judges each on its own' %
                         (str(diff)[:160] or 'different length'))
        for st_a in na:
            r6.inst('stmt:' + st_a[:40])
    # ---- X7
    r7.exactly('skip_guard', 1 if pp.guard_idx is not None else 0, 1)
    if pp.guard_idx is not None:
        tbl = table_var(pp)

        def effects(st):
            out = []
            for n in sx.walk(st):
                k = n.get('k')
                if k == 'mcall' and n['m'] in ('push', 'merge') and sx.is_path(n['recv'], pp.out_var):
                    out.append('output.' + n['m'])
                elif k == 'mcall' and n['m'] in ('insert', 'remove', 'clear') and sx.is_path(n['recv'], tbl):
                    out.append('defines.' + n['m'])
                elif k == 'assign' and sx.is_path(n['l_'], tbl):
                    out.append('defines = ..')
                elif k == 'return':
                    out.append('return')
                elif k == 'try':
                    out.append('?')
                elif k == 'call' and sx.is_path(n['f']) and n['f']['p'] in pp.fns and n['f']['p'] not in ('identifier', 'get_str', pred or ''):
                    out.append('call ' + n['f']['p'])
            return out
        for i, st in enumerate(pp.loop_stmts):
            eff = effects(st)
            r7.inst('stmt:%d' % i, {'statement': i, 'effects': sorted(set(eff))[:6], 'after_guard': i > pp.guard_idx})
            if i < pp.guard_idx and eff:
                r7.fail('%s:effect-before-guard:%s' % (CRATE, sorted(set(eff))[0]), pp.where(st.get('l')),
                        'loop statement #%d has effects (%s) but stands before `if %s { continue; }`: it would run inside skipped '
                        'branches' % (i, ', '.join(sorted(set(eff))), pp.skip_var))
            if i < pp.guard_idx:
                # only `skip` may be assigned before the guard
                for n in sx.walk(st):
                    if n.get('k') == 'assign' and not sx.is_path(n['l_'], pp.skip_var):
                        r7.fail('%s:write-before-guard:%s' % (CRATE, sq(n['l_'])), pp.where(n.get('l')),
                                '`%s` is assigned before the skip guard' % sq(n['l_']))
        # the guard tests the variable that the Enter/Leave bookkeeping maintains
        bk = pp.loop_stmts[:pp.guard_idx]
        sets = [sq(n) for st in bk for n in sx.walk(st) if n.get('k') == 'assign']
        r7.inst('bookkeeping', {'assignments_before_guard': sets})
        sv = pp.skip_var
        verdict_bk = None
        # form A: match on the event; the Enter arm sets, the Leave arm clears (each under `contains`)
        arm_sets = {}
        for st in bk:
            for m_ in sx.walk(st):
                if m_.get('k') == 'match':
                    for a_ in m_['arms']:
                        pt = sq(a_['pat'])
                        ev_ = 'Enter' if 'NodeEvent::Enter(' in pt else ('Leave' if 'NodeEvent::Leave(' in pt else None)
                        if ev_:
                            arm_sets.setdefault(ev_, []).extend(sq(n) for n in sx.walk(a_['body']) if n.get('k') == 'assign' and sx.is_path(n['l_'], sv))
        if arm_sets.get('Enter') or arm_sets.get('Leave'):
            if arm_sets.get('Enter') == ['%s=true' % sv] and arm_sets.get('Leave') == ['%s=false' % sv]:
                verdict_bk = 'ok'
            elif arm_sets.get('Enter') == ['%s=false' % sv] or arm_sets.get('Leave') == ['%s=true' % sv]:
                verdict_bk = ('wrong', 'the flag is cleared on Enter / set on Leave of a skip-listed node (%s)' % arm_sets)
            elif not arm_sets.get('Leave'):
                verdict_bk = ('wrong', 'the flag is never cleared when a skip-listed node is left: everything after the first discarded branch is skipped')
            elif not arm_sets.get('Enter'):
                verdict_bk = ('wrong', 'the flag is never set when a skip-listed node is entered: discarded branches are processed')
        else:
            # form B: (entering, node) = match event { Enter(x) => (true, x), Leave(x) => (false, x) }; if contains(node) { skip = entering }
            pol = {}
            flagv = None
            for st in bk:
                if st['k'] == 'let' and 'init' in st and st['init'].get('k') == 'match' and st['pat'].get('k') == 'tuple':
                    ids_ = sx.pat_idents(st['pat'])
                    for a_ in st['init']['arms']:
                        pt = sq(a_['pat'])
                        ev_ = 'Enter' if 'NodeEvent::Enter(' in pt else ('Leave' if 'NodeEvent::Leave(' in pt else None)
                        b_ = a_['body']
                        if ev_ and b_.get('k') == 'tuple' and b_['e'] and b_['e'][0].get('k') == 'lit' and b_['e'][0].get('t') == 'bool':
                            pol[ev_] = bool(b_['e'][0]['v'])
                            flagv = ids_[0] if ids_ else None
            if pol and sets == ['%s=%s' % (sv, flagv)]:
                if pol == {'Enter': True, 'Leave': False}:
                    verdict_bk = 'ok'
                elif pol == {'Enter': False, 'Leave': True}:
                    verdict_bk = ('wrong', 'the flag is cleared on Enter / set on Leave of a skip-listed node')
        if verdict_bk is None:
            r7.undecided('%s:skip-bookkeeping' % CRATE, pp.where(pp.loop_stmts[0].get('l')), 'how `%s` is maintained on Enter / Leave of a skip-listed node is not recognised (%s)' % (sv, sets))
        elif verdict_bk != 'ok':
            r7.fail('%s:skip-bookkeeping' % CRATE, pp.where(pp.loop_stmts[0].get('l')),
                    'before the guard `%s` must be set on Enter and cleared on Leave of a skip-listed node: %s' % (sv, verdict_bk[1]))
    # the skip list only grows: entries of an enclosing conditional must survive nested directives
    sl_var = None
    for st in pp.loop_fn['body']['stmts']:
        if st['k'] == 'let' and 'init' in st and sx.is_call(st['init']) and st['init']['f']['p'].endswith('SkipNodes::new'):
            sl_var = sx.pat_idents(st['pat'])[0]
    r7.exactly('skip_list_variable', 1 if sl_var else 0, 1)
    if sl_var:
        uses = {}
        for n in sx.walk(pp.loop_fn['body']):
            if n.get('k') == 'mcall' and sx.is_path(n['recv'], sl_var):
                uses[n['m']] = uses.get(n['m'], 0) + 1
            if n.get('k') == 'assign' and sx.is_path(n['l_'], sl_var):
                uses['<assign>'] = uses.get('<assign>', 0) + 1
            if n.get('k') == 'field' and sx.is_path(n['e'], sl_var):
                uses['<field .%s>' % n['m']] = uses.get('<field .%s>' % n['m'], 0) + 1
        r7.inst('skip-list-uses', {'methods_called_on_the_skip_list': uses})
        for mname in uses:
            if mname not in ('push', 'contains'):
                r7.fail('%s:skip-list-shrinks:%s' % (CRATE, mname), pp.where(pp.loop_fn['l']),
                        'the skip list is modified with `%s` inside the event loop: entries put there by an enclosing `ifdef chain (its dead '
                        '`elsif/`else branches) can disappear when a nested directive is left, so discarded branches become active' % mname)
        # the SkipNodes type itself: push appends, contains only reads
        for (ty, name), m_ in pp.methods.items():
            if ty.startswith('SkipNodes'):
                muts = [n['m'] for n in sx.walk(m_['body']) if n.get('k') == 'mcall' and n['m'] in
                        ('clear', 'pop', 'remove', 'truncate', 'retain', 'drain', 'swap_remove', 'dedup', 'sort', 'reverse')]
                r7.inst('skipnodes-method:' + name, {'method': name, 'shrinking_operations': muts})
                if muts and name in uses:
                    r7.fail('%s:skip-list-shrinks:%s' % (CRATE, name), pp.where(m_['l']), 'SkipNodes::%s removes or reorders entries (%s)' % (name, muts))
        # membership is structural equality: only nodes that carry a Locate (hence a position) are unique in the tree, so the list must
        # not admit Locate-less nodes (an empty branch body would then match every other empty branch body of the file)
        sk = {name: m_ for (ty, name), m_ in pp.methods.items() if ty.startswith('SkipNodes')}
        if 'push' in sk and 'contains' in sk:
            ct = sq(sk['contains']['body'])
            structural = '.contains(' in ct or '==' in ct
            by_identity = 'ptr::eq' in ct or 'as*const' in ct
            appends = [n for n in sx.walk(sk['push']['body']) if n.get('k') == 'mcall' and n['m'] in ('push', 'insert', 'extend') and 'self.' in sq(n['recv'])]
            r7.inst('skip-list-membership', {'contains': ct[:60], 'structural': structural, 'appends': len(appends)})
            if structural and not by_identity and len(appends) == 1:
                guarded = False

                def under_if(node, acc):
                    nonlocal guarded
                    if node is appends[0]:
                        guarded = bool(acc)
                        return
                    if isinstance(node, dict):
                        if node.get('k') == 'if':
                            under_if(node['t'], acc + [node['c']])
                            if 'e' in node:
                                under_if(node['e'], acc + [node['c']])
                            return
                        for v_ in node.values():
                            if isinstance(v_, (dict, list)):
                                under_if(v_, acc)
                    elif isinstance(node, list):
                        for v_ in node:
                            under_if(v_, acc)
                under_if(sk['push']['body'], [])
                mentions_locate = 'RefNode::Locate' in sq(sk['push']['body']) or 'Locate' in sq(sk['push']['body'])
                if not guarded and not mentions_locate:
                    r7.fail('%s:skip-list-admits-unlocated-nodes' % CRATE, pp.where(sk['push']['l']),
                            'SkipNodes::contains identifies a node by structural equality, and SkipNodes::push admits every node: a node without a Locate '
                            '(an empty branch body) then equals every other such node of the file, so a nested empty branch inside a discarded branch ends the skipping early')
                elif not (guarded and mentions_locate):
                    r7.undecided('%s:skip-list-admits-unlocated-nodes' % CRATE, pp.where(sk['push']['l']), 'how SkipNodes::push filters Locate-less nodes is not recognised')
            elif not by_identity and not structural:
                r7.undecided('%s:skip-list-membership' % CRATE, pp.where(sk['contains']['l']), 'how SkipNodes::contains identifies a node is not recognised')
    # every branch of a conditional chain is either the selected one or put on the skip list: the loop over the `elsif branches visits
    # them all — a `break` / `return` inside it ("the chain is decided") leaves the later bodies unregistered, so they are emitted and
    # their `define / `undef take effect although an earlier branch was selected
    for a_ in pp.arms:
        if a_.event != 'Enter' or a_.kind not in ('IfdefDirective', 'IfndefDirective'):
            continue
        for lp_ in [n for n in sx.walk(a_.body) if n.get('k') == 'for']:
            if not any(z.get('k') == 'mcall' and z['m'] == 'push' and sx.is_path(z['recv'], 'skip_nodes') for z in sx.walk(lp_['body'])):
                continue
            r7.inst('chain-loop:%s' % a_.key)
            early_ = [z for z in sx.walk_skip(lp_['body'], lambda q: q.get('k') in ('closure', 'for', 'while', 'loop')) if z.get('k') in ('break', 'return')
                      and not (z.get('k') == 'return' and isinstance(z.get('e'), dict) and sq(z['e']).startswith('Err('))]
            if early_:
                r7.fail('%s:%s:chain-loop-left-early' % (CRATE, a_.key), pp.where(early_[0].get('l') or a_.line),
                        '%s: the loop over the `elsif branches is left early (`%s`): the bodies of the later branches are never put on the skip list, so they are emitted together '
                        'with the selected branch and directives in them take effect' % (a_.key, early_[0].get('k')))
    return [r5, r6, r7]


def run(ctx):
    return x1_x3(ctx) + x5_x7(ctx)
