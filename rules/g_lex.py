"""G2 — lexeme coverage; G4a/b — Locate provenance.

Abstract interpretation of the lexeme functions (those that join raw fragments with `concat`
and/or return a Locate / Span).  Every consuming step fills one "slot"; slots are adjacent in
consumption order.  A span value is R(a, b): it covers slots a..b.  `concat(x, y)` requires y to
start where x ends (otherwise str_concat fails and the `.unwrap()` panics) and yields their
union; the value handed to `into_locate` / returned must cover every slot.
"""
from vlib import sx, grammar
from vlib.report import RuleResult
from rules.g_struct import lexeme_fn


class Bad(Exception):
    """a recognised construct that visibly breaks coverage / adjacency: a violation"""


class Unmodelled(Exception):
    """a construct the interpreter does not model: the lexeme is UNDECIDED, not wrong"""


class Env:
    def __init__(self, vars_=None, empties=None):
        self.v = dict(vars_ or {})
        self.empties = set(empties or ())

    def copy(self):
        return Env(self.v, self.empties)


def covers(pe, g, ctx):
    """The parser's output is one Span that covers exactly what it consumes."""
    op = pe.get('op')
    if op == 'prim':
        return True
    if op == 'lit':
        return pe['kind'] in ('tag', 'tag_no_case')
    if op == 'alt':
        return all(covers(a, g, ctx) for a in pe['arms'])
    if op == 'terminated':
        return covers(pe['p'], g, ctx) and pe['q'].get('op') in ('peek', 'not')
    if op == 'preceded':
        return covers(pe['p'], g, ctx) and pe['q'].get('op') in ('peek', 'not')
    if op == 'recognize':
        return True
    if op == 'ref':
        f = g.fns[pe['name']]
        out = f.out_ty
        if out is not None and out.get('k') == 'path' and out['p'] == 'Span':
            ctx['span_refs'].add(f.name)
            return True     # checked on its own as a lexeme function
        return False
    if op == 'map':
        f = pe['f']
        if f.get('k') != 'closure':
            return False
        # closure over the components of p must return a span covering all of them
        env = Env()
        n = bind_pattern(f['params'][0] if len(f['params']) == 1 else {'k': 'tuple', 'e': f['params']}, pe['p'], env, 0, g, ctx)
        try:
            val = eval_expr(f['body'], env, g, ctx)
        except Bad:
            return False
        except Unmodelled:
            raise
        return val[0] == 'R' and full(val, n, env.empties)
    return False


def shape(pe, k, g, ctx):
    """abstract value of a parser applied at slot k (single-slot shapes)"""
    op = pe.get('op')
    if op == 'opt':
        if not covers(pe['p'], g, ctx):
            raise Bad('opt(..) over a parser whose output does not cover what it consumes: %s' % grammar.show(pe['p'])[:60])
        return ('O', k)
    if op in ('many0', 'many1'):
        if not covers(pe['p'], g, ctx):
            raise Bad('%s(..) over a parser whose output does not cover what it consumes: %s' % (op, grammar.show(pe['p'])[:60]))
        return ('V', k, op == 'many1')
    if covers(pe, g, ctx):
        return ('R', k, k)
    raise Bad('output of %s is not a span covering what it consumes' % grammar.show(pe)[:60])


def bind_pattern(pat, pe, env, k, g, ctx):
    """bind the identifiers of `pat` to the output of `pe` consumed from slot k on; returns next free slot"""
    if pat.get('k') == 'type':
        pat = pat['p']
    if pat.get('k') == 'tuple' and pe.get('op') == 'seq' and len(pat['e']) == len(pe['parts']):
        for sub, part in zip(pat['e'], pe['parts']):
            k = bind_pattern(sub, part, env, k, g, ctx)
        return k
    if pat.get('k') == 'ident':
        if pe.get('op') == 'fold_many0':
            # fold_many0(p, || init, |acc, item| concat(acc, item).unwrap())
            if not covers(pe['p'], g, ctx):
                raise Bad('fold_many0 over a parser whose output does not cover what it consumes')
            init, f = pe['init'], pe['f']
            if init.get('k') != 'closure' or init['params'] or f.get('k') != 'closure' or len(f['params']) != 2:
                raise Unmodelled('fold_many0 with unmodelled init / fold closures')
            iv = eval_expr(init['body'], env, g, ctx)
            acc, item = [sx.pat_idents(p)[0] for p in f['params']]
            e2 = env.copy()
            e2.v[acc] = ('R', iv[1], k - 1) if iv[0] == 'R' else iv
            e2.v[item] = ('R', k, k)
            res = eval_expr(f['body'], e2, g, ctx)
            if iv[0] != 'R' or res != ('R', iv[1], k):
                raise Bad('fold_many0 must extend the accumulator by each item in order (found %s from %s)' % (res, iv))
            env.v[pat['n']] = ('R', iv[1], k)
            # the fold variable shadows: remove the old accumulator name if the same
            return k + 1
        env.v[pat['n']] = shape(pe, k, g, ctx)
        return k + 1
    if pat.get('k') == 'wild':
        raise Bad('`_` pattern in a lexeme function')
    raise Unmodelled('pattern %s against %s' % (sx.render(pat), grammar.show(pe)[:40]))


def gap_free(b, a2, empties):
    """slots b+1 .. a2-1 are all empty"""
    return a2 >= b + 1 and all(s in empties for s in range(b + 1, a2))


def full(val, nslots, empties):
    return val[0] == 'R' and all(s in empties for s in range(0, val[1])) and all(s in empties for s in range(val[2] + 1, nslots))


def eval_expr(e, env, g, ctx):
    k = e.get('k')
    if k == 'path':
        n = e['p']
        if n == 'None':
            return ('ON',)
        if n in env.v:
            return env.v[n]
        raise Unmodelled('unknown value `%s`' % n)
    if k == 'call' and sx.is_path(e['f']):
        fn = e['f']['p']
        if fn == 'concat' and len(e['args']) == 2:
            x = eval_expr(e['args'][0], env, g, ctx)
            y = eval_expr(e['args'][1], env, g, ctx)
            if x[0] != 'R' or y[0] != 'R':
                raise Unmodelled('concat of non-span values %s, %s' % (x, y))
            if not gap_free(x[2], y[1], env.empties):
                raise Bad('concat(%s, %s): the second fragment (slots %d..%d) does not start where the first (slots %d..%d) ends — '
                          'str_concat fails and the unwrap panics, or text in between is lost' %
                          (sx.render(e['args'][0]), sx.render(e['args'][1]), y[1], y[2], x[1], x[2]))
            return ('CR', x[1], y[2])        # Option<Span>, Some by adjacency
        if fn == 'Some' and len(e['args']) == 1:
            v = eval_expr(e['args'][0], env, g, ctx)
            if v[0] == 'R':
                return ('OS', v[1], v[2])
            raise Unmodelled('Some(%s)' % (v,))
        if fn == 'into_locate' and len(e['args']) == 1:
            return eval_expr(e['args'][0], env, g, ctx)
        if fn in g.fns and g.fns[fn].kind == 'other' and fn in getattr(g, 'concat_helpers', ()) and ctx.get('depth', 0) < 3:
            # local helper that joins fragments: interpret its body with the arguments bound
            h = g.fns[fn]
            ps = [p for p in h.item['sig']['params'] if p.get('k') == 'typed']
            if len(ps) == len(e['args']):
                e2 = Env()
                for p_, a_ in zip(ps, e['args']):
                    e2.v[sx.pat_idents(p_['pat'])[0]] = eval_expr(a_, env, g, ctx)
                e2.empties = set(env.empties)
                ctx['depth'] = ctx.get('depth', 0) + 1
                try:
                    return eval_block(h.item['body'], e2, g, ctx)
                finally:
                    ctx['depth'] -= 1
        raise Unmodelled('call of %s in a lexeme computation' % fn)
    if k == 'mcall' and e['m'] == 'unwrap' and not e['args']:
        v = eval_expr(e['recv'], env, g, ctx)
        ctx['unwrap_nodes'].add((e.get('l'), e.get('col')))
        if v[0] == 'CR':
            return ('R', v[1], v[2])
        if v[0] == 'OS':
            return ('R', v[1], v[2])
        raise Bad('`%s.unwrap()` on a value that can be None (%s): panics' % (sx.render(e['recv'])[:40], v))
    if k == 'if' and e['c'].get('k') == 'let' and 'e' in e:
        pat, src = e['c']['pat'], e['c']['e']
        if pat.get('k') == 'ts' and pat['p'] == 'Some' and len(pat['e']) == 1 and pat['e'][0].get('k') == 'ident' and sx.is_path(src):
            sv = env.v.get(src['p'])
            if sv is None:
                raise Unmodelled('unknown option `%s`' % src['p'])
            te, fe = env.copy(), env.copy()
            if sv[0] in ('O', 'OX'):
                te.v[pat['e'][0]['n']] = ('R', sv[1], sv[1])
                fe.empties.add(sv[1])
            elif sv[0] in ('OS', 'ON'):
                # accumulator Option<Span>
                if sv[0] == 'ON':
                    return eval_block(e['e'], fe, g, ctx)
                if sv[0] == 'OS':
                    te.v[pat['e'][0]['n']] = ('R', sv[1], sv[2])
                    return eval_block(e['t'], te, g, ctx)
                raise Unmodelled('option state')
            else:
                raise Unmodelled('if-let on a non-option value %s' % (sv,))
            tv = eval_block(e['t'], te, g, ctx)
            fv = eval_block(e['e'], fe, g, ctx)
            # both branches must denote the same coverage (the None branch has an empty slot)
            if tv[0] == 'R' and fv[0] == 'R' and tv[1] == fv[1]:
                hi = max(tv[2], fv[2])
                lo = min(tv[2], fv[2])
                if all(s in fe.empties or s in te.empties for s in range(lo + 1, hi + 1)):
                    env.empties |= (fe.empties - te.empties) & set()   # slot may or may not be empty: keep coverage hi
                    return ('R', tv[1], hi)
            raise Bad('the two branches of `if let Some(..)` cover different text: %s vs %s' % (tv, fv))
        raise Unmodelled('if-let %s' % sx.render(e['c'])[:60])
    if k == 'match' and sx.is_path(e['e']) and len(e['arms']) == 2:
        # match opt { Some(x) => A, None => B }  ==  if let Some(x) = opt { A } else { B }
        some = [a for a in e['arms'] if a['pat'].get('k') == 'ts' and a['pat']['p'] == 'Some']
        none = [a for a in e['arms'] if sx.render(a['pat']) in ('None', '_')]
        if len(some) == 1 and len(none) == 1:
            as_block = lambda x: x if x.get('k') == 'block' else {'k': 'block', 'stmts': [{'k': 'expr', 'e': x, 'semi': False}]}
            return eval_expr({'k': 'if', 'c': {'k': 'let', 'pat': some[0]['pat'], 'e': e['e']}, 't': as_block(some[0]['body']),
                              'e': as_block(none[0]['body'])}, env, g, ctx)
    if k == 'mcall' and e['m'] in ('into_iter', 'iter') and not e['args']:
        return eval_expr(e['recv'], env, g, ctx)
    if k == 'mcall' and e['m'] == 'fold' and len(e['args']) == 2 and e['args'][1].get('k') == 'closure':
        # V.into_iter().fold(init, |acc, x| concat(acc, x).unwrap())
        vec = eval_expr(e['recv'], env, g, ctx)
        init = eval_expr(e['args'][0], env, g, ctx)
        cl = e['args'][1]
        if vec[0] == 'V' and init[0] == 'R' and len(cl['params']) == 2:
            acc, item = [sx.pat_idents(p)[0] for p in cl['params']]
            k_ = vec[1]
            if not gap_free(init[2], k_, env.empties):
                raise Bad('fold starts from a value (slots %d..%d) that does not end where the folded fragments (slot %d) begin' % (init[1], init[2], k_))
            e2 = env.copy()
            e2.v[acc] = ('R', init[1], k_ - 1)
            e2.v[item] = ('R', k_, k_)
            res = eval_expr(cl['body'], e2, g, ctx)
            if res != ('R', init[1], k_):
                raise Bad('fold must extend the accumulator by each element in order (found %s)' % (res,))
            return ('R', init[1], k_)
        raise Unmodelled('fold over %s' % (vec,))
    if k == 'call' and sx.is_path(e['f']) and e['f']['p'] in g.fns and g.fns[e['f']['p']].kind == 'other' and e['f']['p'] in getattr(g, 'concat_helpers', ()):
        # local helper that joins fragments: interpret its body with the arguments bound
        h = g.fns[e['f']['p']]
        ps = [p for p in h.item['sig']['params'] if p.get('k') == 'typed']
        if len(ps) == len(e['args']) and ctx.get('depth', 0) < 3:
            e2 = Env()
            for p_, a_ in zip(ps, e['args']):
                e2.v[sx.pat_idents(p_['pat'])[0]] = eval_expr(a_, env, g, ctx)
            e2.empties = set(env.empties)
            ctx['depth'] = ctx.get('depth', 0) + 1
            try:
                return eval_block(h.item['body'], e2, g, ctx)
            finally:
                ctx['depth'] -= 1
    if k == 'block':
        return eval_block(e, env, g, ctx)
    raise Unmodelled('expression `%s`' % sx.render(e)[:60])


def eval_block(b, env, g, ctx):
    if b.get('k') != 'block':
        return eval_expr(b, env, g, ctx)
    stmts = b['stmts']
    for st in stmts[:-1]:
        exec_stmt(st, env, g, ctx)
    last = stmts[-1]
    if last['k'] == 'expr' and not last.get('semi'):
        return eval_expr(last['e'], env, g, ctx)
    raise Unmodelled('block without a value')


def exec_stmt(st, env, g, ctx):
    if st['k'] == 'let' and 'init' in st and st['pat'].get('k') == 'ident':
        env.v[st['pat']['n']] = eval_expr(st['init'], env, g, ctx)
        return
    if st['k'] == 'expr' and st['e'].get('k') == 'for' and sx.is_path(st['e']['e']):
        fo = st['e']
        vec = env.v.get(fo['e']['p'])
        ids = sx.pat_idents(fo['pat'])
        if vec is None or vec[0] != 'V' or len(ids) != 1:
            raise Unmodelled('loop over a non-vector value')
        k, nonempty = vec[1], vec[2]
        x = ids[0]
        body = fo['body']['stmts']
        if len(body) != 1 or body[0]['k'] != 'expr' or body[0]['e'].get('k') != 'assign' or not sx.is_path(body[0]['e']['l_']):
            raise Unmodelled('fold loop body')
        acc = body[0]['e']['l_']['p']
        a0 = env.v.get(acc)
        rhs = body[0]['e']['r']
        if a0 is None:
            raise Unmodelled('fold loop accumulator `%s` unknown' % acc)
        if a0[0] == 'R':
            # acc = concat(acc, x).unwrap()
            e2 = env.copy()
            e2.v[x] = ('R', k, k)
            e2.v[acc] = ('R', a0[1], k - 1) if gap_free(a0[2], k, env.empties) else a0
            r = eval_expr(rhs, e2, g, ctx)
            if r != ('R', a0[1], k):
                raise Bad('fold loop must extend the accumulator by each element in order')
            env.v[acc] = ('R', a0[1], k)
            if not nonempty:
                pass
            return
        if a0[0] == 'ON':
            # ret = if let Some(ret) = ret { Some(concat(ret, x).unwrap()) } else { Some(x) }
            # first iteration (None)
            e1 = env.copy()
            e1.v[x] = ('R', k, k)
            r1 = eval_expr(rhs, e1, g, ctx)
            # later iterations (Some covering slot k so far; next element adjacent inside the same slot)
            e2 = env.copy()
            e2.v[acc] = ('OS', k, k - 1)    # covers "slot k so far": model as ending just before the element
            e2.v[x] = ('R', k, k)
            r2 = eval_expr(rhs, e2, g, ctx)
            if r1 != ('OS', k, k) or r2 != ('OS', k, k):
                raise Bad('option-fold loop must start with the first element and extend by each next element (found %s / %s)' % (r1, r2))
            env.v[acc] = ('OS', k, k) if nonempty else ('OX', k)
            return
        raise Unmodelled('accumulator state %s' % (a0,))
    if st['k'] == 'expr' and st['e'].get('k') == 'if' and 'e' not in st['e'] and st['e']['c'].get('k') != 'let':
        # if COND { return Ok((s, into_locate(X))); }   — an early successful exit: X must cover everything consumed so far
        body = st['e']['t']['stmts']
        if len(body) == 1 and body[0]['k'] == 'expr' and body[0]['e'].get('k') == 'return':
            targets = [n for n in sx.walk(body[0]['e']) if sx.is_call(n, 'into_locate')]
            if targets:
                for t_ in targets:
                    v = eval_expr(t_['args'][0], env, g, ctx)
                    ctx.setdefault('early', []).append(v)
                return
            if sx.is_call(body[0]['e'].get('e', {}), 'Err'):
                return
    raise Unmodelled('statement `%s`' % sx.render(st)[:60])


def run(ctx):
    g = ctx.grammar
    r = RuleResult('G2', 'lexemes: the Locate/Span returned covers every fragment consumed, fragments are joined in order')
    lex = [f for f in g.parsers() if lexeme_fn(f)]
    actx = {'span_refs': set(), 'unwrap_nodes': set()}
    undecided_fns = set()
    total_unwraps_src = 0
    for f in lex:
        where = '%s/%s:%d' % (g.crate, f.file, f.line)
        total_unwraps_src += sum(1 for n in sx.walk(f.item['body']) if n.get('k') == 'mcall' and n['m'] == 'unwrap')
        env = Env()
        k = 0
        try:
            for st in f.stmts:
                if st[0] == 'bind':
                    k = bind_pattern(st[2], st[3], env, k, g, actx)
                elif st[0] == 'other':
                    exec_stmt(st[1], env, g, actx)
                else:
                    raise Unmodelled('statement kind %s' % st[0])
            for v in actx.pop('early', []):
                if not full(v, k, env.empties):
                    raise Bad('an early return converts a value covering slots %s..%s of the %d consumed' % (v[1], v[2], k))
            if f.tail[0] == 'other' and isinstance(f.tail[1], dict) and sx.is_call(f.tail[1], 'Err') and f.name not in undecided_fns \
                    and any(sx.is_call(n, 'into_locate') for n in sx.walk(f.item['body'])):
                pass    # result produced by an early return (checked above); the tail is the failure
            elif f.tail[0] == 'ok':
                node = f.tail[2]
                # the expression given to into_locate (or the span returned)
                targets = [n for n in sx.walk(node) if sx.is_call(n, 'into_locate')]
                if targets:
                    vals = [eval_expr(t['args'][0], env, g, actx) for t in targets]
                else:
                    vals = [eval_expr(node, env, g, actx)]
                if len(vals) != 1:
                    raise Bad('more than one Locate built in a lexeme')
                v = vals[0]
                if not full(v, k, env.empties):
                    raise Bad('the value converted to the token (%s) covers slots %s..%s of the %d consumed: the rest of the consumed '
                              'text is in no leaf' % (sx.render(targets[0]['args'][0]) if targets else sx.render(node), v[1] if len(v) > 1 else '?', v[2] if len(v) > 2 else '?', k))
            elif f.tail[0] == 'apply':
                if not covers(f.tail[1], g, actx) and not (f.tail[1].get('op') == 'map'):
                    raise Bad('tail combinator output does not cover what it consumes')
            else:
                # other result shapes (early return, match): every into_locate(X) in the result must cover all slots
                tail_e = f.tail[1] if len(f.tail) > 1 and isinstance(f.tail[1], dict) else None
                targets = [n for n in sx.walk(tail_e)] if tail_e else []
                targets = [n for n in targets if sx.is_call(n, 'into_locate')]
                if not targets:
                    raise Unmodelled('result expression')
                for t_ in targets:
                    v = eval_expr(t_['args'][0], env, g, actx)
                    if not full(v, k, env.empties):
                        raise Bad('the value converted to the token (%s) covers slots %s..%s of the %d consumed' % (sx.render(t_['args'][0]), v[1], v[2], k))
            r.inst(f.name, {'lexeme': f.name, 'slots': k, 'result': sx.render(f.tail[2])[:60] if f.tail[0] == 'ok' else 'combinator'}
                   if r.instances % 5 == 0 else None)
        except Bad as b:
            r.inst(f.name)
            r.fail('%s:%s:lexeme' % (g.crate, f.name), where, '%s: %s' % (f.name, b))
        except Unmodelled as u:
            r.inst(f.name)
            undecided_fns.add(f.name)
            r.undecided('%s:%s:lexeme' % (g.crate, f.name), where, '%s: %s is not modelled by the lexeme interpreter' % (f.name, u))
    # inline token definitions map(<raw lexer>, |x| ..into_locate(x)..): single fragment — x must be used
    ninline = 0
    for f in g.parsers():
        if lexeme_fn(f):
            continue
        for node in grammar.iter_ir(f.ir):
            if node['op'] == 'map' and node['f'].get('k') == 'closure' and any(sx.is_call(n, 'into_locate') for n in sx.walk(node['f']['body'])):
                ninline += 1
                ok = covers(node['p'], g, actx)
                ids = sx.pat_idents(node['f']['params'][0]) if len(node['f']['params']) == 1 else []
                calls = [n for n in sx.walk(node['f']['body']) if sx.is_call(n, 'into_locate')]
                ok = ok and len(ids) == 1 and len(calls) == 1 and sx.is_path(calls[0]['args'][0], ids[0])
                r.inst('inline:%s:%d' % (f.name, ninline))
                if not ok:
                    r.fail('%s:%s:inline-token' % (g.crate, f.name), '%s/%s:%s' % (g.crate, f.file, node.get('l')),
                           '%s: inline token map(%s, ..) does not convert the whole consumed fragment' % (f.name, grammar.show(node['p'])[:50]))
    actx['unwraps'] = len(actx['unwrap_nodes'])
    r.counts['unwraps_discharged'] = actx['unwraps']
    ctx.g2_unwraps = set(actx['unwrap_nodes'])
    ctx.g2_undecided = set(undecided_fns)
    r.counts['unwraps_in_lexeme_sources'] = total_unwraps_src
    r.floor('lexeme_functions', len(lex), 24)
    if actx['unwraps'] < total_unwraps_src and not r.findings and not undecided_fns:
        r.fail('%s:unwraps-not-all-visited' % g.crate, '-', 'only %d of the %d unwrap() calls in lexeme functions were visited by the '
               'interpreter (fail closed)' % (actx['unwraps'], total_unwraps_src))

    # ------------------------------------------------------------------ G4 a/b
    r4 = RuleResult('G4', 'Locate provenance: byte offset / line / byte length of the fragment; concat keeps the first fragment\'s position')
    lits = []
    raw = []
    for fl, mp, fn, im in sx.crate_fns(ctx.syn, g.crate):
        for n in sx.walk(fn.get('body')):
            if n.get('k') == 'struct' and n['p'] == 'Locate':
                lits.append((fl, fn, n))
            if n.get('k') == 'call' and sx.is_path(n['f']) and n['f']['p'].endswith('new_from_raw_offset'):
                raw.append((fl, fn, n))
    r4.exactly('Locate_literal_sites(into_locate role)', len(lits), 1)
    for fl, fn, n in lits:
        prm = sx.pat_idents(fn['sig']['params'][0]['pat'])[0] if fn['sig']['params'] else None
        # field values named through locals bound once (`let offset = s.location_offset(); .. Locate { offset, line, len }`) are resolved
        once_ = {}
        for st_ in sx.walk(fn['body']):
            if st_.get('k') == 'let' and 'pat' in st_ and 'init' in st_ and st_['pat'].get('k') == 'ident':
                once_.setdefault(st_['pat']['n'], []).append(st_['init'])
        def fres_(e_):
            if sx.is_path(e_) and len(once_.get(e_['p'], [])) == 1 and e_['p'] != prm:
                return once_[e_['p']][0]
            return e_
        flds = {x['n']: sx.render(fres_(x['e'])).replace(' ', '') for x in n['fields']}
        r4.inst('into_locate', {'fn': fn['name'], 'fields': flds})
        ok = flds.get('offset') == '%s.location_offset()' % prm and flds.get('line') == '%s.location_line()' % prm and \
            flds.get('len') in ('%s.fragment().len()' % prm, '%s.input_len()' % prm, '%s.fragment().as_bytes().len()' % prm)
        if not ok:
            r4.fail('%s:%s:locate-fields' % (g.crate, fn['name']), '%s/%s:%s' % (g.crate, fl, n.get('l')),
                    '%s must build Locate{offset: s.location_offset(), line: s.location_line(), len: byte length of the fragment}; found %s' % (fn['name'], flds))
    # a Locate is never modified after it was built: no assignment to a field offset / line / len anywhere in the library crates
    # (a token whose recorded length differs from what the parser consumed leaves bytes that belong to no leaf, and the derived
    # Locate::try_from, which asserts that leaves are contiguous, panics on the enclosing node)
    n_fns = 0
    for crate_ in ('sv-parser-parser', 'sv-parser-pp', 'sv-parser', 'sv-parser-syntaxtree'):
        for fl, mp, fn, im in sx.crate_fns(ctx.syn, crate_):
            if not fn.get('body') or 'tests' in mp:
                continue
            n_fns += 1
            for n in sx.walk(fn['body']):
                is_asg = n.get('k') == 'assign' or (n.get('k') == 'binary' and str(n.get('op', '')).endswith('=') and n.get('op') not in ('==', '<=', '>=', '!='))
                if not is_asg:
                    continue
                lhs = n.get('l_')
                if isinstance(lhs, dict) and lhs.get('k') == 'field' and lhs.get('m') in ('offset', 'line', 'len'):
                    r4.fail('%s:%s:locate-field-assigned:%s' % (crate_, fn['name'], lhs['m']), '%s/%s:%s' % (crate_, fl, n.get('l')),
                            '%s assigns to `%s`: the position / length of a token is changed after into_locate built it from the consumed fragment, so the leaf no longer covers '
                            'exactly the bytes the parser consumed (bytes without a leaf; the contiguity assertion of the derived Locate::try_from panics on the enclosing node)'
                            % (fn['name'], sx.render(lhs)))
    r4.counts['functions_scanned_for_locate_assignment'] = n_fns
    r4.exactly('new_from_raw_offset_sites(concat role)', len(raw), 1)
    for fl, fn, n in raw:
        ps = [sx.pat_idents(p['pat'])[0] for p in fn['sig']['params']]
        # locals bound once to a simple expression are resolved (let offset = a.location_offset();)
        loc_lets = {}
        for st_ in sx.walk(fn['body']):
            if st_.get('k') == 'let' and 'pat' in st_ and 'init' in st_ and st_['pat'].get('k') == 'ident':
                loc_lets.setdefault(st_['pat']['n'], []).append(st_['init'])
            # let (offset, line) = (a.location_offset(), a.location_line());
            if st_.get('k') == 'let' and 'pat' in st_ and 'init' in st_ and st_['pat'].get('k') == 'tuple' and st_['init'].get('k') == 'tuple' \
                    and len(st_['pat']['e']) == len(st_['init']['e']):
                for pe_, ie_ in zip(st_['pat']['e'], st_['init']['e']):
                    if pe_.get('k') == 'ident':
                        loc_lets.setdefault(pe_['n'], []).append(ie_)
        def res_(a_):
            if sx.is_path(a_) and len(loc_lets.get(a_['p'], [])) == 1 and a_['p'] not in ps:
                return loc_lets[a_['p']][0]
            return a_
        args = [sx.render(res_(a)).replace(' ', '') for a in n['args']]
        r4.inst('concat', {'fn': fn['name'], 'args': args})
        ok = len(ps) == 2 and len(args) == 4 and args[0] == '%s.location_offset()' % ps[0] and args[1] == '%s.location_line()' % ps[0] \
            and args[3] == '%s.extra' % ps[0]
        # the joined fragment is str_concat::concat(a.fragment(), b.fragment()) in that order
        sc = [x for x in sx.walk(fn['body']) if x.get('k') == 'call' and sx.is_path(x['f']) and x['f']['p'].endswith('str_concat::concat')]
        frag_ok = len(sc) == 1 and [sx.render(res_(a)).replace(' ', '') for a in sc[0]['args']] == ['%s.fragment()' % ps[0], '%s.fragment()' % ps[1]]
        wrong_first = len(ps) == 2 and len(args) == 4 and (args[0] == '%s.location_offset()' % ps[1] or args[1] == '%s.location_line()' % ps[1]
                                                            or (len(sc) == 1 and [sx.render(res_(a)).replace(' ', '') for a in sc[0]['args']] == ['%s.fragment()' % ps[1], '%s.fragment()' % ps[0]]))
        if not (ok and frag_ok) and not wrong_first:
            r4.undecided('%s:%s:concat-position' % (g.crate, fn['name']), '%s/%s:%s' % (g.crate, fl, n.get('l')),
                         '%s: how the joined span gets its position is not recognised (%s)' % (fn['name'], args))
        elif not (ok and frag_ok):
            r4.fail('%s:%s:concat-position' % (g.crate, fn['name']), '%s/%s:%s' % (g.crate, fl, n.get('l')),
                    '%s must join first.fragment() ++ second.fragment() and keep offset/line/extra of the FIRST fragment; found %s' % (fn['name'], args))
    return [r, r4]
