"""X18 — the macro-body tokeniser (`split_text`) as a finite-state transducer.

The function that cuts a macro body into runs touches its input only through (a) comparisons of the current / next
character with character literals and ASCII class predicates and (b) a handful of boolean flags; its output is a sequence
of "append this character to the current run" / "close the current run" actions.  So its behaviour is determined by a
finite abstraction: the flags x the class of the current and of the next character.  The body is interpreted (a small
interpreter for the boolean/char subset of Rust it is written in: no code of the repository is run) over one
representative per character class, in product with a reference monitor that knows the lexical context IEEE 1800-2017
22.5.1 gives each character (leading white space, one-line comment, ordinary string literal with backslash escapes,
`" , plain text) and a tracker of the current run, exhaustively over all reachable product states.  Checked on every
reachable transition — each a necessary condition of C05, each reported with the shortest macro body that reaches it:

  keep      every character outside leading blanks and one-line comments is appended exactly once, as itself; characters
            of a one-line comment (up to, not including, the newline) are never appended; no buffered run is discarded and
            the last run is emitted;
  ident     outside string literals every maximal identifier [A-Za-z0-9_]+ is a run of its own (otherwise a formal
            argument there is not replaced, or a formal is replaced inside a longer identifier);
  string    between the quotes of an ordinary string literal (`\\"` does not end it) no run made only of identifier
            characters is formed (otherwise a formal's name inside a string literal is substituted, which 22.5.1 forbids);
  paste     the two characters of ``  `"  and backslash-newline are never separated by a run boundary (the rewrite chain
            of the resolver works run by run).

Context in which the repository's behaviour and the standard may legitimately be read differently (a `" inside an
ordinary string literal) is not judged: exploration stops there.  A body written outside the interpreted subset is
UNDECIDED, never a violation.
"""
from collections import deque
from vlib import sx
from vlib.report import RuleResult
from rules.x_pp import model, CRATE

EOF = '<eof>'
BUF_EMPTY = (0, '')


class Undecided(Exception):
    pass


CHAR_PRED = {
    'is_ascii_whitespace': lambda c: c in ' \t\n\r\x0c',
    'is_whitespace': lambda c: c.isspace(),
    'is_ascii_alphanumeric': lambda c: c.isascii() and c.isalnum(),
    'is_alphanumeric': lambda c: c.isalnum(),
    'is_ascii_alphabetic': lambda c: c.isascii() and c.isalpha(),
    'is_alphabetic': lambda c: c.isalpha(),
    'is_ascii_digit': lambda c: c.isascii() and c.isdigit(),
    'is_ascii_punctuation': lambda c: c.isascii() and not c.isalnum() and not c.isspace() and c.isprintable(),
    'is_ascii': lambda c: c.isascii(),
    'is_ascii_graphic': lambda c: 33 <= ord(c) <= 126,
    'is_ascii_control': lambda c: ord(c) < 32 or ord(c) == 127,
    'is_control': lambda c: ord(c) < 32 or 127 <= ord(c) < 160,
    'is_ascii_uppercase': lambda c: 'A' <= c <= 'Z',
    'is_ascii_lowercase': lambda c: 'a' <= c <= 'z',
    'is_ascii_hexdigit': lambda c: c in '0123456789abcdefABCDEF',
    'is_numeric': lambda c: c.isnumeric(),
}

EMPTY_STRING_CTORS = ('String::from("")', 'String::new()', '"".to_string()', 'String::default()', '"".into()',
                      'Default::default()', '"".to_owned()', 'String::with_capacity')


def is_ident_char(c):
    return c.isascii() and (c.isalnum() or c == '_')


class Code:
    """the tokeniser function, parsed into prologue / per-character body / epilogue"""

    def __init__(self, fn, helpers):
        self.fn = fn
        self.helpers = helpers
        self.text_param = None
        for p in fn['sig']['params']:
            if p.get('k') == 'typed' and p['pat'].get('k') == 'ident':
                self.text_param = p['pat']['n']
        self.flags = {}            # name -> initial value (True/False/None = declared, unset)
        self.buf = None
        self.out = None
        self.iter = None
        self.cvar = None
        self.body = None
        self.epilogue = []
        stmts = fn['body']['stmts']
        i = 0
        while i < len(stmts):
            st = stmts[i]
            if st['k'] == 'let' and st['pat'].get('k') == 'ident':
                n = st['pat']['n']
                if 'init' not in st:
                    self.flags[n] = None
                else:
                    e = st['init']
                    s = sx.render(e).replace(' ', '')
                    if e.get('k') == 'lit' and e.get('t') == 'bool':
                        self.flags[n] = bool(e['v'])
                    elif any(s.startswith(c.replace(' ', '')) for c in EMPTY_STRING_CTORS) and self.buf is None:
                        self.buf = n
                    elif (e.get('k') == 'macro' and e.get('p') == 'vec' and not e.get('tokens')) or s.startswith('Vec::new(') or s.startswith('Vec::with_capacity('):
                        self.out = n
                    elif '.chars()' in s and s.startswith(self.text_param or '\0'):
                        rest = s[len(self.text_param):]
                        if rest not in ('.chars()', '.chars().peekable()'):
                            raise Undecided('iterator ' + s)
                        self.iter = n
                    else:
                        raise Undecided('prologue binding `%s`' % sx.render(st)[:60])
                i += 1
                continue
            if st['k'] == 'expr' and st['e'].get('k') in ('while', 'for'):
                lp = st['e']
                if lp['k'] == 'while':
                    c = lp['c']
                    ok = (c.get('k') == 'let' and c['pat'].get('k') == 'ts' and c['pat']['p'] == 'Some' and len(c['pat']['e']) == 1
                          and c['pat']['e'][0].get('k') == 'ident' and sx.render(c['e']).replace(' ', '') == '%s.next()' % self.iter)
                    if not ok:
                        raise Undecided('loop header `%s`' % sx.render(c)[:60])
                    self.cvar = c['pat']['e'][0]['n']
                else:
                    it = sx.render(lp['e']).replace(' ', '')
                    if lp['pat'].get('k') != 'ident' or it not in ('%s.chars()' % self.text_param, str(self.iter)):
                        raise Undecided('loop header `for %s in %s`' % (sx.render(lp['pat']), it))
                    self.cvar = lp['pat']['n']
                    if it == str(self.iter):
                        self.iter = None        # borrowed by the loop: cannot be peeked
                self.body = lp['body']['stmts']
                self.epilogue = stmts[i + 1:]
                break
            raise Undecided('prologue statement `%s`' % sx.render(st)[:60])
        if self.body is None or self.buf is None or self.out is None:
            raise Undecided('no character loop / run buffer / output vector recognised')
        self.scan_buffer_observers()

    # ---- expressions -------------------------------------------------------------------------------------------
    def ev(self, e, env, c, peek, buf_empty):
        k = e.get('k')
        if k == 'lit':
            if e.get('t') in ('bool',):
                return bool(e['v'])
            if e.get('t') == 'char':
                return e['v']
            if e.get('t') == 'int':
                try:
                    return ('int', int(str(e['v']).rstrip('usize').rstrip('_') or '0'))
                except ValueError:
                    pass
            raise Undecided('literal ' + sx.render(e))
        if k == 'path':
            p = e['p']
            if p == self.cvar:
                return c
            if p in env:
                v = env[p]
                if v is None:
                    raise Undecided('read of unset flag ' + p)
                return v
            if p == 'None':
                return ('none',)
            raise Undecided('name ' + p)
        if k == 'unary':
            v = self.ev(e['e'], env, c, peek, buf_empty)
            if e['op'] == '!':
                if not isinstance(v, bool):
                    raise Undecided('! on non-bool')
                return not v
            if e['op'] == '*':
                return v
            raise Undecided('unary ' + e['op'])
        if k == 'ref':
            return self.ev(e['e'], env, c, peek, buf_empty)
        if k == 'binary':
            op = e['op']
            if op == '&&':
                return self._b(e['l_'], env, c, peek, buf_empty) and self._b(e['r'], env, c, peek, buf_empty)
            if op == '||':
                return self._b(e['l_'], env, c, peek, buf_empty) or self._b(e['r'], env, c, peek, buf_empty)
            a = self.ev(e['l_'], env, c, peek, buf_empty)
            b = self.ev(e['r'], env, c, peek, buf_empty)
            if op in ('|', '&', '^'):
                if not (isinstance(a, bool) and isinstance(b, bool)):
                    raise Undecided('bit operator on non-bool')
                return (a | b) if op == '|' else (a & b) if op == '&' else (a ^ b)
            if op in ('==', '!=', '<', '>', '<=', '>=') and isinstance(a, tuple) and isinstance(b, tuple) \
                    and {a[0], b[0]} == {'len', 'int'}:
                return self.cmp_len(op, a, b, e)
            if op in ('==', '!='):
                if type(a) is not type(b):
                    raise Undecided('comparison of %s' % sx.render(e)[:50])
                return (a == b) if op == '==' else (a != b)
            raise Undecided('operator ' + op)
        if k == 'mcall':
            recv = e['recv']
            rs = sx.render(recv).replace(' ', '')
            m = e['m']
            if rs == self.cvar and not e['args']:
                if m in CHAR_PRED:
                    return CHAR_PRED[m](c)
                raise Undecided('char method ' + m)
            if rs == self.cvar and m == 'eq' and len(e['args']) == 1:
                return c == self.ev(e['args'][0], env, c, peek, buf_empty)
            if self.iter and rs == self.iter and m == 'peek' and not e['args']:
                return ('none',) if peek == EOF else ('some', peek)
            if rs == self.buf and m == 'is_empty' and not e['args']:
                return buf_empty[0] == 0
            if rs == self.buf and m == 'len' and not e['args']:
                return ('len', buf_empty[0])
            if rs == self.buf and m == 'ends_with' and len(e['args']) == 1:
                a0 = e['args'][0]
                lit = sx.lit_str(a0) if a0.get('k') == 'lit' and a0.get('t') != 'char' else (a0['v'] if a0.get('k') == 'lit' and a0.get('t') == 'char' else None)
                if lit is None or not lit or len(lit) > self.track_k:
                    raise Undecided('method call ' + sx.render(e)[:50])
                n, suf = buf_empty
                if n < len(lit):
                    return False            # n is exact below the cap, and the cap exceeds every tracked literal
                return suf[-len(lit):] == lit
            if m in ('is_some', 'is_none') and not e['args']:
                v = self.ev(recv, env, c, peek, buf_empty)
                if isinstance(v, tuple):
                    return (v[0] == 'some') == (m == 'is_some')
            if m in ('copied', 'cloned') and not e['args']:
                return self.ev(recv, env, c, peek, buf_empty)
            raise Undecided('method call ' + sx.render(e)[:50])
        if k == 'call':
            if sx.is_path(e['f']) and e['f']['p'] == 'Some' and len(e['args']) == 1:
                return ('some', self.ev(e['args'][0], env, c, peek, buf_empty))
            if sx.is_path(e['f']) and e['f']['p'] in self.helpers:
                h = self.helpers[e['f']['p']]
                ps = [p['pat']['n'] for p in h['sig']['params'] if p.get('k') == 'typed' and p['pat'].get('k') == 'ident']
                if len(ps) != len(e['args']) or len(ps) != len(h['sig']['params']):
                    raise Undecided('helper call ' + sx.render(e)[:50])
                vals = [self.ev(a, env, c, peek, buf_empty) for a in e['args']]
                sub = Code.__new__(Code)
                sub.helpers, sub.cvar, sub.iter, sub.buf = self.helpers, None, None, None
                henv = dict(zip(ps, vals))
                return sub._pure_block(h['body'], henv)
            raise Undecided('call ' + sx.render(e)[:50])
        if k == 'if':
            if self._b(e['c'], env, c, peek, buf_empty):
                return self._value_block(e['t'], env, c, peek, buf_empty)
            if 'e' not in e:
                raise Undecided('if without else used as a value')
            return self._value_block(e['e'], env, c, peek, buf_empty)
        if k == 'block':
            return self._value_block(e, env, c, peek, buf_empty)
        if k == 'macro' and e.get('p') == 'matches':
            raise Undecided('matches!')
        raise Undecided('expression ' + sx.render(e)[:50])

    def _b(self, e, env, c, peek, buf_empty):
        v = self.ev(e, env, c, peek, buf_empty)
        if not isinstance(v, bool):
            raise Undecided('non-boolean condition ' + sx.render(e)[:50])
        return v

    def _value_block(self, b, env, c, peek, buf_empty):
        if b.get('k') != 'block':
            return self.ev(b, env, c, peek, buf_empty)
        if len(b['stmts']) == 1 and b['stmts'][0]['k'] == 'expr' and not b['stmts'][0].get('semi'):
            return self.ev(b['stmts'][0]['e'], env, c, peek, buf_empty)
        raise Undecided('block used as a value')

    def _pure_block(self, b, env):
        """helper body: lets and a tail expression over its parameters (chars / bools)"""
        env = dict(env)
        stmts = b['stmts']
        for st in stmts[:-1]:
            if st['k'] == 'let' and st['pat'].get('k') == 'ident' and 'init' in st:
                env[st['pat']['n']] = self._pure(st['init'], env)
            else:
                raise Undecided('helper statement')
        last = stmts[-1]
        if last['k'] != 'expr' or last.get('semi'):
            raise Undecided('helper without tail expression')
        return self._pure(last['e'], env)

    def _pure(self, e, env):
        # a helper sees its parameters only; char-typed parameters answer the class predicates
        k = e.get('k')
        if k == 'mcall' and e['recv'].get('k') == 'path' and isinstance(env.get(e['recv']['p']), str) and not e['args']:
            if e['m'] in CHAR_PRED:
                return CHAR_PRED[e['m']](env[e['recv']['p']])
            raise Undecided('char method ' + e['m'])
        if k == 'binary':
            op = e['op']
            a = self._pure(e['l_'], env)
            if op == '&&':
                return a and self._pure(e['r'], env)
            if op == '||':
                return a or self._pure(e['r'], env)
            b = self._pure(e['r'], env)
            if op in ('|', '&', '^') and isinstance(a, bool) and isinstance(b, bool):
                return (a | b) if op == '|' else (a & b) if op == '&' else (a ^ b)
            if op in ('==', '!=') and type(a) is type(b):
                return (a == b) if op == '==' else (a != b)
            raise Undecided('helper operator ' + op)
        if k == 'unary' and e['op'] == '!':
            return not self._pure(e['e'], env)
        if k == 'unary' and e['op'] == '*':
            return self._pure(e['e'], env)
        if k == 'ref':
            return self._pure(e['e'], env)
        if k == 'path' and e['p'] in env:
            return env[e['p']]
        if k == 'lit' and e.get('t') in ('bool', 'char'):
            return bool(e['v']) if e['t'] == 'bool' else e['v']
        if k == 'macro' and e.get('p') == 'matches':
            raise Undecided('matches! in helper')
        if k == 'call' and sx.is_path(e['f']) and e['f']['p'] in self.helpers:
            h = self.helpers[e['f']['p']]
            ps = [p['pat']['n'] for p in h['sig']['params'] if p.get('k') == 'typed' and p['pat'].get('k') == 'ident']
            if len(ps) != len(e['args']):
                raise Undecided('helper arity')
            return self._pure_block(h['body'], dict(zip(ps, [self._pure(a, env) for a in e['args']])))
        raise Undecided('helper expression ' + sx.render(e)[:50])

    # ---- patterns (match on the character) -----------------------------------------------------------------------
    def pat_matches(self, p, v):
        k = p.get('k')
        if k == 'wild':
            return True
        if k == 'lit':
            lit = p['e']
            if lit.get('t') == 'char' and isinstance(v, str):
                return lit['v'] == v
            if lit.get('t') == 'bool' and isinstance(v, bool):
                return bool(lit['v']) == v
            raise Undecided('pattern literal')
        if k == 'or':
            return any(self.pat_matches(x, v) for x in p['e'])
        if k == 'tuple' and isinstance(v, tuple) and v and v[0] == 'tuple' and len(v) - 1 == len(p['e']):
            return all(self.pat_matches(x, y) for x, y in zip(p['e'], v[1:]))
        if k == 'ts' and p['p'] == 'Some' and isinstance(v, tuple) and v[0] in ('some', 'none'):
            return v[0] == 'some' and self.pat_matches(p['e'][0], v[1])
        if k == 'path' and p['p'] == 'None' and isinstance(v, tuple) and v[0] in ('some', 'none'):
            return v[0] == 'none'
        if k == 'ref':
            return self.pat_matches(p['p'], v)
        raise Undecided('pattern ' + sx.render(p)[:40])

    # ---- statements ----------------------------------------------------------------------------------------------
    def run_block(self, stmts, env, c, peek, acts, st):
        """returns 'next' | 'continue'; env is mutated; acts collects ('P', ch) / ('F',) / ('R',)"""
        for s in stmts:
            r = self.run_stmt(s, env, c, peek, acts, st)
            if r != 'next':
                return r
        return 'next'

    def buf_empty(self, acts, st):
        e = st
        for a in acts:
            if a[0] == 'P':
                e = self.buf_push(e, a[1])
            elif a[0] == 'R':
                e = BUF_EMPTY
        return e

    # The run buffer is abstracted as (length capped at `len_cap`, the last `track_k` characters with every character
    # that occurs in no `ends_with` literal of the body replaced by '?').  With no `len()` / `ends_with` in the body this
    # is exactly "empty / not empty".
    def buf_push(self, b, ch):
        n, suf = b
        k = self.track_k
        a = ch if ch in self.track_chars else '?'
        return (min(n + 1, self.len_cap), (suf + a)[-k:] if k else '')

    def cmp_len(self, op, a, b, e):
        if a[0] == 'int':
            a, b = b, a
            op = {'<': '>', '>': '<', '<=': '>=', '>=': '<='}.get(op, op)
        n, k = a[1], b[1]
        if n < self.len_cap:
            return {'==': n == k, '!=': n != k, '<': n < k, '>': n > k, '<=': n <= k, '>=': n >= k}[op]
        # n stands for every length >= len_cap
        if k < self.len_cap:
            return {'==': False, '!=': True, '<': False, '>': True, '<=': False, '>=': True}[op]
        if k == self.len_cap and op in ('>=', '<'):
            return op == '>='
        raise Undecided('length compared with %d beyond the tracked bound' % k)

    def scan_buffer_observers(self):
        self.track_k, self.track_chars, self.len_cap = 0, set(), 1
        ints = [0]
        uses_len = False
        for b in [self.fn['body']]:
            for n in sx.walk(b):
                if n.get('k') == 'mcall' and sx.render(n['recv']).replace(' ', '') == self.buf:
                    if n['m'] == 'ends_with' and len(n['args']) == 1 and n['args'][0].get('k') == 'lit':
                        a0 = n['args'][0]
                        lit = a0['v'] if a0.get('t') == 'char' else sx.lit_str(a0)
                        if lit and len(lit) <= 3:
                            self.track_k = max(self.track_k, len(lit))
                            self.track_chars |= set(lit)
                    elif n['m'] == 'len':
                        uses_len = True
                if n.get('k') == 'lit' and n.get('t') == 'int':
                    try:
                        ints.append(int(str(n['v']).rstrip('usize').rstrip('_') or '0'))
                    except ValueError:
                        pass
        if uses_len and max(ints) <= 6:
            self.len_cap = max(ints) + 1
        self.len_cap = max(self.len_cap, self.track_k + 1)

    def run_stmt(self, s, env, c, peek, acts, st):
        if s['k'] == 'let':
            if s['pat'].get('k') == 'ident' and 'init' in s:
                v = self.ev(s['init'], env, c, peek, self.buf_empty(acts, st))
                if not isinstance(v, bool):
                    raise Undecided('non-boolean local ' + s['pat']['n'])
                env[s['pat']['n']] = v
                return 'next'
            raise Undecided('let ' + sx.render(s)[:50])
        if s['k'] == 'macro' or (s['k'] == 'expr' and s['e'].get('k') == 'macro'):
            m = s if s['k'] == 'macro' else s['e']
            if m.get('p') in ('debug_assert', 'debug_assert_eq', 'debug_assert_ne'):
                return 'next'
            raise Undecided('macro ' + str(m.get('p')))
        if s['k'] != 'expr':
            raise Undecided('statement ' + sx.render(s)[:50])
        e = s['e']
        k = e.get('k')
        if k == 'continue':
            return 'continue'
        if k == 'assign':
            tgt = sx.render(e['l_']).replace(' ', '')
            if tgt == self.buf:
                rs = sx.render(e['r']).replace(' ', '')
                if any(rs.startswith(x.replace(' ', '')) for x in EMPTY_STRING_CTORS):
                    acts.append(('R',))
                    return 'next'
                raise Undecided('run buffer assigned ' + rs[:40])
            if tgt in env:
                v = self.ev(e['r'], env, c, peek, self.buf_empty(acts, st))
                if not isinstance(v, bool):
                    raise Undecided('flag assigned a non-boolean')
                env[tgt] = v
                return 'next'
            raise Undecided('assignment to ' + tgt)
        if k == 'mcall':
            rs = sx.render(e['recv']).replace(' ', '')
            if rs == self.buf and e['m'] == 'push' and len(e['args']) == 1:
                v = self.ev(e['args'][0], env, c, peek, self.buf_empty(acts, st))
                if not isinstance(v, str):
                    raise Undecided('push of non-char')
                acts.append(('P', v))
                return 'next'
            if rs == self.buf and e['m'] == 'clear' and not e['args']:
                acts.append(('R',))
                return 'next'
            if rs == self.out and e['m'] == 'push' and len(e['args']) == 1:
                a = sx.render(e['args'][0]).replace(' ', '')
                if a == self.buf:
                    acts.append(('F',))
                    return 'next'
                if a in ('std::mem::take(&mut%s)' % self.buf, 'mem::take(&mut%s)' % self.buf,
                         'std::mem::replace(&mut%s,String::new())' % self.buf, 'mem::replace(&mut%s,String::new())' % self.buf):
                    acts.append(('F',))
                    acts.append(('R',))
                    return 'next'
                if a == '%s.clone()' % self.buf:
                    acts.append(('F',))
                    acts.append(('K',))      # buffer kept after the run was emitted: must be cleared before the next append
                    return 'next'
                raise Undecided('output push of ' + a[:40])
            raise Undecided('method call ' + sx.render(e)[:50])
        if k == 'if':
            if e['c'].get('k') == 'let':
                v = self.ev(e['c']['e'], env, c, peek, self.buf_empty(acts, st))
                cond = self.pat_matches(e['c']['pat'], v)
            else:
                cond = self._b(e['c'], env, c, peek, self.buf_empty(acts, st))
            if cond:
                return self.run_block(e['t']['stmts'], env, c, peek, acts, st)
            if 'e' in e:
                el = e['e']
                if el.get('k') == 'block':
                    return self.run_block(el['stmts'], env, c, peek, acts, st)
                return self.run_stmt({'k': 'expr', 'e': el, 'semi': False}, env, c, peek, acts, st)
            return 'next'
        if k == 'block':
            return self.run_block(e['stmts'], env, c, peek, acts, st)
        if k == 'match':
            scr = e['e']
            if scr.get('k') == 'tuple':
                v = ('tuple',) + tuple(self.ev(x, env, c, peek, self.buf_empty(acts, st)) for x in scr['e'])
            else:
                v = self.ev(scr, env, c, peek, self.buf_empty(acts, st))
            for arm in e['arms']:
                if self.pat_matches(arm['pat'], v):
                    if 'guard' in arm and not self._b(arm['guard'], env, c, peek, self.buf_empty(acts, st)):
                        continue
                    b = arm['body']
                    if b.get('k') == 'block':
                        return self.run_block(b['stmts'], env, c, peek, acts, st)
                    return self.run_stmt({'k': 'expr', 'e': b, 'semi': True}, env, c, peek, acts, st)
            raise Undecided('non-exhaustive match')
        if k == 'tuple' and not e.get('e'):
            return 'next'
        raise Undecided('statement ' + sx.render(e)[:50])

    def step(self, flags, c, peek, buf_was_empty):
        env = dict(flags)
        acts = []
        self.run_block(self.body, env, c, peek, acts, buf_was_empty)
        return tuple(sorted((k, v) for k, v in env.items() if k in self.flags)), tuple(acts)

    def finish(self, flags, buf_was_empty):
        env = dict(flags)
        acts = []
        stmts = list(self.epilogue)
        if not stmts:
            raise Undecided('no epilogue')
        tail = stmts[-1]
        if not (tail['k'] == 'expr' and not tail.get('semi') and sx.render(tail['e']).replace(' ', '') == self.out):
            raise Undecided('function does not end by returning the output vector')
        self.run_block(stmts[:-1], env, None, EOF, acts, buf_was_empty)
        return tuple(acts)


# ---- reference monitor ---------------------------------------------------------------------------------------------
# state: (leading, lead_bs, in_comment, in_string, escaped, bq_prev, prev_ident_out, prev_kept)
M0 = (True, False, False, False, False, False, False, None, False)


def monitor(m, c, peek):
    """-> (keep?, ctx, m') or None when the context is not judged.  m[8] = between `" and `" (the string of the expansion)"""
    in_bq = m[8] if len(m) > 8 else False
    if c == '/' and peek == '*' and not m[2] and not m[3] and not in_bq:
        # a block comment in the macro body: whether a quote or // inside it has a lexical meaning is read differently by
        # the repository (it has) and by a lexer of the language (it has not) -- not judged.  Between `" and `" the two
        # characters are text of the string being built and stay judged.
        return None
    if in_bq and c == '"' and not m[5] and not m[2]:
        return None         # an ordinary quote between `" and `": not judged either
    r = monitor8(m[:8], c, peek)
    if r is None:
        return None
    keep, ctxname, m2 = r
    return keep, ctxname, m2 + ((not in_bq) if ctxname == 'bq-quote' else in_bq,)


def monitor8(m, c, peek):
    leading, lead_bs, in_comment, in_string, escaped, bq_prev, prev_io, prev_kept = m
    if leading:
        if c != '\\' and c not in ' \t\n\r\x0c':
            leading = False
        elif lead_bs and c == '\n':
            return False, 'leading', (False, False, False, False, False, False, False, None)
        else:
            return False, 'leading', (True, c == '\\', False, False, False, False, False, None)
    if in_comment:
        if c == '\n':
            return True, 'comment-end', (False, False, False, in_string, False, False, False, c)
        return False, 'comment', (False, False, True, in_string, False, bq_prev, False, None)
    if c == '"' and bq_prev:
        if in_string:
            return None
        return True, 'bq-quote', (False, False, False, False, False, False, False, c)
    if c == '"' and not in_string:
        return True, 'open', (False, False, False, True, False, False, False, c)
    if c == '"' and in_string and not escaped:
        return True, 'close', (False, False, False, False, False, False, False, c)
    if c == '/' and peek == '/' and not in_string:
        return False, 'comment', (False, False, True, False, False, False, False, None)
    if in_string:
        return True, 'string', (False, False, False, True, (c == '\\' and not escaped), c == '`', False, c)
    return True, 'plain', (False, False, False, False, False, c == '`', is_ident_char(c), c)


WHAT = {
    'comment-char-kept': 'a character of a one-line comment (or of the leading blanks) is appended to the substituted text',
    'char-lost': 'a character of the macro body outside comments is not appended (lost from the expansion)',
    'char-duplicated': 'a character of the macro body is appended more than once',
    'foreign-char': 'a character other than the one read is appended',
    'run-discarded': 'the run buffer is cleared while it holds characters that were never emitted',
    'append-after-emit': 'the run buffer is emitted and then appended to without being cleared (the run is emitted twice)',
    'last-run-lost': 'the last run is not emitted at the end of the body',
    'ident-glued-before': 'an identifier outside string literals is appended to the run of the text before it: a formal argument there is not replaced',
    'ident-glued-after': 'text is appended to the run of an identifier outside string literals: a formal argument there is not replaced',
    'ident-split': 'a run boundary falls inside an identifier: a formal whose name is a part of it is replaced inside the longer identifier',
    'string-ident-run': 'a run made only of identifier characters is formed from the inside of an ordinary string literal: a formal of that name is substituted inside the string (22.5.1 forbids it)',
    'paste-split': 'a run boundary separates the two characters of a token the rewrite chain looks for',
}


def find_tokeniser(ctx, pp):
    """role: the function of the preprocessor crate of type (&str) -> Vec<String> that the macro resolver iterates"""
    from rules.x_macro import resolver_fn
    res = resolver_fn(pp)
    cands = []
    for name, f in pp.fns.items():
        sig = f['sig']
        if sig.get('rets', '').replace(' ', '') == 'Vec<String>' and len(sig['params']) == 1 and sig['params'][0].get('tys', '').replace(' ', '') == '&str':
            called = any(n.get('k') == 'call' and sx.is_path(n['f']) and n['f']['p'] == name for _, rf in res for n in sx.walk(rf['body']))
            if called:
                cands.append((name, f))
    return cands, res


def paste_pairs(res):
    pairs = set()
    for _, rf in res:
        for n in sx.walk(rf['body']):
            if n.get('k') == 'mcall' and n['m'] == 'replace' and len(n['args']) == 2:
                s = sx.lit_str(n['args'][0])
                if s is not None and len(s) == 2:
                    pairs.add(s)
    return pairs


def analyse(code, pairs):
    """-> (findings {key: (ctx, witness, msg)}, stats)"""
    lits = set()
    srcs = [code.fn['body']] + [h['body'] for h in code.helpers.values()]
    for b in srcs:
        for n in sx.walk(b):
            if n.get('k') == 'lit' and n.get('t') == 'char':
                lits.add(n['v'])
    reps = sorted(lits | set('a0_ \n\r\\"/`+') | {ch for p in pairs for ch in p} | set(code.track_chars))
    flags0 = tuple(sorted(code.flags.items()))
    # product state: (flags, buf_empty, pending_keep, monitor, run_kind, tail_id, forced)
    init = (flags0, BUF_EMPTY, False, M0, 'E', False, None)
    seen = {init: None}
    q = deque([init])
    findings = {}
    step_cache = {}
    fin_cache = {}
    transitions = 0

    def witness(state, extra=''):
        out = []
        s = state
        while seen[s] is not None:
            s, ch = seen[s]
            out.append(ch)
        return ''.join(reversed(out)) + extra

    hit = [0]

    def report(kind, ctxname, state, extra):
        key = '%s:%s' % (kind, ctxname)
        hit[0] += 1
        if key not in findings:
            findings[key] = (witness(state, extra), WHAT[kind])

    def apply_acts(acts, state, c, keep, ctxname, m, at_eof=False, peek=EOF):
        """run the tracker over the actions of one step; returns (buf_empty, pending_keep, run_kind, tail_id)"""
        flags, buf_empty, pend, mon, run, tail, forced = state
        prev_io, prev_kept = mon[6], mon[7]
        extra = '' if at_eof else c + ('' if peek == EOF else peek)
        pushes = 0
        c_io = (not at_eof) and keep and ctxname == 'plain' and is_ident_char(c)
        i = 0
        while i < len(acts):
            a = acts[i]
            i += 1
            if a[0] == 'P':
                pushes += 1
                if pend:
                    report('append-after-emit', ctxname, state, extra)
                    pend = False
                if at_eof:
                    report('foreign-char', 'eof', state, extra)
                    continue
                if not keep:
                    report('comment-char-kept', ctxname, state, extra)
                    continue
                if a[1] != c:
                    report('foreign-char', ctxname, state, extra)
                    continue
                if pushes > 1:
                    report('char-duplicated', ctxname, state, extra)
                    continue
                cont = c_io and prev_io            # continues the identifier of the previous input character
                if c_io:
                    if cont:
                        if run == 'E':
                            report('ident-split', ctxname, state, extra)
                            run = 'O'
                        # otherwise the run keeps its kind
                    elif run == 'E':
                        run = 'IW'
                    else:
                        report('ident-glued-before', ctxname, state, extra)
                        run = 'O'
                    tail = True
                else:
                    if tail and run != 'E':
                        report('ident-glued-after', ctxname, state, extra)
                        run = 'O'
                    elif run == 'E':
                        run = 'IB' if is_ident_char(c) else 'O'
                        if prev_kept is not None and (prev_kept + c) in pairs:
                            report('paste-split', ctxname, state, extra)
                    elif run == 'IB':
                        run = 'IB' if is_ident_char(c) else 'O'
                    else:
                        run = 'O'
                    tail = False
                buf_empty = code.buf_push(buf_empty, c)
            elif a[0] == 'F':
                if run == 'IB':
                    report('string-ident-run', ctxname, state, extra)
                run, tail = 'E', False
                nxt = acts[i][0] if i < len(acts) else None
                if nxt == 'R':
                    i += 1
                    buf_empty, pend = BUF_EMPTY, False
                elif nxt == 'K':
                    i += 1
                    pend = buf_empty[0] != 0
                elif not at_eof:
                    raise Undecided('run buffer moved into the output and not re-initialised')
            elif a[0] == 'R':
                if run != 'E':
                    report('run-discarded', ctxname, state, extra)
                run, tail = 'E', False
                buf_empty, pend = BUF_EMPTY, False
        if not at_eof and keep and pushes == 0:
            report('char-lost', ctxname, state, extra)
        return buf_empty, pend, run, tail

    while q:
        state = q.popleft()
        flags, buf_empty, pend, mon, run, tail, forced = state
        for c in ([forced] if forced is not None else reps):
            for peek in [EOF] + reps:
                mres = monitor(mon, c, peek)
                if mres is None:
                    continue
                keep, ctxname, mon2 = mres
                ck = (flags, c, peek if code.iter else None, buf_empty)
                if ck not in step_cache:
                    step_cache[ck] = code.step(flags, c, peek, buf_empty)
                flags2, acts = step_cache[ck]
                transitions += 1
                # a moved-out buffer (F without R/K) is a compile error in Rust; F is always followed by R or K here
                before = hit[0]
                be, pd, rn, tl = apply_acts(acts, state, c, keep, ctxname, mon, peek=peek)
                if hit[0] != before:
                    continue        # first deviation on this path reported: what follows it is a consequence
                nxt = (flags2, be, pd, mon2, rn, tl, None if peek == EOF else peek)
                if peek == EOF:
                    fk = (flags2, be)
                    if fk not in fin_cache:
                        fin_cache[fk] = code.finish(flags2, be)
                    facts = fin_cache[fk]
                    mid = (flags2, be, pd, mon2, rn, tl, None)
                    if mid not in seen:
                        seen[mid] = (state, c)
                    be2, pd2, rn2, tl2 = apply_acts(facts, mid, '', False, 'eof', mon2, at_eof=True)
                    if rn2 != 'E':
                        report('last-run-lost', 'eof', mid, '')
                    continue
                if nxt not in seen:
                    seen[nxt] = (state, c)
                    q.append(nxt)
    return findings, {'product_states': len(seen), 'transitions': transitions, 'representatives': len(reps),
                      'code_steps_interpreted': len(step_cache), 'flags': len(code.flags)}


# ---- X19: the substitution loop and the rewrite chain of the resolver ----------------------------------------------
# IEEE 1800-2017 22.5.1: `` delimits tokens without introducing white space; `" is a quote in the expansion; `\`" is \";
# a backslash-newline continues the body on the next line (the newline stays).
REWRITES = {'``': '', '`"': '"', '`\\`"': '\\"', '\\\n': '\n'}
REWRITES_OPTIONAL = {'\\\r\n': '\r\n', '\\\r': '\r'}


def _strip(e):
    while isinstance(e, dict) and (e.get('k') == 'ref' or (e.get('k') == 'unary' and e['op'] == '*')):
        e = e['e']
    return e


def _chain(e, run, fns, depth=0):
    """`RUN.replace(a, b).replace(c, d)...` (possibly inside a private helper taking the run) -> [(a, b), ...] in
    application order, or None"""
    e = _strip(e)
    pairs = []
    while isinstance(e, dict) and e.get('k') == 'mcall':
        if e['m'] == 'replace' and len(e['args']) == 2:
            a, b = sx.lit_str(_strip(e['args'][0])), sx.lit_str(_strip(e['args'][1]))
            if a is None or b is None:
                return None
            pairs.append((a, b))
        elif e['m'] in ('as_str', 'to_string', 'clone', 'to_owned', 'as_ref') and not e['args']:
            pass
        else:
            return None
        e = _strip(e['recv'])
    if sx.is_path(e, run):
        return list(reversed(pairs))
    if depth == 0 and isinstance(e, dict) and e.get('k') == 'call' and sx.is_path(e['f']) and e['f']['p'] in fns and len(e['args']) == 1 \
            and sx.is_path(_strip(e['args'][0]), run):
        h = fns[e['f']['p']]
        ps = [q['pat']['n'] for q in h['sig']['params'] if q.get('k') == 'typed' and q['pat'].get('k') == 'ident']
        st = h['body']['stmts']
        if len(ps) == 1 and len(st) == 1 and st[0]['k'] == 'expr' and not st[0].get('semi'):
            inner = _chain(st[0]['e'], ps[0], fns, 1)
            if inner is not None:
                return inner + list(reversed(pairs))
    return None


def run_subst(ctx, pp, res, tok_name):
    r = RuleResult('X19', 'macro resolver: each run is replaced by the actual argument bound to it or appended after the 22.5.1 rewrites, in order')
    if len(res) != 1 or tok_name is None:
        r.undecided('resolver', pp.where(1), 'resolver / tokeniser not uniquely identified')
        return r
    rname, rf = res[0]
    W = lambda n: pp.where(n.get('l') or rf['l'])
    loops = [n for n in sx.walk(rf['body']) if n.get('k') == 'for' and any(
        c.get('k') == 'call' and sx.is_path(c['f'], tok_name) for c in sx.walk(n['e']))]
    if len(loops) != 1 or loops[0]['pat'].get('k') != 'ident':
        r.undecided('%s:loop' % rname, pp.where(rf['l']), '%d loops over the tokeniser result' % len(loops))
        return r
    lp = loops[0]
    run = lp['pat']['n']
    body = lp['body']['stmts']
    r.inst('%s:loop' % rname, {'loop_over': sx.render(lp['e'])[:50], 'run_variable': run})

    def appends(node):
        return [n for n in sx.walk(node) if n.get('k') == 'mcall' and n['m'] in ('push_str', 'push') and len(n['args']) == 1 and sx.is_path(n['recv'])]

    # shape: if let Some(V) = MAP.get(&RUN) { BUF.push_str(V) } else { BUF.push_str(&RUN...) }   (or the match form)
    then = els = val = lookup = None
    if len(body) == 1 and body[0]['k'] == 'expr':
        e = body[0]['e']
        if e.get('k') == 'if' and e['c'].get('k') == 'let' and 'e' in e:
            pat = e['c']['pat']
            if pat.get('k') == 'ts' and pat['p'] == 'Some' and len(pat['e']) == 1 and pat['e'][0].get('k') == 'ident':
                val, lookup, then, els = pat['e'][0]['n'], e['c']['e'], e['t'], e['e']
        elif e.get('k') == 'match' and len(e['arms']) == 2:
            for arm in e['arms']:
                pat = arm['pat']
                if pat.get('k') == 'ts' and pat['p'] == 'Some' and len(pat['e']) == 1 and pat['e'][0].get('k') == 'ident':
                    val, then = pat['e'][0]['n'], arm['body']
                elif (pat.get('k') == 'path' and pat['p'] == 'None') or pat.get('k') == 'wild':
                    els = arm['body']
            lookup = e['e']
    lk = _strip(lookup) if lookup else None
    if not (then and els and lk and lk.get('k') == 'mcall' and lk['m'] == 'get' and len(lk['args']) == 1):
        r.undecided('%s:substitution-shape' % rname, W(lp), 'the loop body is not `if let Some(v) = MAP.get(&RUN) { append v } else { append rewritten RUN }`')
        return r
    r.inst('%s:lookup-key' % rname)
    key = _strip(lk['args'][0])
    if not sx.is_path(key, run):
        kr = sx.render(key)
        if any(sx.is_path(n, run) for n in sx.walk(key)):
            r.undecided('%s:lookup-key' % rname, W(lk), 'the formal is looked up under `%s`, not under the run itself' % kr[:40])
        else:
            r.fail('%s:lookup-key' % rname, W(lk), 'the formal is looked up under `%s`, which is not the run being replaced' % kr[:40])
    ta, ea = appends(then), appends(els)
    bufs = {n['recv']['p'] for n in ta + ea}
    r.inst('%s:then-appends-value' % rname)
    if len(ta) == 1 and sx.is_path(_strip(ta[0]['args'][0]), val):
        pass
    elif len(ta) == 1 and any(sx.is_path(n, run) for n in sx.walk(ta[0]['args'][0])) and not any(sx.is_path(n, val) for n in sx.walk(ta[0]['args'][0])):
        r.fail('%s:formal-not-substituted' % rname, W(ta[0]), 'a run that names a formal is appended as it stands instead of the actual argument bound to it')
    elif not ta:
        r.fail('%s:formal-dropped' % rname, W(then), 'a run that names a formal appends nothing: the actual argument is lost from the expansion')
    else:
        r.undecided('%s:then-appends-value' % rname, W(then), 'what is appended for a formal is not recognised')
    r.inst('%s:else-appends-run' % rname)
    pairs = None
    if len(ea) == 1:
        helpers = {n: f for n, f in pp.fns.items()}
        pairs = _chain(ea[0]['args'][0], run, helpers)
        if pairs is None:
            if any(sx.is_path(n, run) for n in sx.walk(ea[0]['args'][0])):
                r.undecided('%s:rewrite-chain' % rname, W(ea[0]), 'the text appended for an ordinary run is not a chain of literal `replace` calls on the run')
            else:
                r.fail('%s:text-replaced' % rname, W(ea[0]), 'what is appended for an ordinary run does not derive from the run')
    elif not ea:
        r.fail('%s:text-dropped' % rname, W(els), 'a run that names no formal appends nothing: the text of the macro body is lost')
    else:
        r.undecided('%s:else-appends-run' % rname, W(els), '%d appends for an ordinary run' % len(ea))
    if len(bufs) > 1:
        r.fail('%s:two-buffers' % rname, W(lp), 'substituted and ordinary runs are appended to different buffers (%s): their order is lost' % sorted(bufs))
    if pairs is not None:
        r.counts['rewrites'] = len(pairs)
        have = dict(pairs)
        for pat, rep in REWRITES.items():
            r.inst('%s:rewrite:%r' % (rname, pat), {'pattern': pat, 'replacement': have.get(pat)})
            if pat not in have:
                r.fail('%s:rewrite-missing:%s' % (rname, pat.encode('unicode_escape').decode()), W(ea[0]), 'the rewrite chain no longer rewrites %r (22.5.1: -> %r)' % (pat, rep))
        allr = dict(REWRITES)
        allr.update(REWRITES_OPTIONAL)
        for pat, rep in pairs:
            if pat in allr:
                if rep != allr[pat]:
                    r.fail('%s:rewrite-wrong:%s' % (rname, pat.encode('unicode_escape').decode()), W(ea[0]), '%r is rewritten to %r; 22.5.1 gives %r' % (pat, rep, allr[pat]))
            else:
                r.undecided('%s:rewrite-unknown:%s' % (rname, pat.encode('unicode_escape').decode()), W(ea[0]), 'rewrite %r -> %r is not one the rule knows' % (pat, rep))
        for i in range(len(pairs)):
            for j in range(i + 1, len(pairs)):
                r.inst()
                if pairs[i][0] != pairs[j][0] and pairs[i][0] in pairs[j][0]:
                    r.fail('%s:rewrite-order:%s' % (rname, pairs[j][0].encode('unicode_escape').decode()), W(ea[0]),
                           '%r is rewritten before %r, which contains it: the longer token is destroyed before its own rewrite can apply' % (pairs[i][0], pairs[j][0]))
    return r


def run(ctx):
    pp = model(ctx)
    r = RuleResult('X18', 'macro-body tokeniser: identifiers outside strings are runs of their own, string literals and comments are opaque, nothing is lost (finite-state product with the 22.5.1 lexical contexts)')
    if pp.problems:
        for p in pp.problems:
            r.fail('anchor:' + p, pp.where(1), 'preprocessor model: %s (fail closed)' % p)
        return [r, RuleResult('X19', 'macro resolver substitution loop')]
    cands, res = find_tokeniser(ctx, pp)
    if len(cands) != 1:
        r.undecided('tokeniser', pp.where(1), 'no unique (&str) -> Vec<String> function iterated by the macro resolver (%d candidates): the run-splitting is not analysed' % len(cands))
        return [r, run_subst(ctx, pp, res, None)]
    name, fn = cands[0]
    r2 = run_subst(ctx, pp, res, name)
    where = pp.where(fn['l'])
    helpers = {n: f for n, f in pp.fns.items() if n != name}
    pairs = paste_pairs(res)
    try:
        code = Code(fn, helpers)
        findings, stats = analyse(code, pairs)
    except Undecided as u:
        r.undecided('%s:shape' % name, where, 'the tokeniser is written outside the interpreted subset (%s): not analysed' % u)
        return [r, r2]
    r.counts.update(stats)
    r.counts['paste_pairs'] = len(pairs)
    r.inst(name, '%s: %d product states, %d transitions over %d character classes' % (name, stats['product_states'], stats['transitions'], stats['representatives']))
    for _ in range(stats['product_states'] - 1):
        r.inst()
    for key, (wit, msg) in sorted(findings.items()):
        r.fail('%s:%s' % (name, key), where, '%s — shortest macro body reaching it: %r' % (msg, wit), {'macro_body': wit})
    return [r, r2]
