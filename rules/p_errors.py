"""P3 — no error of the preprocessor / façade layer is dropped.

Every call site (in sv-parser-pp and sv-parser) of a function of those crates that returns `Result<_, Error>` must hand the
error on: `?` (possibly after `.map_err(..)` / `.map(..)`), being the returned / tail value, a `match` / `if let` whose
error side evaluates to an `Err(..)`, or a binding that is later used in one of these ways.  Turning the error into a
default (`_ => ..`, `.ok()`, `.unwrap_or*(..)`, `if let Ok(..) = ..` without an erroring `else`), or ignoring the value, is
a violation: the caller then reports something else than the error that occurred — e.g. a recursive macro used as an
`` `include `` operand no longer ends in ExceedRecursiveLimit but in a file-system error for an empty path (C09), a misuse
of a macro is no longer reported by name (C05), an include error loses its cause (C10).  Other contexts are UNDECIDED.
"""
from vlib import sx
from vlib.report import RuleResult

CRATES = ('sv-parser-pp', 'sv-parser')
KEEP = ('map_err', 'map', 'and_then', 'or_else')          # Result -> Result adaptors
SWALLOW = ('ok', 'unwrap_or', 'unwrap_or_default', 'unwrap_or_else', 'is_ok', 'is_err', 'err', 'iter', 'into_iter')


def result_fns(syn):
    out = {}
    for crate in CRATES:
        for fl, mp, fn, im in sx.crate_fns(syn, crate):
            rets = (fn['sig'].get('rets') or '').replace(' ', '')
            if rets.startswith('Result<') and rets.rstrip('>').endswith('Error') and im is None:
                out[fn['name']] = (crate, fl, fn)
    return out


def yields_err(e):
    """does the expression (block / arm body) evaluate to or return an Err(..)?"""
    if not isinstance(e, dict):
        return False
    for n in sx.walk(e):
        if sx.is_call(n, 'Err') or (n.get('k') == 'call' and sx.is_path(n['f']) and n['f']['p'].endswith('::Err')):
            return True
        if n.get('k') == 'try':
            return True
    return False


def run(ctx):
    syn = ctx.syn
    r = RuleResult('P3', 'errors returned by the preprocessor / façade functions are handed on at every call site, never replaced by a default')
    rf = result_fns(syn)
    r.floor('result_returning_functions', len(rf), 8)
    sites = 0
    for crate in CRATES:
        for fl, mp, fn, im in sx.crate_fns(syn, crate):
            body = fn.get('body')
            if not body:
                continue
            if any(a.get('p') == 'test' or 'test' in str(a.get('a', '')) for a in fn.get('attrs', [])):
                continue
            if 'tests' in mp:
                continue

            def visit(node, chain):
                nonlocal sites
                if isinstance(node, dict):
                    if node.get('k') == 'call' and sx.is_path(node['f']) and node['f']['p'].split('::')[-1] in rf:
                        sites += 1
                        judge(node, chain)
                    for k, v in node.items():
                        if isinstance(v, (dict, list)):
                            visit(v, chain + [(node, k)])
                elif isinstance(node, list):
                    for v in node:
                        visit(v, chain)

            def judge(call, chain):
                callee = call['f']['p'].split('::')[-1]
                key = '%s:%s->%s' % (crate, fn['name'], callee)
                where = '%s/%s:%s' % (crate, fl, call.get('l') or fn['l'])
                r.inst(key)
                # climb through Result->Result adaptors
                i = len(chain) - 1
                cur = call
                while i >= 0:
                    parent, slot = chain[i]
                    pk = parent.get('k')
                    if pk == 'mcall' and slot == 'recv' and parent['m'] in KEEP:
                        cur = parent
                        i -= 1
                        continue
                    break
                if i < 0:
                    r.undecided(key + ':context', where, 'call of %s at the root of the body' % callee)
                    return
                parent, slot = chain[i]
                pk = parent.get('k')
                if pk == 'try':
                    return
                if pk == 'mcall' and slot == 'recv':
                    if parent['m'] in SWALLOW:
                        r.fail(key + ':swallowed', where, '%s: the error of %s(..) is discarded by `.%s(..)`: the caller goes on with a default and reports something else, or nothing' % (fn['name'], callee, parent['m']))
                    elif parent['m'] in ('unwrap', 'expect'):
                        pass        # a panic site: P1's business
                    else:
                        r.undecided(key + ':context', where, '%s: result of %s(..) goes through `.%s(..)`' % (fn['name'], callee, parent['m']))
                    return
                if pk == 'return':
                    return
                if pk == 'expr' and slot == 'e':
                    # statement or tail expression of a block
                    if parent.get('semi'):
                        r.fail(key + ':ignored', where, '%s: the result of %s(..) is computed and thrown away' % (fn['name'], callee))
                        return
                    # tail of a block: is that block the function body (or the value of a returned block)?
                    return_like = True
                    j = i - 1
                    while j >= 0:
                        p2, s2 = chain[j]
                        if p2.get('k') in ('block',) or s2 in ('stmts', 't', 'e', 'body', 'arms') or p2.get('k') in ('if', 'match'):
                            j -= 1
                            continue
                        return_like = p2.get('k') in ('fn',) or j == 0
                        break
                    if return_like:
                        return
                    r.undecided(key + ':context', where, '%s: %s(..) is the value of an inner block' % (fn['name'], callee))
                    return
                if pk == 'match' and slot == 'e':
                    err_arms = []
                    catch_all = []
                    for arm in parent['arms']:
                        pt = sx.render(arm['pat']).replace(' ', '')
                        if pt.startswith('Err(') or pt.startswith('Result::Err('):
                            err_arms.append(arm)
                        elif pt == '_' or arm['pat'].get('k') == 'ident':
                            catch_all.append(arm)
                    bad = [a for a in err_arms + catch_all if not yields_err(a['body'])]
                    if not err_arms and not catch_all:
                        r.undecided(key + ':context', where, '%s: match on %s(..) without an Err arm' % (fn['name'], callee))
                    elif bad:
                        r.fail(key + ':swallowed', '%s/%s:%s' % (crate, fl, bad[0].get('l') or call.get('l')),
                               '%s: the arm `%s` of the match on %s(..) takes the error case and does not evaluate to an Err: the error that occurred is replaced '
                               'by a default' % (fn['name'], sx.render(bad[0]['pat'])[:30], callee))
                    return
                if pk == 'let' and slot == 'e' and any(k2 == 'c' for _, k2 in chain[i - 1:i]):
                    # `if let PAT = call {..} else {..}` / `while let`
                    holder, _ = chain[i - 1]
                    pt = sx.render(parent['pat']).replace(' ', '')
                    if holder.get('k') == 'if':
                        if pt.startswith('Ok('):
                            if 'e' not in holder or not yields_err(holder['e']):
                                r.fail(key + ':swallowed', where, '%s: `if let %s = %s(..)` has no branch that hands the error on' % (fn['name'], pt[:20], callee))
                            return
                        if pt.startswith('Err('):
                            if not yields_err(holder['t']):
                                r.fail(key + ':swallowed', where, '%s: the error of %s(..) is caught by `if let Err(..)` and not handed on' % (fn['name'], callee))
                            return
                    r.undecided(key + ':context', where, '%s: %s(..) matched by `%s`' % (fn['name'], callee, pt[:30]))
                    return
                if pk == 'let' and slot == 'init':
                    names = [n for n in sx.pat_idents(parent['pat']) if n]
                    if parent['pat'].get('k') == 'wild':
                        r.fail(key + ':ignored', where, '%s: the result of %s(..) is bound to `_`' % (fn['name'], callee))
                        return
                    if len(names) == 1 and parent['pat'].get('k') == 'ident':
                        v = names[0]
                        uses = [n for n in sx.walk(body) if n.get('k') == 'try' and sx.is_path(n['e'], v)]
                        uses += [n for n in sx.walk(body) if n.get('k') == 'match' and sx.is_path(n['e'], v)]
                        uses += [n for n in sx.walk(body) if n.get('k') == 'return' and 'e' in n and sx.is_path(n['e'], v)]
                        if uses:
                            return
                    r.undecided(key + ':context', where, '%s: result of %s(..) bound by `%s`' % (fn['name'], callee, sx.render(parent['pat'])[:30]))
                    return
                if pk == 'call' and sx.is_path(parent['f']) and parent['f']['p'] in ('Ok', 'Some'):
                    r.undecided(key + ':context', where, '%s: result of %s(..) wrapped in %s(..)' % (fn['name'], callee, parent['f']['p']))
                    return
                r.undecided(key + ':context', where, '%s: %s(..) used in a `%s` (%s)' % (fn['name'], callee, pk, slot))

            visit(body, [({'k': 'fn'}, 'body')])
    r.counts['call_sites'] = sites
    r.floor('call_sites', sites, 12)
    return [r]
