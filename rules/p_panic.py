"""P1 — every panic-capable site of the workspace crates is in a class with a structural discharge."""
import re
from vlib import sx
from vlib.report import RuleResult
from rules.s_state import mir, Prims, is_with, PARSER, PP

CRATES = ['sv_parser', 'sv_parser_error', 'sv_parser_parser', 'sv_parser_pp', 'sv_parser_syntaxtree']
PANICKY = re.compile(r'(::unwrap$|::expect$|::unwrap_err$|::expect_err$|::unwrap_unchecked$|^core::panicking::|^std::rt::|^std::panicking::'
                     r'|::index$|::index_mut$|::borrow_mut$|::borrow$|unwrap_failed|^core::slice::index|^core::str::slice_error'
                     r'|^core::option::expect_failed|^alloc::vec::.*::(remove|swap_remove|insert|split_off|drain)$'
                     r'|^alloc::string::.*::(remove|insert|insert_str|truncate|split_off|drain|replace_range)$'
                     r'|^core::str::.*::(split_at|split_at_mut)$|^core::slice::.*::(split_at|copy_from_slice|chunks|windows)$'
                     r'|^core::num::.*::(pow|abs|div_euclid|rem_euclid)$|^core::char::.*::(from_digit)$|::copy_from_slice$)')


def type_of_conversion(gen):
    """<&'a T as Trait<..>>::m  ->  T (last path segment)"""
    m = re.match(r"^<&?(?:'\w+ )?(?:mut )?([\w:]+)(?:<.*?>)? as ", gen)
    if not m:
        return None
    return m.group(1).split('::')[-1]


def run(ctx):
    m = mir(ctx)
    nt = ctx.types
    g = ctx.grammar
    r = RuleResult('P1', 'every panic-capable site reachable from the public API is discharged by a structural rule')
    has_locate = nt.must_contain(('Locate',))
    has_ident = nt.must_contain(('SimpleIdentifier', 'EscapedIdentifier'))
    # G2 results (lexeme unwraps)
    from rules import g_lex
    import props
    g2 = props.rule('G2')[1](ctx)
    g2_ok = True
    g2_bad_fns = {f.key.split(':')[2] for x in g2 for f in x.findings if len(f.key.split(':')) > 2}
    g2_lines = {l for (l, c) in getattr(ctx, 'g2_unwraps', set())}
    # S6 (with-closures are leaves)
    s6 = props.rule('S6')[1](ctx)
    s6_ok = not any(x.findings for x in s6)
    from rules.s_state import all_with_closures
    with_closures = set(all_with_closures(m))
    classes = {}

    def count(cls, ok, b, c, why_bad=None, sample=None):
        classes.setdefault(cls, [0, 0])
        classes[cls][0] += 1
        r.inst('%s:%s:%s:%d' % (cls, b.name, c.callee if hasattr(c, 'callee') else c, classes[cls][0]), sample if classes[cls][0] <= 2 else None)
        if not ok:
            classes[cls][1] += 1
            r.fail('%s:%s:%s' % (b.crate, b.name.replace(b.crate + '::', ''), cls), '%s:%s' % (b.file, c.line if hasattr(c, 'line') else b.line),
                   '%s: %s' % (b.name, why_bad))

    # ---- E1 side facts
    from rules.x_pp import model as ppmodel
    pp = ppmodel(ctx)
    # Range::new(a, b): b is a or a + e
    range_sites = []
    for fl, mp, fn, im in sx.crate_fns(ctx.syn, 'sv-parser-pp'):
        for n in sx.walk(fn.get('body')):
            if sx.is_call(n) and n['f']['p'] == 'Range::new' and len(n['args']) == 2:
                a, b2 = sx.render(n['args'][0]).replace(' ', ''), sx.render(n['args'][1]).replace(' ', '')
                ok = b2 == a or b2.startswith('(' + a + '+') or b2.endswith('+' + a + ')')
                if not ok and sx.is_path(n['args'][0]) and sx.is_path(n['args'][1]):
                    # begin / end are locals bound to the same growing length, begin first:  let b = X.len(); ..push..; let e = X.len();
                    lets_ = {}
                    for st_ in sx.walk(fn['body']):
                        if st_.get('k') == 'let' and 'pat' in st_ and 'init' in st_ and st_['pat'].get('k') == 'ident':
                            lets_.setdefault(st_['pat']['n'], []).append(st_)
                    la, lb = lets_.get(a, []), lets_.get(b2, [])
                    if len(la) == 1 and len(lb) == 1:
                        ia, ib = sx.render(la[0]['init']).replace(' ', ''), sx.render(lb[0]['init']).replace(' ', '')
                        if ia == ib and ia.endswith('.len()') and la[0].get('l', 0) < lb[0].get('l', 0):
                            ok = True
                if not ok and sx.is_path(n['args'][0]) and b2.endswith('.len()'):
                    # begin is a local bound earlier to the very length expression that is the end: `let start = X.len(); .. Range::new(start, X.len())`
                    # (a String only grows between the two reads unless it is truncated, which the output text never is: X3 writers)
                    la_ = [st_ for st_ in sx.walk(fn['body']) if st_.get('k') == 'let' and 'init' in st_ and st_.get('pat', {}).get('k') == 'ident' and st_['pat']['n'] == a]
                    shrink_ = [z for z in sx.walk(fn['body']) if z.get('k') == 'mcall' and z['m'] in ('truncate', 'clear', 'pop', 'drain', 'remove', 'replace_range', 'retain')
                               and sx.render(z['recv']).replace(' ', '') + '.len()' == b2]
                    if len(la_) == 1 and sx.render(la_[0]['init']).replace(' ', '') == b2 and (la_[0].get('l') or 0) < (n.get('l') or 0) and not shrink_:
                        ok = True
                range_sites.append((fn['name'], n.get('l'), a, b2, ok))
    # Locate::str(arg): arg is the function's text parameter
    str_sites = []
    for crate in ('sv-parser-pp', 'sv-parser'):
        for fl, mp, fn, im in sx.crate_fns(ctx.syn, crate):
            params = []
            for p_ in fn['sig']['params']:
                if p_.get('k') == 'typed' and p_['tys'].replace(' ', '') in ('&str', "&'astr"):
                    params += sx.pat_idents(p_['pat'])
            for n in sx.walk(fn.get('body')):
                if n.get('k') == 'mcall' and n['m'] == 'str' and len(n['args']) == 1:
                    arg = sx.strip_ref(n['args'][0])
                    ok = sx.is_path(arg) and arg['p'] in params
                    str_sites.append((crate, fn['name'], n.get('l'), sx.render(n['args'][0]), ok))

    for crate in CRATES:
        for b in m.by_crate.get(crate, []):
            by_line = {}
            for c in b.calls:
                by_line.setdefault(c.line, []).append(c)
            for c in b.calls:
                if not c.callee or not PANICKY.search(c.callee):
                    continue
                cal = c.callee
                meth = cal.split('::')[-1]
                if cal.startswith('core::panicking::') and any(mn.startswith('debug_assert') for mn in getattr(c, 'macros', [])):
                    # debug-only self-check (compiled out of release builds), excluded by kind like the overflow checks
                    classes.setdefault('debug_assert(excluded by kind)', [0, 0])[0] += 1
                    continue
                # ---------------- parser crate
                if crate == PARSER and meth == 'unwrap' and cal.startswith('core::option::'):
                    owner_fn = m.owner(b.name).split('::')[-1]
                    g2_und = getattr(ctx, 'g2_undecided', set())
                    if (owner_fn in g2_und or (g2_und and owner_fn in getattr(g, 'concat_helpers', ()))) and c.line not in g2_lines:
                        classes.setdefault('lexeme-concat-unwrap(undecided)', [0, 0])[0] += 1
                        r.undecided('%s:%s:lexeme-unwrap' % (b.crate, owner_fn), '%s:%s' % (b.file, c.line),
                                    'unwrap in %s: the lexeme interpreter (G2) could not model this function, so the join is not proven adjacent' % owner_fn)
                        continue
                    ok = owner_fn not in g2_bad_fns and c.line in g2_lines
                    count('lexeme-concat-unwrap', ok, b, c, 'Option::unwrap outside the lexeme joins that G2 proves adjacent / non-empty '
                          '(line %d not visited by G2 or G2 failing)' % c.line, {'site': b.name, 'line': c.line, 'discharged_by': 'G2'})
                    continue
                if crate == PARSER and meth in ('borrow', 'borrow_mut') and cal.startswith('core::cell::'):
                    ok = s6_ok and (b.name in with_closures)
                    count('refcell-borrow-in-with-closure', ok, b, c, 'RefCell::%s outside a leaf closure passed to LocalKey::with (S6): a nested '
                          'borrow can panic' % meth, {'site': b.name, 'discharged_by': 'S6'})
                    continue
                # ---------------- pp crate
                if crate == PP and meth == 'unwrap' and cal.startswith('core::result::'):
                    conv = [x for x in by_line.get(c.line, []) if x.callee and x.callee.endswith('::try_into') or (x.callee and x.callee.endswith('::try_from'))]
                    t = None
                    for x in conv:
                        t = type_of_conversion(x.gen) or t
                    if not conv:
                        count('unclassified:' + cal, False, b, c, 'Result::unwrap at line %d is in no discharged class (not a Locate::try_from(&node))' % c.line)
                        continue
                    ok = t is not None and (t == 'Locate' or t in has_locate)
                    count('locate-of-node-unwrap', ok, b, c, 'Locate::try_from(&%s).unwrap(): a %s need not contain a token, so the conversion can '
                          'fail and the unwrap panic' % (t, t), {'site': b.name, 'line': c.line, 'node_type': t, 'must_contain_Locate': ok})
                    continue
                if crate == PP and meth == 'unwrap' and cal.startswith('core::option::'):
                    idc = [x for x in by_line.get(c.line, []) if x.callee == PP + '::preprocess::identifier']
                    conv = [x for x in by_line.get(c.line, []) if x.callee and x.callee.endswith('::into') and 'RefNode' in x.gen]
                    t = None
                    for x in conv:
                        t = type_of_conversion(x.gen) or t
                    if not idc:
                        count('unclassified:' + cal, False, b, c, 'Option::unwrap at line %d is in no discharged class (not the result of identifier(<node>))' % c.line)
                        continue
                    ok = bool(idc) and t is not None and t in has_ident
                    count('identifier-of-node-unwrap', ok, b, c, 'identifier(<%s>).unwrap(): a %s need not contain an identifier' % (t, t),
                          {'site': b.name, 'line': c.line, 'node_type': t, 'must_contain_identifier': ok})
                    continue
                if crate == PP and cal == 'core::panicking::panic' and b.name.endswith('::new') and 'range' in b.name:
                    bad = [s_ for s_ in range_sites if not s_[4]]
                    ok = not bad and len(range_sites) >= 1
                    count('range-new-assert', ok, b, c, 'Range::new asserts begin <= end; call sites with an end that is not `begin` or `begin + e`: %s' % bad[:3],
                          {'assert': 'begin <= end', 'call_sites': len(range_sites), 'all_of_form_begin_plus_len': ok})
                    continue
                if crate == PP and meth == 'index' and cal.startswith('core::str::') and b.name.endswith('::identifier'):
                    # &x[1..] on the text of an EscapedIdentifier: the lexeme starts with the 1-byte literal "\"
                    esc = g.fns.get('escaped_identifier_impl')
                    ok = False
                    if esc is not None and esc.stmts and esc.stmts[0][0] == 'bind':
                        first = esc.stmts[0][3]
                        ok = first.get('op') == 'lit' and first['text'] is not None and len(first['text'].encode()) == 1
                    slices = [n for n in sx.walk(pp.fns['identifier']['body']) if n.get('k') == 'index']
                    ok = ok and len(slices) == 1 and sx.render(slices[0]['i']).replace(' ', '') == '1..'
                    count('escaped-identifier-slice', ok, b, c, '&x[1..] requires the escaped-identifier lexeme to start with a 1-byte character',
                          {'slice': '&x[1..]', 'lexeme_starts_with_1_byte_literal': ok})
                    continue
                # ---------------- syntaxtree
                if crate == 'sv_parser_syntaxtree' and cal == 'core::panicking::assert_failed' and b.name.endswith('::try_from'):
                    count('derive-adjacency-assert', True, b, c, None, {'site': b.pretty, 'discharged_by': 'C01 rule set (leaves of a parsed node are contiguous)'})
                    continue
                if crate == 'sv_parser_syntaxtree' and meth == 'index' and cal.startswith('core::str::') and b.name.endswith('::str'):
                    bad = [s_ for s_ in str_sites if not s_[4]]
                    ok = not bad and len(str_sites) >= 20
                    count('locate-str-slice', ok, b, c, 'Locate::str slices its argument: call sites not passing the text the tree was parsed from: %s' % bad[:3],
                          {'call_sites': len(str_sites), 'all_pass_own_text_parameter': ok})
                    continue
                # ---------------- facade
                if crate == 'sv_parser' and meth == 'unwrap' and cal.startswith('core::option::'):
                    # self.get_str(locate).unwrap() with `locate` bound by RefNode::Locate(locate)
                    ok = False
                    for fl, mp, fn, im in sx.crate_fns(ctx.syn, 'sv-parser'):
                        if fn['name'] != 'fmt':
                            continue
                        for n in sx.walk(fn['body']):
                            if n.get('k') == 'mcall' and n['m'] == 'unwrap' and n.get('l') is not None and abs(n['l'] - c.line) <= 8:
                                rc = n['recv']
                                if rc.get('k') == 'mcall' and rc['m'] == 'get_str' and len(rc['args']) == 1 and sx.is_path(rc['args'][0]):
                                    v = rc['args'][0]['p']
                                    # enclosing arm binds v via RefNode::Locate(v)
                                    for mm in sx.walk(fn['body']):
                                        if mm.get('k') == 'match':
                                            for arm in mm['arms']:
                                                if 'RefNode::Locate(%s)' % v in sx.render(arm['pat']).replace(' ', '') and any(x is n for x in sx.walk(arm['body'])):
                                                    ok = True
                    count('get_str-of-leaf-unwrap', ok, b, c, 'get_str(..).unwrap() on something that is not a single Locate leaf',
                          {'site': b.pretty, 'argument': '&Locate bound by RefNode::Locate(..)'})
                    continue
                # anything else
                count('unclassified:' + cal, False, b, c, 'panic-capable call %s is in no discharged class' % cal)
            for a in b.asserts:
                kind, line, from_exp = a[:3]
                a_macros = (a[3].split(',') if len(a) > 3 and a[3] else [])
                if kind == 'overflow-sub':
                    # unsigned subtraction can underflow (panic in debug builds): each site needs a reason
                    why = None
                    if crate == 'sv_parser' and b.name.endswith('::fmt'):
                        # depth -= 1 on Leave: every Enter arm of the same match does depth += 1 first
                        for fl, mp, fn, im in sx.crate_fns(ctx.syn, 'sv-parser'):
                            if fn['name'] != 'fmt' or not (fn['l'] <= line <= fn.get('el', 10 ** 9)):
                                continue
                            ms = [n for n in sx.walk(fn['body']) if n.get('k') == 'match']
                            for mm in ms:
                                arms_ = mm['arms']
                                ent = [x for x in arms_ if sx.render(x['pat']).startswith('NodeEvent::Enter(')]
                                lev = [x for x in arms_ if sx.render(x['pat']).startswith('NodeEvent::Leave(')]
                                # the counter is decremented on Leave(P) only for node patterns P whose Enter(P) arm increments it (events are
                                # balanced, Enter(P) precedes Leave(P)): it never goes below its start value
                                import re as _re
                                def _pat(x_, ev_):
                                    t_ = sx.render(x_['pat']).replace(' ', '')
                                    t_ = t_[len('NodeEvent::%s(' % ev_):-1] if t_.endswith(')') else t_
                                    if _re.fullmatch(r'\w+|_', t_):
                                        return '*'
                                    return _re.sub(r'\((\w+|_)\)$', '', t_)
                                def _cnt(x_, op_):
                                    return sum(1 for z_ in sx.walk(x_['body']) if z_.get('k') in ('assign', 'binary') and z_.get('op') == op_ and sx.is_path(z_.get('l_', {})) and sx.lit_int(z_.get('r', {})) == 1)
                                ctrs_ = {z_['l_']['p'] for x_ in lev for z_ in sx.walk(x_['body']) if z_.get('k') in ('assign', 'binary') and z_.get('op') == '-=' and sx.is_path(z_.get('l_', {}))}
                                if ent and lev and len(ctrs_) == 1 and not any(x_.get('guard') for x_ in ent + lev):
                                    kinds_ = {_pat(x_, 'Enter') for x_ in ent} | {_pat(x_, 'Leave') for x_ in lev} | {'*'}
                                    def _first(arms__, ev_, k_):
                                        for x_ in arms__:
                                            p_ = _pat(x_, ev_)
                                            if p_ == k_ or p_ == '*':
                                                return x_
                                        return None
                                    ok_ = True
                                    for k_ in kinds_:
                                        e_, l_ = _first(ent, 'Enter', k_), _first(lev, 'Leave', k_)
                                        dec_ = _cnt(l_, '-=') if l_ is not None else 0
                                        inc_ = _cnt(e_, '+=') if e_ is not None else 0
                                        if dec_ > inc_:
                                            ok_ = False
                                    if ok_:
                                        why = 'the counter is decremented on Leave only for node kinds whose Enter arm increments it (events are balanced)'
                    if crate == 'sv_parser_pp' and b.name.endswith('::origin'):
                        of = pp.methods.get(('PreprocessedText', 'origin'))
                        if of is not None:
                            prm = [sx.pat_idents(p_['pat'])[0] for p_ in of['sig']['params'] if p_.get('k') == 'typed']
                            pos_ = prm[0] if prm else 'pos'
                            probes = [n for n in sx.walk(of['body']) if n.get('k') == 'mcall' and n['m'] == 'get' and
                                      sx.render(n['recv']).replace(' ', '') == 'self.origins' and
                                      sx.render(sx.strip_ref(n['args'][0])).replace(' ', '') in ('Range::new(%s,(%s+1))' % (pos_, pos_), 'Range::new(%s,(1+%s))' % (pos_, pos_))]
                            subs = [n for n in sx.walk(of['body']) if n.get('k') == 'binary' and n['op'] == '-']
                            if len(probes) == 1 and subs and all(sx.is_path(n['l_'], pos_) and sx.render(n['r']).replace(' ', '').endswith('.begin') for n in subs):
                                why = 'the segment returned by the 1-byte probe [pos, pos+1) contains pos, so pos >= segment begin'
                    classes.setdefault('assert-overflow-sub', [0, 0])[0] += 1
                    r.inst('assert-sub:%s:%d' % (b.name, classes['assert-overflow-sub'][0]), {'site': b.pretty, 'line': line, 'discharged_because': why})
                    if why is None:
                        r.fail('%s:%s:assert-overflow-sub' % (crate, b.name.replace(crate + '::', '')), '%s:%s' % (b.file, line),
                               '%s: unsigned subtraction at line %s can underflow and panic; no structural reason bounds it' % (b.name, line))
                    continue
                if kind in ('overflow-mul', 'overflow-shift', 'overflow-neg'):
                    classes.setdefault('assert-' + kind, [0, 0])[0] += 1
                    r.inst('assert:%s:%s:%d' % (kind, b.name, line))
                    r.fail('%s:%s:assert-%s' % (crate, b.name.replace(crate + '::', ''), kind), '%s:%s' % (b.file, line),
                           '%s: %s check at line %s can panic — no structural discharge' % (b.name, kind, line))
                    continue
                if kind in ('overflow', 'ptr'):
                    classes.setdefault('assert-' + kind + '(excluded by kind)', [0, 0])[0] += 1
                    continue
                classes.setdefault('assert-' + kind, [0, 0])[0] += 1
                r.inst('assert:%s:%s:%d' % (kind, b.name, line))
                r.fail('%s:%s:assert-%s' % (crate, b.name.replace(crate + '::', ''), kind), '%s:%s' % (b.file, line),
                       '%s: %s check can panic (slice/array indexing or division) — no structural discharge' % (b.name, kind))
    r.counts['classes'] = {k: v[0] for k, v in sorted(classes.items())}
    # floors: about 60 % of the numbers counted on the pinned tree (45 / 31 / 7 / 1242 / 3752): low enough for helper extraction to
    # fold several sites into one, high enough to notice a classifier that stopped matching
    want = {'lexeme-concat-unwrap': 25, 'locate-of-node-unwrap': 18, 'identifier-of-node-unwrap': 4, 'derive-adjacency-assert': 800,
            'refcell-borrow-in-with-closure': 2000}
    for k, v in want.items():
        r.floor('class:' + k, classes.get(k, [0])[0], v)
    r.notes.append('overflow asserts (arithmetic on in-text positions / event depth) and the null/misaligned-pointer checks debug MIR inserts are excluded by kind')
    return r
