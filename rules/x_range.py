"""X17 — Range's comparison contract, decided over the finite set of order types of the four endpoints.

`Range::eq` / `Ord::cmp` touch their operands only through comparisons of (self.begin, self.end, other.begin,
other.end), so their behaviour is determined by the relative order of those four values.  All weak orderings with
begin < end on both sides (non-empty ranges: X2) are enumerated and the method bodies are interpreted on each:
  eq  == "the ranges overlap"  (max(begins) < min(ends));
  cmp == Equal iff eq, otherwise the order of the begins
which is what BTreeMap needs for a 1-byte probe to find exactly the segment containing it among disjoint keys.
"""
import itertools
from vlib import sx
from vlib.report import RuleResult

CRATE = 'sv-parser-pp'


class Undecided(Exception):
    pass


def ev(e, env):
    """evaluate a pure comparison expression / block over integer env"""
    k = e.get('k')
    if k == 'block':
        val = None
        for st in e['stmts']:
            if st['k'] == 'expr':
                val = ev(st['e'], env)
                if isinstance(val, tuple) and val and val[0] == 'return':
                    return val
            elif st['k'] == 'let' and 'init' in st and st['pat'].get('k') == 'ident':
                env = dict(env)
                env[st['pat']['n']] = ev(st['init'], env)
            else:
                raise Undecided('statement %s' % sx.render(st)[:40])
        return val
    if k == 'if':
        c = ev(e['c'], env)
        if c:
            return ev(e['t'], env)
        return ev(e['e'], env) if 'e' in e else None
    if k == 'binary':
        op = e['op']
        if op == '&&':
            return ev(e['l_'], env) and ev(e['r'], env)
        if op == '||':
            return ev(e['l_'], env) or ev(e['r'], env)
        a, b = ev(e['l_'], env), ev(e['r'], env)
        if op == '<':
            return a < b
        if op == '<=':
            return a <= b
        if op == '>':
            return a > b
        if op == '>=':
            return a >= b
        if op == '==':
            return a == b
        if op == '!=':
            return a != b
        raise Undecided('operator ' + op)
    if k == 'unary' and e['op'] == '!':
        return not ev(e['e'], env)
    if k == 'field':
        base = sx.render(e['e']).replace(' ', '')
        key = '%s.%s' % (base, e['m'])
        if key in env:
            return env[key]
        raise Undecided('field ' + key)
    if k == 'path':
        if e['p'] in env:
            return env[e['p']]
        if e['p'].endswith('Ordering::Equal'):
            return 'Equal'
        if e['p'].endswith('Ordering::Less'):
            return 'Less'
        if e['p'].endswith('Ordering::Greater'):
            return 'Greater'
        raise Undecided('name ' + e['p'])
    if k == 'lit' and e.get('t') == 'bool':
        return e['v']
    if k == 'mcall':
        recv = sx.render(e['recv']).replace(' ', '')
        if e['m'] == 'eq' and recv == 'self' and len(e['args']) == 1:
            return env['__eq__'](env)
        if e['m'] == 'cmp' and len(e['args']) == 1:
            a = ev(e['recv'], env)
            b = ev(sx.strip_ref(e['args'][0]), env)
            return 'Less' if a < b else ('Greater' if a > b else 'Equal')
        if e['m'] in ('max', 'min') and len(e['args']) == 1:
            a, b = ev(e['recv'], env), ev(e['args'][0], env)
            return max(a, b) if e['m'] == 'max' else min(a, b)
        raise Undecided('method ' + e['m'])
    if k == 'call' and sx.is_path(e['f'], 'Some') and len(e['args']) == 1:
        return ev(e['args'][0], env)
    if k == 'return':
        return ('return', ev(e['e'], env))
    if k == 'match':
        scr = ev(e['e'], env)
        for arm in e['arms']:
            p = sx.render(arm['pat']).replace(' ', '')
            if p in ('_', str(scr).lower(), 'Ordering::' + str(scr), str(scr)):
                return ev(arm['body'], env)
        raise Undecided('match')
    raise Undecided(sx.render(e)[:40])


def run(ctx):
    r = RuleResult('X17', 'Range ordering: equality is overlap, order is by begin — on every order type of the endpoints')
    files = sx.crate_files(ctx.syn, CRATE)
    rg = files.get('src/range.rs')
    if rg is None:
        r.fail('anchor:range.rs', '-', 'src/range.rs not found (fail closed)')
        return [r, run_origin(ctx)]
    eq_fn = cmp_fn = None
    for mp, it in sx.items_rec(rg['items']):
        if it['k'] == 'impl' and sx.render_ty(it['self_ty']) == 'Range':
            tp = (it.get('trait_path') or '').split('::')[-1]
            for f in it['items']:
                if f.get('k') == 'fn' and tp == 'PartialEq' and f['name'] == 'eq':
                    eq_fn = f
                if f.get('k') == 'fn' and tp == 'Ord' and f['name'] == 'cmp':
                    cmp_fn = f
    r.exactly('Range::eq', 1 if eq_fn else 0, 1)
    r.exactly('Range::cmp', 1 if cmp_fn else 0, 1)
    if not eq_fn or not cmp_fn:
        return [r, run_origin(ctx)]
    where_eq = '%s/src/range.rs:%s' % (CRATE, eq_fn['l'])
    where_cmp = '%s/src/range.rs:%s' % (CRATE, cmp_fn['l'])
    # all order types of (a=self.begin, b=self.end, c=other.begin, d=other.end) with a<b, c<d: assign ranks 0..3
    cases = set()
    for ranks in itertools.product(range(4), repeat=4):
        a, b, c, d = ranks
        if a < b and c < d:
            # canonicalise to dense ranks
            vals = sorted(set(ranks))
            cases.add(tuple(vals.index(x) for x in ranks))
    undecided = None
    bad_eq = []
    bad_cmp = []
    for (a, b, c, d) in sorted(cases):
        env = {'self.begin': a, 'self.end': b, 'other.begin': c, 'other.end': d}

        def do_eq(env_):
            v = ev(eq_fn['body'], dict(env_))
            return v[1] if isinstance(v, tuple) else v
        env['__eq__'] = do_eq
        try:
            e_ = do_eq(env)
            v = ev(cmp_fn['body'], dict(env))
            c_ = v[1] if isinstance(v, tuple) else v
        except Undecided as u:
            undecided = str(u)
            break
        overlap = max(a, c) < min(b, d)
        r.inst('case:%d%d%d%d' % (a, b, c, d), {'self': [a, b], 'other': [c, d], 'overlap': overlap, 'eq': e_, 'cmp': c_}
               if (a, b, c, d) in ((0, 1, 1, 2), (0, 2, 1, 3), (0, 1, 2, 3)) else None)
        if bool(e_) != overlap:
            bad_eq.append(((a, b), (c, d), e_))
        want = 'Equal' if overlap else ('Less' if a < c else 'Greater')
        if c_ != want:
            bad_cmp.append(((a, b), (c, d), c_, want))
    if undecided is not None:
        r.notes.append('UNDECIDED: Range::eq/cmp use a construct the comparison interpreter does not model (%s); not decided' % undecided)
        r.counts['undecided'] = 1
        return [r, run_origin(ctx)]
    if bad_eq:
        s_, o_, got = bad_eq[0]
        r.fail('%s:Range::eq:not-overlap' % CRATE, where_eq,
               'Range::eq is not "the ranges overlap": for self=[%d,%d) other=[%d,%d) it returns %s (%d of %d order types wrong) — a 1-byte '
               'probe can then compare Equal to a neighbouring segment, so origin() returns the wrong segment or underflows' %
               (s_[0], s_[1], o_[0], o_[1], got, len(bad_eq), len(cases)))
    if bad_cmp:
        s_, o_, got, want = bad_cmp[0]
        r.fail('%s:Range::cmp:inconsistent' % CRATE, where_cmp,
               'Range::cmp for self=[%d,%d) other=[%d,%d) returns %s, expected %s (Equal iff overlapping, otherwise ordered by begin)' %
               (s_[0], s_[1], o_[0], o_[1], got, want))
    r.floor('order_types', len(cases), 13)
    return [r, run_origin(ctx)]


# ---- X20: PreprocessedText::origin(pos) ---------------------------------------------------------------------------
def _int(e, env):
    """integer expression over pos / len / struct locals (small-domain evaluation)"""
    k = e.get('k')
    if k == 'lit' and e.get('t') == 'int':
        return int(e['v'])
    if k == 'path' and e['p'] in env and isinstance(env[e['p']], int):
        return env[e['p']]
    if k == 'binary' and e['op'] in ('+', '-'):
        a, b = _int(e['l_'], env), _int(e['r'], env)
        return a + b if e['op'] == '+' else a - b
    if k == 'try':
        return _int(e['e'], env)
    if k == 'field':
        base = e['e']
        if sx.is_path(base) and isinstance(env.get(base['p']), dict) and e['m'] in env[base['p']]:
            return env[base['p']][e['m']]
        txt = sx.render(e).replace(' ', '')
        if txt in env and isinstance(env[txt], int):
            return env[txt]
    if k == 'mcall':
        txt = sx.render(e).replace(' ', '')
        if txt in ('self.text.len()', 'self.text().len()'):
            return env['#len']
        if e['m'] in ('checked_add', 'saturating_add', 'wrapping_add') and len(e['args']) == 1:
            return _int(e['recv'], env) + _int(e['args'][0], env)
    raise Undecided(sx.render(e)[:40])


def _cond(c, env):
    if c.get('k') == 'binary' and c['op'] in ('<', '<=', '>', '>=', '==', '!='):
        a, b = _int(c['l_'], env), _int(c['r'], env)
        return {'<': a < b, '<=': a <= b, '>': a > b, '>=': a >= b, '==': a == b, '!=': a != b}[c['op']]
    if c.get('k') == 'binary' and c['op'] in ('&&', '||'):
        a, b = _cond(c['l_'], env), _cond(c['r'], env)
        return (a and b) if c['op'] == '&&' else (a or b)
    if c.get('k') == 'unary' and c['op'] == '!':
        return not _cond(c['e'], env)
    raise Undecided(sx.render(c)[:40])


def run_origin(ctx):
    from vlib import paths as _paths
    r = RuleResult('X20', 'origin(pos): a 1-byte probe at pos, the position translated by the segment\'s offset, None only when the map has no entry or the segment has no origin')
    files = sx.crate_files(ctx.syn, CRATE)
    fn = None
    for fl, fv in files.items():
        for mp, it in sx.items_rec(fv.get('items', [])):
            if it['k'] == 'impl' and sx.render_ty(it['self_ty']) == 'PreprocessedText' and not it.get('trait_path'):
                for f in it['items']:
                    if f.get('k') == 'fn' and f['name'] == 'origin':
                        fn, ffile = f, fl
    r.exactly('PreprocessedText::origin', 1 if fn else 0, 1)
    if not fn:
        return r
    where = '%s/%s:%s' % (CRATE, ffile, fn['l'])
    ps = [sx.pat_idents(p['pat'])[0] for p in fn['sig']['params'] if p.get('k') == 'typed']
    if len(ps) != 1:
        r.undecided('%s:origin:signature' % CRATE, where, 'origin takes %d parameters besides self' % len(ps))
        return r
    pos = ps[0]
    body = fn['body']
    # (a) the probe
    gets = [n for n in sx.walk(body) if n.get('k') == 'mcall' and n['m'] == 'get' and 'origins' in sx.render(n['recv'])]
    r.inst('probe')
    probe_ok = None
    if len(gets) == 1:
        key = sx.strip_ref(gets[0]['args'][0])
        if sx.is_path(key):
            ls = [n for n in sx.walk(body) if n.get('k') == 'let' and n.get('pat', {}).get('k') == 'ident' and n['pat']['n'] == key['p'] and 'init' in n]
            key = ls[-1]['init'] if len(ls) == 1 else key
        if sx.callee(key) in ('Range::new', 'range::Range::new') and len(key['args']) == 2:
            try:
                vals = [(_int(key['args'][0], {pos: p_, '#len': 9}), _int(key['args'][1], {pos: p_, '#len': 9})) for p_ in (0, 3)]
                probe_ok = vals == [(0, 1), (3, 4)]
                if not probe_ok:
                    r.fail('%s:origin:probe' % CRATE, where, 'origin(%s) looks up %s; the probe must be the one byte [%s, %s+1)' % (pos, sx.render(key)[:50], pos, pos))
            except Undecided:
                pass
    if probe_ok is None:
        r.undecided('%s:origin:probe' % CRATE, where, 'how origin() probes the map is not recognised')
    # (b)/(c) paths
    try:
        allp = _paths.enumerate_paths(body)
    except _paths.Unmodelled as u:
        r.undecided('%s:origin:paths' % CRATE, where, 'control flow not modelled (%s)' % u)
        return r
    lookup_vars = set()
    for n in sx.walk(body):
        if n.get('k') == 'let' and n.get('pat', {}).get('k') == 'ident' and 'init' in n and any(z is g_ for g_ in gets for z in sx.walk(n['init'])):
            lookup_vars.add(n['pat']['n'])
    for p_ in allp:
        ex = p_.exit
        r.inst()
        is_none = sx.is_path(ex, 'None')
        if not is_none:
            continue
        legit = False
        intconds = []
        unknown = None
        seg_var = None
        for c, pol in p_.conds:
            txt = sx.render(c).replace(' ', '')
            if c.get('k') == 'let':
                src = sx.render(c['e']).replace(' ', '')
                is_lookup = any(src == v for v in lookup_vars) or any(z is g_ for g_ in gets for z in sx.walk(c['e']))
                is_origin_field = src.endswith('.origin')
                some_pat = c['pat'].get('k') == 'ts' and c['pat']['p'] == 'Some'
                if (is_lookup or is_origin_field) and some_pat:
                    if not pol:
                        legit = True            # no entry in the map / a segment without origin
                    elif is_lookup:
                        ids_ = [x for x in sx.pat_idents(c['pat']) if x]
                        seg_var = ids_[0] if ids_ else None
                    continue
                unknown = 'pattern condition `%s`' % sx.render(c)[:40]
                continue
            if c.get('k') == 'arm':
                pt = sx.render(c['pat']).replace(' ', '')
                if pt in ('None', '_'):
                    legit = True
                elif pt.startswith('Some('):
                    ids_ = [x for x in sx.pat_idents(c['pat']) if x]
                    if seg_var is None and ids_:
                        seg_var = ids_[0]
                else:
                    unknown = 'match arm `%s`' % pt[:30]
                continue
            intconds.append((c, pol))
        if legit:
            continue
        # a None exit that does not depend on the lookup: it must be unreachable for every valid position (pos < len)
        witness = None
        try:
            for ln_, pv, sb_, se_ in [(l_, p__, b_, e_) for l_ in range(1, 6) for p__ in range(0, l_) for b_ in range(0, p__ + 1) for e_ in range(p__ + 1, l_ + 1)]:
                if True:
                    env = {pos: pv, '#len': ln_}
                    if seg_var:
                        env['%s.range.begin' % seg_var] = sb_
                        env['%s.range.end' % seg_var] = se_
                    # struct locals bound on the path (Range::new(a, b))
                    for name, st_ in p_.binds.items():
                        if isinstance(st_, dict) and st_.get('k') == 'let' and 'init' in st_ and sx.callee(st_['init']) in ('Range::new', 'range::Range::new') and len(st_['init']['args']) == 2:
                            try:
                                env[name] = {'begin': _int(st_['init']['args'][0], env), 'end': _int(st_['init']['args'][1], env)}
                            except Undecided:
                                pass
                    if all(_cond(c, env) == pol for c, pol in intconds):
                        witness = (pv, ln_, sb_, se_)
                        break
        except Undecided as u:
            unknown = str(u)
        line_ = ex.get('l') or fn['l']
        if unknown is not None and witness is None:
            r.undecided('%s:origin:early-none' % CRATE, '%s/%s:%s' % (CRATE, ffile, line_), 'origin() returns None on a path that does not depend on the map lookup, under a condition the rule cannot evaluate (%s)' % unknown)
        elif witness is not None:
            r.fail('%s:origin:valid-position-without-origin' % CRATE, '%s/%s:%s' % (CRATE, ffile, line_),
                   'origin(%s) returns None although the map has a segment with an origin for the position (or without consulting the map) when %s: reachable for a valid '
                   'position (%s = %d in a text of %d bytes, segment [%d, %d)), so a byte copied from a source file has no origin' %
                   (pos, ' and '.join(('' if pol else 'not ') + sx.render(c)[:40] for c, pol in intconds) or 'always', pos, witness[0], witness[1], witness[2], witness[3]))
    # (b) the translated position
    r.inst('translation')
    somes = [p_.exit for p_ in allp if sx.is_call(p_.exit, 'Some')]
    checked = False
    for ex in somes:
        tup = ex['args'][0]
        if tup.get('k') != 'tuple' or len(tup['e']) != 2:
            continue
        val = tup['e'][1]
        if sx.is_path(val):
            ls = [n for n in sx.walk(body) if n.get('k') == 'let' and n.get('pat', {}).get('k') == 'ident' and n['pat']['n'] == val['p'] and 'init' in n]
            val = ls[-1]['init'] if len(ls) == 1 else val
        try:
            ok = True
            for pv, sb, ob in ((5, 2, 40), (7, 7, 0), (9, 0, 13)):
                env = {pos: pv, '#len': 99}
                # any `X.range.begin` is the segment begin, any `Y.begin` otherwise the origin-range begin
                def fld(e_):
                    t_ = sx.render(e_).replace(' ', '')
                    return t_
                vals = {}
                for n in sx.walk(val):
                    if n.get('k') == 'field' and n['m'] == 'begin':
                        t_ = fld(n)
                        vals[t_] = sb if '.range.' in t_ else ob
                env.update(vals)
                if _int(val, env) != pv - sb + ob:
                    ok = False
            checked = True
            if not ok:
                r.fail('%s:origin:translation' % CRATE, where, 'origin(%s) returns `%s`; the source position is %s - <segment begin> + <origin range begin>' % (pos, sx.render(val)[:60], pos))
        except Undecided:
            pass
    if not checked:
        r.undecided('%s:origin:translation' % CRATE, where, 'how the returned position is computed is not recognised')
    return r
