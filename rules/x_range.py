"""X17 — Range's comparison contract, decided over the finite set of order types of the four endpoints.

`Range::eq` / `Ord::cmp` touch their operands only through comparisons of (self.begin, self.end, other.begin,
other.end), so their behaviour is determined by the relative order of those four values.  All weak orderings with
begin < end on both sides (non-empty ranges: X2) are enumerated and the method bodies are interpreted on each:
  eq  == "the ranges overlap"  (max(begins) < min(ends));
  cmp == Equal iff eq, otherwise the order of the begins
which is what BTreeMap needs for a 1-byte probe to find exactly the segment containing it among disjoint keys.
"""
import itertools
from vlib import sx
from vlib.report import RuleResult

CRATE = 'sv-parser-pp'


class Undecided(Exception):
    pass


def ev(e, env):
    """evaluate a pure comparison expression / block over integer env"""
    k = e.get('k')
    if k == 'block':
        val = None
        for st in e['stmts']:
            if st['k'] == 'expr':
                val = ev(st['e'], env)
                if isinstance(val, tuple) and val and val[0] == 'return':
                    return val
            elif st['k'] == 'let' and 'init' in st and st['pat'].get('k') == 'ident':
                env = dict(env)
                env[st['pat']['n']] = ev(st['init'], env)
            else:
                raise Undecided('statement %s' % sx.render(st)[:40])
        return val
    if k == 'if':
        c = ev(e['c'], env)
        if c:
            return ev(e['t'], env)
        return ev(e['e'], env) if 'e' in e else None
    if k == 'binary':
        op = e['op']
        if op == '&&':
            return ev(e['l_'], env) and ev(e['r'], env)
        if op == '||':
            return ev(e['l_'], env) or ev(e['r'], env)
        a, b = ev(e['l_'], env), ev(e['r'], env)
        if op == '<':
            return a < b
        if op == '<=':
            return a <= b
        if op == '>':
            return a > b
        if op == '>=':
            return a >= b
        if op == '==':
            return a == b
        if op == '!=':
            return a != b
        raise Undecided('operator ' + op)
    if k == 'unary' and e['op'] == '!':
        return not ev(e['e'], env)
    if k == 'field':
        base = sx.render(e['e']).replace(' ', '')
        key = '%s.%s' % (base, e['m'])
        if key in env:
            return env[key]
        raise Undecided('field ' + key)
    if k == 'path':
        if e['p'] in env:
            return env[e['p']]
        if e['p'].endswith('Ordering::Equal'):
            return 'Equal'
        if e['p'].endswith('Ordering::Less'):
            return 'Less'
        if e['p'].endswith('Ordering::Greater'):
            return 'Greater'
        raise Undecided('name ' + e['p'])
    if k == 'lit' and e.get('t') == 'bool':
        return e['v']
    if k == 'mcall':
        recv = sx.render(e['recv']).replace(' ', '')
        if e['m'] == 'eq' and recv == 'self' and len(e['args']) == 1:
            return env['__eq__'](env)
        if e['m'] == 'cmp' and len(e['args']) == 1:
            a = ev(e['recv'], env)
            b = ev(sx.strip_ref(e['args'][0]), env)
            return 'Less' if a < b else ('Greater' if a > b else 'Equal')
        if e['m'] in ('max', 'min') and len(e['args']) == 1:
            a, b = ev(e['recv'], env), ev(e['args'][0], env)
            return max(a, b) if e['m'] == 'max' else min(a, b)
        raise Undecided('method ' + e['m'])
    if k == 'call' and sx.is_path(e['f'], 'Some') and len(e['args']) == 1:
        return ev(e['args'][0], env)
    if k == 'return':
        return ('return', ev(e['e'], env))
    if k == 'match':
        scr = ev(e['e'], env)
        for arm in e['arms']:
            p = sx.render(arm['pat']).replace(' ', '')
            if p in ('_', str(scr).lower(), 'Ordering::' + str(scr), str(scr)):
                return ev(arm['body'], env)
        raise Undecided('match')
    raise Undecided(sx.render(e)[:40])


def run(ctx):
    r = RuleResult('X17', 'Range ordering: equality is overlap, order is by begin — on every order type of the endpoints')
    files = sx.crate_files(ctx.syn, CRATE)
    rg = files.get('src/range.rs')
    if rg is None:
        r.fail('anchor:range.rs', '-', 'src/range.rs not found (fail closed)')
        return r
    eq_fn = cmp_fn = None
    for mp, it in sx.items_rec(rg['items']):
        if it['k'] == 'impl' and sx.render_ty(it['self_ty']) == 'Range':
            tp = (it.get('trait_path') or '').split('::')[-1]
            for f in it['items']:
                if f.get('k') == 'fn' and tp == 'PartialEq' and f['name'] == 'eq':
                    eq_fn = f
                if f.get('k') == 'fn' and tp == 'Ord' and f['name'] == 'cmp':
                    cmp_fn = f
    r.exactly('Range::eq', 1 if eq_fn else 0, 1)
    r.exactly('Range::cmp', 1 if cmp_fn else 0, 1)
    if not eq_fn or not cmp_fn:
        return r
    where_eq = '%s/src/range.rs:%s' % (CRATE, eq_fn['l'])
    where_cmp = '%s/src/range.rs:%s' % (CRATE, cmp_fn['l'])
    # all order types of (a=self.begin, b=self.end, c=other.begin, d=other.end) with a<b, c<d: assign ranks 0..3
    cases = set()
    for ranks in itertools.product(range(4), repeat=4):
        a, b, c, d = ranks
        if a < b and c < d:
            # canonicalise to dense ranks
            vals = sorted(set(ranks))
            cases.add(tuple(vals.index(x) for x in ranks))
    undecided = None
    bad_eq = []
    bad_cmp = []
    for (a, b, c, d) in sorted(cases):
        env = {'self.begin': a, 'self.end': b, 'other.begin': c, 'other.end': d}

        def do_eq(env_):
            v = ev(eq_fn['body'], dict(env_))
            return v[1] if isinstance(v, tuple) else v
        env['__eq__'] = do_eq
        try:
            e_ = do_eq(env)
            v = ev(cmp_fn['body'], dict(env))
            c_ = v[1] if isinstance(v, tuple) else v
        except Undecided as u:
            undecided = str(u)
            break
        overlap = max(a, c) < min(b, d)
        r.inst('case:%d%d%d%d' % (a, b, c, d), {'self': [a, b], 'other': [c, d], 'overlap': overlap, 'eq': e_, 'cmp': c_}
               if (a, b, c, d) in ((0, 1, 1, 2), (0, 2, 1, 3), (0, 1, 2, 3)) else None)
        if bool(e_) != overlap:
            bad_eq.append(((a, b), (c, d), e_))
        want = 'Equal' if overlap else ('Less' if a < c else 'Greater')
        if c_ != want:
            bad_cmp.append(((a, b), (c, d), c_, want))
    if undecided is not None:
        r.notes.append('UNDECIDED: Range::eq/cmp use a construct the comparison interpreter does not model (%s); not decided' % undecided)
        r.counts['undecided'] = 1
        return r
    if bad_eq:
        s_, o_, got = bad_eq[0]
        r.fail('%s:Range::eq:not-overlap' % CRATE, where_eq,
               'Range::eq is not "the ranges overlap": for self=[%d,%d) other=[%d,%d) it returns %s (%d of %d order types wrong) — a 1-byte '
               'probe can then compare Equal to a neighbouring segment, so origin() returns the wrong segment or underflows' %
               (s_[0], s_[1], o_[0], o_[1], got, len(bad_eq), len(cases)))
    if bad_cmp:
        s_, o_, got, want = bad_cmp[0]
        r.fail('%s:Range::cmp:inconsistent' % CRATE, where_cmp,
               'Range::cmp for self=[%d,%d) other=[%d,%d) returns %s, expected %s (Equal iff overlapping, otherwise ordered by begin)' %
               (s_[0], s_[1], o_[0], o_[1], got, want))
    r.floor('order_types', len(cases), 13)
    return r
