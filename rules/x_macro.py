"""X13 — structure of macro resolution (error payloads, formal/actual binding, body-less macros, live table);
X14 — writers of the define table."""
from vlib import sx
from vlib.report import RuleResult
from rules.x_pp import model, sq, arm_of_line, CRATE, table_var


def resolver_fn(pp):
    """role: the function of the recursive component that takes the usage node and the define table and is called
    from the event loop with `&defines`"""
    cands = []
    for name, f in pp.fns.items():
        if name == pp.loop_fn['name']:
            continue
        errs = [n['f']['p'] for n in sx.walk(f['body']) if n.get('k') == 'call' and sx.is_path(n['f']) and n['f']['p'].startswith('Error::Define')]
        if errs:
            cands.append((name, f))
    return cands


def run(ctx):
    pp = model(ctx)
    r = RuleResult('X13', 'macro resolution: misuse is reported with the name concerned; formals bind positionally with defaults; body-less macros expand to nothing; the live table is used')
    w = RuleResult('X14', 'the define table is seeded, written and returned only at the sites the directives imply')
    if pp.problems:
        for p in pp.problems:
            r.fail('anchor:' + p, pp.where(1), 'preprocessor model: %s (fail closed)' % p)
        return [r, w]
    cands = resolver_fn(pp)
    r.exactly('resolver_function', len(cands), 1)
    if len(cands) == 1:
        name, f = cands[0]
        body = f['body']
        where = lambda n: pp.where(n.get('l') if isinstance(n, dict) else n)
        params = [sx.pat_idents(p['pat'])[0] for p in f['sig']['params'] if p.get('k') == 'typed']
        # the usage's name: `let id = identifier(<name of x>, &s).unwrap()`
        id_var = None
        for st in body['stmts']:
            if st['k'] == 'let' and 'init' in st and 'identifier(' in sq(st['init']) and sq(st['init']).endswith('.unwrap()'):
                id_var = sx.pat_idents(st['pat'])[0]
        r.exactly('usage_name_binding', 1 if id_var else 0, 1)
        # the table lookup uses that name on the table parameter
        tab = table_var(pp) if table_var(pp) in params else ('defines' if 'defines' in params else None)
        look = [n for n in sx.walk(body) if n.get('k') == 'mcall' and n['m'] == 'get' and sx.is_path(n['recv'], tab)]
        r.inst('lookup', {'lookup': [sq(x) for x in look]})
        if len(look) == 1 and sq(look[0]['args'][0]) != '&' + (id_var or '?'):
            r.fail('%s:%s:lookup' % (CRATE, name), where(f), '%s must look the usage\'s own name (`%s`) up in the table it was given (`%s`); found %s' %
                   (name, id_var, tab, [sq(x) for x in look]))
        elif len(look) != 1:
            r.undecided('%s:%s:lookup' % (CRATE, name), where(f), '%d lookups in the define table' % len(look))
        # error sites
        errs = {}
        for n in sx.walk(body):
            if n.get('k') == 'call' and sx.is_path(n['f']) and n['f']['p'].startswith('Error::Define'):
                errs.setdefault(n['f']['p'], []).append(n)
        # DefineNotFound(id)
        nf = errs.get('Error::DefineNotFound', [])
        r.inst('err:DefineNotFound', {'sites': [sq(x) for x in nf]})
        if len(nf) == 1 and sq(nf[0]['args'][0]) not in (id_var, '%s.clone()' % id_var, 'String::from(%s)' % id_var, '%s.to_string()' % id_var):
            r.fail('%s:%s:DefineNotFound-payload' % (CRATE, name), where(nf[0] if nf else f),
                   'DefineNotFound must carry the name of the macro that was used (`%s`); found %s' % (id_var, [sq(x) for x in nf]))
        elif len(nf) != 1:
            r.undecided('%s:%s:DefineNotFound-payload' % (CRATE, name), where(f), '%d DefineNotFound sites' % len(nf))
        # formal loop: for (i, (arg, default)) in define.arguments.iter().enumerate()
        loops = [n for n in sx.walk(body) if n.get('k') == 'for' and 'arguments' in sq(n['e'])]
        r.exactly('formal_loop', len(loops), 1)
        if len(loops) == 1:
            lp = loops[0]
            ids = [x for x in sx.pat_idents(lp['pat']) if x]
            it = sq(lp['e'])
            r.inst('formal-loop', {'iterates': it, 'binds': ids})
            if '.rev()' in it:
                r.fail('%s:%s:formal-loop' % (CRATE, name), where(lp), 'formals are walked in reverse order (%s)' % it)
            elif not (it.endswith('.arguments.iter().enumerate()') and len(ids) == 3):
                r.undecided('%s:%s:formal-loop' % (CRATE, name), where(lp), 'formal loop `%s` not in the recognised form' % it)
            else:
                i_, arg_, def_ = ids
                gets = [n for n in sx.walk(lp['body']) if n.get('k') == 'mcall' and n['m'] == 'get']
                if len(gets) == 1 and sq(gets[0]['args'][0]) != i_:
                    r.fail('%s:%s:positional-binding' % (CRATE, name), where(lp), 'the actual argument of formal #i must be taken at the same index i; found %s' % [sq(x) for x in gets])
                elif len(gets) != 1:
                    r.undecided('%s:%s:positional-binding' % (CRATE, name), where(lp), 'lookup of the actual argument not recognised')
                an = errs.get('Error::DefineArgNotFound', [])
                r.inst('err:DefineArgNotFound', {'sites': [sq(x) for x in an]})
                inside = [x for x in an if any(y is x for y in sx.walk(lp['body']))]
                if len(an) == 1 and sq(an[0]['args'][0]) not in ('String::from(%s)' % arg_, '%s.clone()' % arg_, '%s.to_string()' % arg_, '%s.into()' % arg_, '%s.to_owned()' % arg_):
                    r.fail('%s:%s:DefineArgNotFound-payload' % (CRATE, name), where(an[0] if an else lp),
                           'DefineArgNotFound must carry the name of the formal that got no value (`%s`); found %s' % (arg_, [sq(x) for x in an]))
                elif len(an) != 1:
                    r.undecided('%s:%s:DefineArgNotFound-payload' % (CRATE, name), where(lp), '%d DefineArgNotFound sites' % len(an))
                ins = [n for n in sx.walk(lp['body']) if n.get('k') == 'mcall' and n['m'] == 'insert']
                if len(ins) == 1 and arg_ not in sq(ins[0]['args'][0]):
                    r.fail('%s:%s:binding-key' % (CRATE, name), where(lp), 'the value must be bound under the formal\'s name; found %s' % [sq(x) for x in ins])
                elif len(ins) != 1:
                    r.undecided('%s:%s:binding-key' % (CRATE, name), where(lp), 'binding of the value not recognised')
                # default used when the actual is omitted
                m_ = [n for n in sx.walk(lp['body']) if n.get('k') == 'match']
                txt = sq(lp['body'])
                uses_default = txt.count(def_) - 0
                arms_ = [a_ for m__ in sx.walk(lp['body']) if m__.get('k') == 'match' for a_ in m__['arms']]
                some_none = [a_ for a_ in arms_ if sq(a_['pat']) == 'Some(None)']
                none_ = [a_ for a_ in arms_ if sq(a_['pat']) == 'None' and any(sx.is_call(z) and z['f']['p'].endswith('DefineArgNotFound') for z in sx.walk(a_['body']))]
                if some_none and none_:
                    if def_ not in sq(some_none[0]['body']) or def_ not in sq(none_[0]['body']):
                        r.fail('%s:%s:defaults' % (CRATE, name), where(lp), 'an omitted or missing actual must fall back to the formal\'s default (both the `Some(None)` and the `None` case)')
                else:
                    r.undecided('%s:%s:defaults' % (CRATE, name), where(lp), 'how omitted / missing actual arguments are handled is not recognised')
        na = errs.get('Error::DefineNoArgs', [])
        r.inst('err:DefineNoArgs', {'sites': [sq(x) for x in na]})
        if len(na) != 1:
            r.undecided('%s:%s:DefineNoArgs' % (CRATE, name), where(f), '%d DefineNoArgs sites' % len(na))
        else:
            payload = sq(na[0]['args'][0])
            if not (payload.endswith('.identifier.clone()') or payload in ('%s.clone()' % id_var, id_var)):
                r.fail('%s:%s:DefineNoArgs' % (CRATE, name), where(na[0]),
                       'DefineNoArgs must carry the macro\'s name; it carries `%s`' % payload)
            in_loop = [n for n in sx.walk(body) if n.get('k') in ('for', 'while', 'loop') and any(y is na[0] for y in sx.walk(n['body']))]
            if in_loop:
                r.fail('%s:%s:DefineNoArgs' % (CRATE, name), where(na[0]),
                       'DefineNoArgs is raised inside the loop over the formals (`%s`): it then depends on a formal without a usable value, so a macro whose formals '
                       'all have defaults is expanded when its argument list is omitted instead of being reported' % sq(in_loop[0].get('e') or {})[:50])
            host = [n for n in sx.walk(body) if n.get('k') == 'if' and any(y is na[0] for y in sx.walk(n['t']))] if not in_loop else []
            c = sq(host[-1]['c']) if host else ''
            if in_loop:
                c = None
            def conjuncts(e_):
                if e_.get('k') == 'binary' and e_['op'] == '&&':
                    return conjuncts(e_['l_']) + conjuncts(e_['r'])
                return [sq(e_)]
            conj = conjuncts(host[-1]['c']) if host else []
            if c is None:
                pass
            elif host and 'arguments.is_empty()' in c and 'no_args' in c:
                has_formals = any(x.startswith('!') and 'arguments.is_empty()' in x for x in conj)
                no_list = any(x == 'no_args' for x in conj)
                if not (has_formals and no_list):
                    r.fail('%s:%s:DefineNoArgs' % (CRATE, name), where(na[0]),
                           'DefineNoArgs must be raised exactly when the macro has formals and the usage has no argument list; the condition is %s' % c)
            else:
                r.undecided('%s:%s:DefineNoArgs' % (CRATE, name), where(na[0]), 'condition of DefineNoArgs not recognised: %s' % c[:60])
        # body-less macro / name defined without Define -> Ok(None)
        nones = [n for n in sx.walk(body) if sx.is_call(n, 'Ok') and sq(n) == 'Ok(None)']
        r.inst('bodyless', {'Ok(None)_sites': len(nones)})
        if len(nones) == 0:
            r.fail('%s:%s:bodyless' % (CRATE, name), where(f), 'a macro without body (and a name defined without a Define) must expand to nothing (Ok(None))')
        elif len(nones) < 2:
            # the table maps a name to Option<Define>: "defined by name only" (None) is not "not defined".  A lookup that flattens the two levels
            # (`get(..).and_then(..)`, `.flatten()`, `.cloned().flatten()`) sends a name-only macro to the DefineNotFound exit
            flat_ = [n for n in sx.walk(body) if n.get('k') == 'mcall' and n['m'] in ('and_then', 'flatten') and
                     any(z.get('k') == 'mcall' and z['m'] == 'get' for z in sx.walk(n['recv']))]
            if flat_:
                r.fail('%s:%s:bodyless' % (CRATE, name), pp.where(flat_[0].get('l') or f['l']),
                       '%s flattens the table lookup (`%s`): a macro that is defined by name only (entry None: `+define+NAME`, a name handed in without text) is then treated '
                       'like an undefined one and ends in DefineNotFound instead of expanding to nothing' % (name, sq(flat_[0])[:60]))
            else:
                r.undecided('%s:%s:bodyless' % (CRATE, name), where(f), 'only one Ok(None) exit found')
        # the expansion is re-preprocessed with the table that was passed in
        calls = [n for n in sx.walk(body) if sx.is_call(n, pp.loop_fn['name'])]
        r.inst('re-preprocess', {'calls': len(calls)})
        if len(calls) == 0:
            r.fail('%s:%s:re-preprocess' % (CRATE, name), where(f), 'the expansion is not preprocessed again: nested usages inside a macro body stay unexpanded')
        elif len(calls) != 1:
            r.undecided('%s:%s:re-preprocess' % (CRATE, name), where(f), '%d nested preprocess calls' % len(calls))
        # must-pass-through: every exit that hands back an expansion (`Ok(Some(..))`) went through the nested run — that run is what
        # expands nested usages, processes directives of the expansion and applies strip_comments to it
        if calls:
            from vlib import paths as _paths
            ex = _paths.exits_avoiding(body, lambda n: any(n is c_ for c_ in calls))
            bypass = [e_ for e_ in ex if sx.is_call(e_, 'Ok') and e_['args'] and sx.is_call(e_['args'][0], 'Some')]
            r.inst('re-preprocess-on-every-expansion', {'exits_reachable_without_the_nested_run': [sq(e_)[:40] for e_ in ex][:6]})
            if bypass:
                r.fail('%s:%s:re-preprocess-bypassed' % (CRATE, name), pp.where(bypass[0].get('l') or f['l']),
                       '%s can return an expansion (`%s`) without preprocessing it again: nested usages and directives in it stay as they are and '
                       'strip_comments is not applied to it' % (name, sq(bypass[0])[:60]))
        # the text handed back IS the output of the nested run: nothing is appended to it (or otherwise changed) after the run — text added
        # afterwards is never scanned, so a usage or directive in it stays as it is, and an alias of a macro with formals
        # (`define ADD `SUM / `ADD(1, 2)) no longer finds its argument list
        if len(calls) == 1:
            host = [n for n in sx.walk(body) if n.get('k') == 'let' and 'init' in n and any(z is calls[0] for z in sx.walk(n['init']))]
            rv = None
            if host and host[0]['pat'].get('k') == 'tuple' and host[0]['pat']['e'] and host[0]['pat']['e'][0].get('k') == 'ident':
                rv = host[0]['pat']['e'][0]['n']
            exits_ = [n for n in sx.walk(body) if sx.is_call(n, 'Ok') and n['args'] and sx.is_call(n['args'][0], 'Some') and n['args'][0]['args']
                      and n['args'][0]['args'][0].get('k') == 'tuple' and (n.get('l') or 0) > (calls[0].get('l') or 0)]
            MUT = ('push_str', 'push', 'insert', 'insert_str', 'extend', 'truncate', 'clear', 'pop', 'replace_range', 'retain', 'drain', 'remove')

            def is_nested_text(e_):
                while True:
                    if sx.is_call(e_) and e_['f']['p'] in ('String::from', 'std::string::String::from') and len(e_['args']) == 1:
                        e_ = e_['args'][0]
                    elif e_.get('k') == 'mcall' and e_['m'] in ('to_string', 'to_owned', 'into', 'clone', 'as_str') and not e_['args']:
                        e_ = e_['recv']
                    elif e_.get('k') in ('ref', 'paren'):
                        e_ = e_['e']
                    else:
                        break
                return e_.get('k') == 'mcall' and e_['m'] == 'text' and sx.is_path(e_['recv'], rv)
            # ... and the table handed back is the one the nested run returned, on every path: the expansion may define / undefine through a
            # nested usage or an `include, which the text of the body does not show
            rv2 = None
            if host and host[0]['pat'].get('k') == 'tuple' and len(host[0]['pat']['e']) == 2 and host[0]['pat']['e'][1].get('k') == 'ident':
                rv2 = host[0]['pat']['e'][1]['n']
            for ex_ in exits_:
                tup_ = ex_['args'][0]['args'][0]['e']
                if rv2 is None or len(tup_) != 3:
                    continue
                d_ = tup_[2]
                r.inst('expansion-table-source', {'returned_table': sq(d_)[:40]})
                rebinds_ = [n for n in sx.walk(body) if n.get('k') == 'let' and 'init' in n and rv2 in [x for x in sx.pat_idents(n['pat']) if x] and n is not host[0]
                            and (host[0].get('l') or 0) < (n.get('l') or 0) <= (ex_.get('l') or 0)]
                if sx.is_path(d_, rv2) and not rebinds_:
                    continue
                if sx.is_path(d_, rv2) and rebinds_:
                    r.fail('%s:%s:expansion-table-replaced' % (CRATE, name), pp.where(rebinds_[0].get('l') or f['l']),
                           '%s re-binds the table returned by the nested run before handing it back (`%s`): on some path the caller gets another table than the one the expansion '
                           'produced, so a `define / `undef reached through a nested usage or an `include in the macro body is lost' % (name, sq(rebinds_[0])[:70]))
                elif sx.is_path(d_) or (d_.get('k') == 'mcall' and d_['m'] == 'clone'):
                    r.fail('%s:%s:expansion-table-replaced' % (CRATE, name), pp.where(d_.get('l') or ex_.get('l') or f['l']),
                           '%s hands back `%s` as the define table, not the table returned by the nested run (`%s`): what the expansion defined or undefined is lost' % (name, sq(d_)[:40], rv2))
                else:
                    r.undecided('%s:%s:expansion-table-source' % (CRATE, name), pp.where(ex_.get('l') or f['l']), 'returned table `%s` not recognised' % sq(d_)[:40])
            for ex_ in exits_:
                t_ = ex_['args'][0]['args'][0]['e'][0] if ex_['args'][0]['args'][0]['e'] else None
                if t_ is None or rv is None:
                    continue
                r.inst('expansion-text-source', {'returned_text': sq(t_)[:50]})
                verdict = None
                if is_nested_text(t_):
                    verdict = 'ok'
                elif sx.is_path(t_):
                    v_ = t_['p']
                    lets_ = [n for n in sx.walk(body) if n.get('k') == 'let' and 'init' in n and n['pat'].get('k') == 'ident' and n['pat']['n'] == v_
                             and (calls[0].get('l') or 0) < (n.get('l') or 0) <= (ex_.get('l') or 0)]
                    if lets_ and is_nested_text(lets_[-1]['init']):
                        l0 = lets_[-1].get('l') or 0
                        muts_ = [n for n in sx.walk(body) if (n.get('l') or 0) >= l0 and (
                            (n.get('k') == 'mcall' and n['m'] in MUT and sx.is_path(sx.strip_ref(n['recv']), v_)) or
                            (n.get('k') in ('assign', 'binary') and str(n.get('op', '=')).endswith('=') and n.get('op') not in ('==', '<=', '>=', '!=') and sx.is_path(n.get('l_', {}), v_)))]
                        verdict = ('wrong', muts_[0]) if muts_ else 'ok'
                elif t_.get('k') == 'binary' and t_.get('op') == '+' or t_.get('k') == 'macro':
                    if any(is_nested_text(z) for z in sx.walk(t_) if isinstance(z, dict)):
                        verdict = ('wrong', t_)
                if verdict is None:
                    r.undecided('%s:%s:expansion-text-source' % (CRATE, name), pp.where(ex_.get('l') or f['l']), 'how the returned text `%s` derives from the nested run is not recognised' % sq(t_)[:50])
                elif verdict != 'ok':
                    r.fail('%s:%s:expansion-text-modified-after-rescan' % (CRATE, name), pp.where(verdict[1].get('l') or ex_.get('l') or f['l']),
                           '%s changes the text of the expansion after the nested run (`%s`): what is added there is never scanned again — a macro usage or directive in it stays in the '
                           'output as it is, and an alias of a macro with formals no longer finds its argument list (DefineNoArgs)' % (name, sq(verdict[1])[:60]))
    # --------------------------------------------------------------------------------------------- X14
    tab = table_var(pp)
    writes = []
    for n in sx.walk(pp.loop_fn['body']):
        k = n.get('k')
        if k == 'mcall' and n['m'] in ('insert', 'remove', 'clear', 'extend', 'retain', 'drain', 'entry', 'get_mut', 'remove_entry') and sx.is_path(n['recv'], tab):
            writes.append((n['m'], n))
        elif k == 'assign' and sx.is_path(n['l_'], tab):
            writes.append(('=', n))
        elif k == 'ref' and n.get('mut') and sx.is_path(n['e'], tab):
            writes.append(('&mut', n))
    allowed = {
        'insert': ('Enter(TextMacroDefinition)', None, '<seed>'),
        'remove': ('Enter(UndefineCompilerDirective)',),
        'clear': ('Enter(UndefineallCompilerDirective)',),
        '=': ('Enter(IncludeCompilerDirective)', 'Enter(TextMacroUsage)'),
    }
    for kind, n in writes:
        a = arm_of_line(pp, n.get('l'))
        akey = a.key if a else '<seed>'
        w.inst('write:%s:%s' % (kind, akey), {'write': kind, 'where': akey, 'text': sq(n)[:60]})
        if kind not in allowed or akey not in allowed[kind]:
            w.fail('%s:define-table-write:%s:%s' % (CRATE, kind, akey), pp.where(n.get('l')),
                   'the define table is written (`%s`) in %s: only `define inserts, `undef removes, `undefineall clears and nested runs '
                   'replace it' % (sq(n)[:50], akey))
    # seeding order: predefined constants first, caller's table second (the caller can override)
    seeds = [(n.get('l'), sq(n)) for k_, n in writes if (arm_of_line(pp, n.get('l')) is None) and k_ == 'insert']
    if not seeds:
        # the seeding may live in a private helper that builds and returns the table: `let mut defines = initial_defines(pre_defines);`
        for st_ in pp.loop_fn['body']['stmts']:
            if st_['k'] == 'let' and 'init' in st_ and tab in [x for x in sx.pat_idents(st_['pat']) if x] and sx.is_call(st_['init']) and st_['init']['f']['p'] in pp.fns:
                h_ = pp.fns[st_['init']['f']['p']]
                hp_ = [sx.pat_idents(q['pat'])[0] for q in h_['sig']['params'] if q.get('k') == 'typed']
                amap_ = {p_: sq(sx.strip_ref(a_)) for p_, a_ in zip(hp_, st_['init']['args'])}
                hs_ = h_['body']['stmts']
                if hs_ and hs_[-1]['k'] == 'expr' and not hs_[-1].get('semi') and sx.is_path(hs_[-1]['e']):
                    hv_ = hs_[-1]['e']['p']
                    for n in sx.walk(h_['body']):
                        if n.get('k') == 'mcall' and n['m'] == 'insert' and sx.is_path(n['recv'], hv_):
                            t_ = sq(n).replace(hv_ + '.insert(', tab + '.insert(', 1)
                            seeds.append((n.get('l'), t_))
    w.inst('seed-order', {'seed_inserts': [s_[1][:50] for s_ in seeds]})
    if len(seeds) != 2 or 'pre_defines' in seeds[0][1] or not ('k.clone()' in seeds[1][1] and 'v' in seeds[1][1]):
        w.fail('%s:define-table-seed' % CRATE, pp.where(pp.loop_fn['l']), 'the table must be seeded with the predefined constants and then with every caller-supplied entry unchanged; found %s' % seeds)
    # `define: key and Define fields come from the directive's own nodes; predefined names are not redefined
    d_arm = [a for a in pp.arms if a.event == 'Enter' and a.kind == 'TextMacroDefinition']
    w.exactly('define_arm', len(d_arm), 1)
    if d_arm:
        body = d_arm[0].body
        ins = [n for n in sx.walk(body) if n.get('k') == 'mcall' and n['m'] == 'insert' and sx.is_path(n['recv'], tab) and len(n['args']) == 2]

        def local_init(name):
            ls = [n for n in sx.walk(body) if n.get('k') == 'let' and n.get('pat', {}).get('k') == 'ident' and n['pat']['n'] == name and 'init' in n]
            return ls[-1]['init'] if ls else None

        def record_triple(e):
            """(identifier, arguments, text) expressions of a Define value: struct literal or Define::new(..) (constructor parameters
            mapped through the constructor's own struct literal)"""
            e = sx.strip_ref(e)
            if sx.is_path(e):
                init = local_init(e['p'])
                return record_triple(init) if init is not None else None
            if e.get('k') == 'struct' and e['p'] == 'Define':
                fl = {x['n']: x['e'] for x in e['fields']}
                if set(fl) == {'identifier', 'arguments', 'text'}:
                    return fl['identifier'], fl['arguments'], fl['text']
                return None
            if e.get('k') == 'call' and sx.is_path(e['f']) and e['f']['p'] in ('Define::new', 'Self::new') and ('Define', 'new') in pp.methods:
                cf = pp.methods[('Define', 'new')]
                ps = [sx.pat_idents(q['pat'])[0] for q in cf['sig']['params'] if q.get('k') == 'typed']
                lit = [n for n in sx.walk(cf['body']) if n.get('k') == 'struct' and n['p'] in ('Define', 'Self')]
                if len(lit) == 1 and len(ps) == len(e['args']):
                    fl = {x['n']: x['e'] for x in lit[0]['fields']}
                    amap = dict(zip(ps, e['args']))
                    out = []
                    for fld in ('identifier', 'arguments', 'text'):
                        v = fl.get(fld)
                        if v is None or not sx.is_path(v) or v['p'] not in amap:
                            return None
                        out.append(amap[v['p']])
                    return tuple(out)
            return None

        verdict, why = 'undecided', 'record construction not recognised'
        if len(ins) == 1:
            keyv = sx.strip_ref(ins[0]['args'][0])
            val = ins[0]['args'][1]
            inner = val['args'][0] if sx.is_call(val, 'Some') and len(val['args']) == 1 else None
            trip = record_triple(inner) if inner is not None else None
            key_init = local_init(keyv['p']) if sx.is_path(keyv) else None
            if inner is None:
                verdict, why = ('wrong', 'the table entry is `%s`, not Some(Define)' % sq(val)[:40]) if sq(val) == 'None' else ('undecided', 'inserted value `%s`' % sq(val)[:40])
            elif key_init is None or 'identifier(' not in sq(key_init):
                verdict, why = 'undecided', 'the key is not a local bound from identifier(<the directive\'s name>)'
            elif trip is None:
                verdict, why = 'undecided', 'Define value `%s` not recognised' % sq(inner)[:40]
            else:
                ide, arg, txt = (sx.strip_ref(x) for x in trip)
                ide_root = ide['recv'] if ide.get('k') == 'mcall' and ide['m'] in ('clone', 'to_string', 'to_owned') else ide
                if not sx.is_path(ide_root, keyv['p']):
                    verdict, why = 'wrong', 'the Define records the name `%s`, the table key is `%s`' % (sq(ide)[:30], keyv['p'])
                elif arg.get('k') in ('macro',) or sq(arg) in ('Vec::new()', 'vec![]'):
                    verdict, why = 'wrong', 'the Define records no formal arguments (`%s`)' % sq(arg)[:30]
                elif sq(txt) == 'None':
                    verdict, why = 'wrong', 'the Define records no body (`None`)'
                elif sx.is_path(arg) and sx.is_path(txt):
                    pushes_ = [n for n in sx.walk(body) if n.get('k') == 'mcall' and n['m'] == 'push' and sx.is_path(n['recv'], arg['p'])]
                    tinit = local_init(txt['p'])
                    if pushes_ and tinit is not None and 'DefineText' in sq(tinit):
                        verdict, why = 'ok', ''
                    else:
                        verdict, why = 'undecided', 'how `%s` / `%s` are filled from the directive is not recognised' % (arg['p'], txt['p'])
                else:
                    verdict, why = 'undecided', 'arguments / text are not plain locals'
        elif not ins:
            verdict, why = 'wrong', 'the `define handler never inserts into the table'
        # ... and the strings of the record are the directive's lexemes VERBATIM: a slice of the source (`X.str(&s)`) that goes through trim /
        # replace / case folding before it is stored is no longer the name, default or body that was written (a default `hello ` recorded
        # as `hello` changes what `"x``y`" expands to)
        TRANSFORM = ('trim', 'trim_end', 'trim_start', 'trim_matches', 'trim_end_matches', 'trim_start_matches', 'replace', 'replacen', 'to_lowercase', 'to_uppercase',
                     'to_ascii_lowercase', 'to_ascii_uppercase', 'strip_prefix', 'strip_suffix', 'split', 'split_whitespace', 'lines', 'truncate', 'repeat')
        for n in sx.walk(body):
            if n.get('k') == 'mcall' and n['m'] in TRANSFORM:
                rc = n['recv']
                while isinstance(rc, dict) and rc.get('k') in ('mcall', 'ref', 'paren') and not (rc.get('k') == 'mcall' and rc['m'] == 'str'):
                    rc = rc.get('recv') if rc.get('k') == 'mcall' else rc.get('e')
                if isinstance(rc, dict) and rc.get('k') == 'mcall' and rc['m'] == 'str' and len(rc['args']) == 1:
                    if verdict != 'wrong':
                        verdict, why = 'wrong', ('a lexeme of the directive is changed before it is recorded (`%s`): the table no longer holds the text that was written' % sq(n)[:50])
        w.inst('define-record', {'verdict': verdict, 'why': why})
        if verdict == 'wrong':
            w.fail('%s:define-record' % CRATE, pp.where(d_arm[0].line), '`define must insert, under the macro\'s own name, a Define built from that directive\'s name, formals and text: %s' % why)
        elif verdict == 'undecided':
            w.undecided('%s:define-record' % CRATE, pp.where(d_arm[0].line), '`define record: %s' % why)
    u_arm = [a for a in pp.arms if a.event == 'Enter' and a.kind == 'UndefineCompilerDirective']
    if u_arm:
        rm = [n for n in sx.walk(u_arm[0].body) if n.get('k') == 'mcall' and n['m'] == 'remove']
        idl = [st for st in u_arm[0].body['stmts'] if st['k'] == 'let' and 'identifier(' in sq(st.get('init', {}))]
        w.inst('undef-key')
        if len(rm) != 1 or not idl or sq(rm[0]['args'][0]) != '&' + sx.pat_idents(idl[0]['pat'])[0]:
            w.fail('%s:undef-key' % CRATE, pp.where(u_arm[0].line), '`undef must remove exactly the name the directive gives')
    # the write of each directive happens on every path through its arm: the conditions it is nested under are only the
    # stated ones (`define: the name is not a predefined macro).  A write skipped on any other condition leaves the table
    # with the entry of an EARLIER directive (e.g. its body origin), unless the condition is whole-value equality.
    def guards_of(root, target):
        """conditions (text, negated?) under which `target` is nested inside `root`; None if under a loop/match"""
        res = []

        def walk_(node, acc):
            if node is target:
                res.append(list(acc))
                return
            if isinstance(node, dict):
                k = node.get('k')
                if k == 'if':
                    walk_(node['c'], acc)
                    walk_(node['t'], acc + [('if', node['c'], True)])
                    if 'e' in node:
                        walk_(node['e'], acc + [('if', node['c'], False)])
                    return
                if k == 'match':
                    walk_(node['e'], acc)
                    for a_ in node['arms']:
                        walk_(a_['body'], acc + [('match', node['e'], True)])
                    return
                if k in ('for', 'while', 'loop'):
                    for v in node.values():
                        walk_(v, acc + [('loop', node, True)])
                    return
                for v in node.values():
                    if isinstance(v, (dict, list)):
                        walk_(v, acc)
            elif isinstance(node, list):
                for v in node:
                    walk_(v, acc)
        walk_(root, [])
        return res[0] if res else None

    for kind_, meth, arm_kind, allowed_guard in (('define', 'insert', 'TextMacroDefinition', 'is_predefined_text_macro'),
                                                  ('undef', 'remove', 'UndefineCompilerDirective', None),
                                                  ('undefineall', 'clear', 'UndefineallCompilerDirective', None)):
        arms_ = [a for a in pp.arms if a.event == 'Enter' and a.kind == arm_kind]
        if not arms_:
            continue
        ws_ = [n for n in sx.walk(arms_[0].body) if n.get('k') == 'mcall' and n['m'] == meth and sx.is_path(n['recv'], tab)]
        if len(ws_) != 1:
            continue
        gs = guards_of(arms_[0].body, ws_[0])
        w.inst('write-unconditional:%s' % kind_, {'directive': kind_, 'nested_under': [sq(c)[:50] for _, c, _ in (gs or [])]})
        if gs is None:
            continue
        for how, c, pol in gs:
            txt = sq(c)
            if how == 'if' and allowed_guard and allowed_guard in txt and c.get('k') == 'unary' and c['op'] == '!' and pol:
                continue
            if how == 'if' and c.get('k') == 'binary' and c['op'] in ('!=', '==') and 'Some(' in txt and tab in txt and '.get(' in txt \
                    and '.text' not in txt and '.arguments' not in txt:
                w.undecided('%s:write-conditional:%s' % (CRATE, kind_), pp.where(ws_[0].get('l')), '`%s: the table write is skipped on a whole-value comparison `%s`' % (kind_, txt[:60]))
                continue
            w.fail('%s:write-conditional:%s' % (CRATE, kind_), pp.where(ws_[0].get('l')),
                   '`%s: the table write `%s` is nested under `%s`: on the other branch the directive leaves the table as an earlier directive '
                   'made it (for `define: the older Define, with the older body origin, stays in force)' % (kind_, sq(ws_[0])[:40], txt[:60]))
    # the table is what the function returns
    tail = pp.loop_fn['body']['stmts'][-1]
    w.inst('returned')
    if sq(tail) != 'Ok((%s,%s))' % (pp.out_var, tab):
        w.fail('%s:define-table-returned' % CRATE, pp.where(tail.get('l')), 'the function must return the live table: Ok((%s, %s)); found %s' % (pp.out_var, tab, sq(tail)[:60]))
    return [r, w] + chain_rules(ctx)


# ------------------------------------------------------------------------------------------------- X15 / X16
class _Unm(Exception):
    pass


def _eval_bool(c, env):
    """boolean expression over the flag `hit` and definedness tests (every contains_key / predefined-macro call is the
    abstract atom "the tested name is defined")"""
    k = c.get('k')
    if k == 'unary' and c['op'] == '!':
        return not _eval_bool(c['e'], env)
    if k == 'binary' and c['op'] == '&&':
        return _eval_bool(c['l_'], env) and _eval_bool(c['r'], env)
    if k == 'binary' and c['op'] == '||':
        return _eval_bool(c['l_'], env) or _eval_bool(c['r'], env)
    if k == 'path' and c['p'] in env:
        return env[c['p']]
    if k == 'lit' and c.get('t') == 'bool':
        return bool(c['v'])
    if k in ('mcall', 'call'):
        t = sq(c)
        if 'contains_key(' in t or 'is_predefined' in t:
            return env['cond']
    raise _Unm(sq(c)[:50])


def _eval_chain(stmts, env, skipped):
    """Tiny typestate interpreter for the branch-selection statements of a conditional arm.
    env: {'hit': bool, 'cond': bool}; records skip_nodes.push(<body>) calls in `skipped`; raises _Unm on an unmodelled form."""
    for st in stmts:
        if st['k'] == 'let':
            if st['pat'].get('k') == 'ident' and 'init' in st:
                try:
                    env[st['pat']['n']] = _eval_bool(st['init'], env)
                except _Unm:
                    pass    # not a boolean over the flag / definedness tests
            continue   # destructuring / identifier extraction
        if st['k'] != 'expr':
            raise _Unm(sq(st)[:50])
        e = st['e']
        k = e.get('k')
        if k == 'mcall' and e['m'] == 'push' and sx.is_path(e['recv'], 'skip_nodes'):
            skipped.append(sq(e['args'][0]))
            continue
        if k == 'assign' and sx.is_path(e['l_']) and e['l_']['p'] in env:
            env[e['l_']['p']] = _eval_bool(e['r'], env)
            continue
        if k == 'if':
            c = e['c']
            if c.get('k') == 'let':
                raise _Unm('if let')
            v = _eval_bool(c, env)
            branch = e['t'] if v else e.get('e')
            if branch is None:
                continue
            if branch.get('k') == 'if':
                branch = {'k': 'block', 'stmts': [{'k': 'expr', 'e': branch, 'semi': False}]}
            _eval_chain(branch['stmts'], env, skipped)
            continue
        raise _Unm(sq(st)[:50])
    return True


def chain_rules(ctx):
    pp = model(ctx)
    r = RuleResult('X15', 'a conditional chain activates exactly the first branch whose condition holds (else branch if none)')
    q = RuleResult('X16', '`include same-line rule: the two item kinds are tracked alike')
    if pp.problems:
        return [r, q]
    for a in pp.arms:
        if a.event != 'Enter' or a.kind not in ('IfdefDirective', 'IfndefDirective'):
            continue
        stmts = a.body['stmts']
        neg = a.kind == 'IfndefDirective'
        # split: head (before the `for` over elsif), loop body, tail (else)
        fors = [i for i, st in enumerate(stmts) if st['k'] == 'expr' and st['e'].get('k') == 'for']
        if len(fors) != 1:
            r.undecided('%s:%s:chain-shape' % (CRATE, a.key), pp.where(a.line), '%s: expected one loop over the `elsif list' % a.key)
            continue
        head, loop, tail = stmts[:fors[0]], stmts[fors[0]]['e'], stmts[fors[0] + 1:]
        names = {}

        def body_skipped(sk, what):
            return any(what in x for x in sk)
        # the flag: the `let mut <flag> = ..` of the head
        flag = None
        for st in head:
            if st['k'] == 'let' and st['pat'].get('k') == 'ident' and st['pat'].get('mut') and 'init' in st:
                flag = st['pat']['n']
        if flag is None:
            r.undecided('%s:%s:chain-shape' % (CRATE, a.key), pp.where(a.line), '%s: no branch-taken flag found' % a.key)
            continue
        try:
            # ---- first branch: for the tested name defined / undefined
            for cond in (False, True):
                env = {flag: False, 'cond': cond}
                sk = []
                _eval_chain(head, env, sk)
                truth = (not cond) if neg else cond
                r.inst('%s:first:%s' % (a.key, cond), {'arm': a.key, 'defined': cond, 'first_body_skipped': body_skipped(sk, 'ifbody'), 'hit': env[flag]})
                if body_skipped(sk, 'ifbody') != (not truth) or env[flag] != truth:
                    r.fail('%s:%s:first-branch' % (CRATE, a.key), pp.where(a.line),
                           '%s: with the tested name %sdefined the first branch must be %s and the flag %s; the handler gives skipped=%s flag=%s' %
                           (a.key, '' if cond else 'un', 'kept' if truth else 'skipped', truth, body_skipped(sk, 'ifbody'), env[flag]))
            # ---- elsif step
            for hit in (False, True):
                for cond in (False, True):
                    env = {flag: hit, 'cond': cond}
                    sk = []
                    _eval_chain(loop['body']['stmts'], env, sk)
                    want_skip = hit or not cond
                    want_hit = hit or cond
                    r.inst('%s:elsif:%s:%s' % (a.key, hit, cond), {'arm': a.key, 'hit_before': hit, 'elsif_defined': cond,
                                                                    'body_skipped': body_skipped(sk, 'elsifbody'), 'hit_after': env[flag]})
                    if body_skipped(sk, 'elsifbody') != want_skip or env[flag] != want_hit:
                        r.fail('%s:%s:elsif-step' % (CRATE, a.key), pp.where(loop.get('l')),
                               '%s: `elsif with hit=%s, defined=%s must give skipped=%s hit=%s; the handler gives skipped=%s hit=%s' %
                               (a.key, hit, cond, want_skip, want_hit, body_skipped(sk, 'elsifbody'), env[flag]))
            # ---- else: skipped iff hit
            els = [st for st in tail if st['k'] == 'expr' and st['e'].get('k') == 'if' and st['e']['c'].get('k') == 'let']
            if len(els) != 1:
                r.undecided('%s:%s:else-shape' % (CRATE, a.key), pp.where(a.line), '%s: `else handling not of the form `if let Some(elsebody) = elsebody {..}`' % a.key)
                continue
            # the `else body is the LAST name bound from the else group (by the `if let` pattern itself or by a `let` inside it), whatever it is called
            bound_ = [x_ for x_ in sx.pat_idents(els[0]['e']['c']['pat']) if x_]
            for st_ in els[0]['e']['t']['stmts']:
                if st_['k'] == 'let':
                    bound_ += [x_ for x_ in sx.pat_idents(st_['pat']) if x_]
            else_body_name = bound_[-1] if bound_ else 'elsebody'
            for hit in (False, True):
                env = {flag: hit, 'cond': False}
                sk = []
                _eval_chain(els[0]['e']['t']['stmts'], env, sk)
                r.inst('%s:else:%s' % (a.key, hit), {'arm': a.key, 'hit_before': hit, 'else_body_skipped': body_skipped(sk, else_body_name)})
                if body_skipped(sk, else_body_name) != hit:
                    r.fail('%s:%s:else-branch' % (CRATE, a.key), pp.where(els[0].get('l')),
                           '%s: the `else body must be skipped iff an earlier branch was taken (hit=%s gives skipped=%s)' % (a.key, hit, body_skipped(sk, else_body_name)))
        except _Unm as u:
            r.undecided('%s:%s:chain-shape' % (CRATE, a.key), pp.where(a.line), '%s: statement `%s` is not modelled by the chain interpreter' % (a.key, u))
            continue
        # the directive's own keyword and identifier tokens are skip-listed unconditionally (they are never emitted)
        def uncond_pushes(stmts_):
            return [sq(st_['e']['args'][0]) for st_ in stmts_ if st_['k'] == 'expr' and st_['e'].get('k') == 'mcall' and st_['e']['m'] == 'push'
                    and sx.is_path(st_['e']['recv'], 'skip_nodes')]
        need = [('head', head, 2), ('elsif', loop['body']['stmts'], 2), ('else', els[0]['e']['t']['stmts'] if els else [], 1)]
        for part, stmts_, n_need in need:
            got = uncond_pushes(stmts_)
            r.inst('%s:tokens:%s' % (a.key, part), {'arm': a.key, 'part': part, 'always_skipped': got})
            if len(got) < n_need:
                r.fail('%s:%s:directive-tokens:%s' % (CRATE, a.key, part), pp.where(a.line),
                       '%s (%s): the directive\'s own keyword / identifier tokens must be skip-listed unconditionally (found %s): they would be '
                       'emitted into the output' % (a.key, part, got))
    if not getattr(r, 'undecided_list', []):
        r.floor('chain_cases', r.instances, 20)
    # ---------------------------------------------------------------- X16: the line-tracking match (the match before the main one)
    if len(pp.matches) >= 2:
        idx, m = pp.matches[-2]
        arms = {}
        for arm in m['arms']:
            arms[sq(arm['pat'])] = arm
        def get(ev, kind):
            for k_, v_ in arms.items():
                if k_.startswith('NodeEvent::%s(RefNode::%s(' % (ev, kind)):
                    return v_
            return None
        e1, e2 = get('Enter', 'SourceDescriptionNotDirective'), get('Enter', 'CompilerDirective')
        l1, l2 = get('Leave', 'SourceDescriptionNotDirective'), get('Leave', 'CompilerDirective')

        def expanded(node):
            """text of a node plus the bodies of the private helpers it calls (one level)"""
            t = sq(node)
            for n in sx.walk(node):
                if sx.is_call(n) and n['f']['p'] in pp.fns and n['f']['p'] != pp.loop_fn['name']:
                    t += ' ' + sq(pp.fns[n['f']['p']]['body'])
            return t
        q.inst('enter-arms', {'found': [bool(e1), bool(e2)]})
        if bool(e1) != bool(e2):
            missing = 'plain text' if not e1 else 'directives'
            q.fail('%s:include-line:enter-test' % CRATE, pp.where(m.get('l')),
                   'an item entered on the line of a preceding `include must raise IncludeLine for plain text and for directives alike; the line-tracking match has no Enter arm '
                   'for %s any more, so `include "f" followed on the same line by %s is accepted' % (missing, 'text' if not e1 else 'another directive (`define, `undef, a macro usage)'))
        elif not e1 or not e2:
            q.undecided('%s:include-line:enter-arms' % CRATE, pp.where(m.get('l')), 'the Enter arms of the line-tracking match were not found')
        else:
            a1, a2 = sq(sx.alpha(e1['body'])), sq(sx.alpha(e2['body']))
            x1, x2 = expanded(e1['body']), expanded(e2['body'])
            both_test = all('last_include_line' in x and 'IncludeLine' in x for x in (x1, x2))
            if a1 == a2 and both_test:
                pass
            elif both_test:
                q.undecided('%s:include-line:enter-differ' % CRATE, pp.where(m.get('l')), 'the two Enter arms test the include line in different ways')
            else:
                missing = 'plain text' if not ('last_include_line' in x1 and 'IncludeLine' in x1) else 'directives'
                q.fail('%s:include-line:enter-test' % CRATE, pp.where(m.get('l')),
                       'an item entered on the line of a preceding `include must raise IncludeLine for plain text and for directives alike; %s '
                       'are no longer tested' % missing)
        q.inst('leave-arms', {'found': [bool(l1), bool(l2)]})
        if not l1 or not l2:
            q.undecided('%s:include-line:leave-arms' % CRATE, pp.where(m.get('l')), 'the Leave arms of the line-tracking match were not found')
        else:
            ok1 = any(sq(n).startswith('last_item_line=Some(') and sq(n).endswith('.line)') for n in sx.walk(l1['body']) if n.get('k') == 'assign')
            ok2 = any(sq(n).startswith('last_item_line=Some(') and sq(n).endswith('.line)') for n in sx.walk(l2['body']) if n.get('k') == 'assign')
            if not (ok1 and ok2):
                q.fail('%s:include-line:leave' % CRATE, pp.where(m.get('l')), 'leaving an item must record its line as the last item line (plain text: %s, directive: %s)' % (ok1, ok2))
        inc = [a for a in pp.arms if a.event == 'Enter' and a.kind == 'IncludeCompilerDirective']
        if inc:
            t = expanded(inc[0].body)
            q.inst('include-arm')
            if 'last_include_line=Some(' not in t:
                q.fail('%s:include-line:include-arm' % CRATE, pp.where(inc[0].line), 'the `include arm must record its own line as the last include line')
            elif not ('last_item_line' in t and 'IncludeLine' in t):
                q.fail('%s:include-line:include-arm' % CRATE, pp.where(inc[0].line), 'the `include arm must reject an item already on its line (IncludeLine)')
    else:
        q.fail('%s:include-line:match-missing' % CRATE, pp.where(1), 'line-tracking match not found (fail closed)')
    return [r, q]
