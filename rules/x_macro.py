"""X13 — structure of macro resolution (error payloads, formal/actual binding, body-less macros, live table);
X14 — writers of the define table."""
from vlib import sx
from vlib.report import RuleResult
from rules.x_pp import model, sq, arm_of_line, CRATE, table_var


def resolver_fn(pp):
    """role: the function of the recursive component that takes the usage node and the define table and is called
    from the event loop with `&defines`"""
    cands = []
    for name, f in pp.fns.items():
        if name == pp.loop_fn['name']:
            continue
        errs = [n['f']['p'] for n in sx.walk(f['body']) if n.get('k') == 'call' and sx.is_path(n['f']) and n['f']['p'].startswith('Error::Define')]
        if errs:
            cands.append((name, f))
    return cands


def run(ctx):
    pp = model(ctx)
    r = RuleResult('X13', 'macro resolution: misuse is reported with the name concerned; formals bind positionally with defaults; body-less macros expand to nothing; the live table is used')
    w = RuleResult('X14', 'the define table is seeded, written and returned only at the sites the directives imply')
    if pp.problems:
        for p in pp.problems:
            r.fail('anchor:' + p, pp.where(1), 'preprocessor model: %s (fail closed)' % p)
        return [r, w]
    cands = resolver_fn(pp)
    r.exactly('resolver_function', len(cands), 1)
    if len(cands) == 1:
        name, f = cands[0]
        body = f['body']
        where = lambda n: pp.where(n.get('l') if isinstance(n, dict) else n)
        params = [sx.pat_idents(p['pat'])[0] for p in f['sig']['params'] if p.get('k') == 'typed']
        # the usage's name: `let id = identifier(<name of x>, &s).unwrap()`
        id_var = None
        for st in body['stmts']:
            if st['k'] == 'let' and 'init' in st and 'identifier(' in sq(st['init']) and sq(st['init']).endswith('.unwrap()'):
                id_var = sx.pat_idents(st['pat'])[0]
        r.exactly('usage_name_binding', 1 if id_var else 0, 1)
        # the table lookup uses that name on the table parameter
        tab = table_var(pp) if table_var(pp) in params else ('defines' if 'defines' in params else None)
        look = [n for n in sx.walk(body) if n.get('k') == 'mcall' and n['m'] == 'get' and sx.is_path(n['recv'], tab)]
        r.inst('lookup', {'lookup': [sq(x) for x in look]})
        if len(look) != 1 or sq(look[0]['args'][0]) != '&' + (id_var or '?'):
            r.fail('%s:%s:lookup' % (CRATE, name), where(f), '%s must look the usage\'s own name (`%s`) up in the table it was given (`%s`); found %s' %
                   (name, id_var, tab, [sq(x) for x in look]))
        # error sites
        errs = {}
        for n in sx.walk(body):
            if n.get('k') == 'call' and sx.is_path(n['f']) and n['f']['p'].startswith('Error::Define'):
                errs.setdefault(n['f']['p'], []).append(n)
        # DefineNotFound(id)
        nf = errs.get('Error::DefineNotFound', [])
        r.inst('err:DefineNotFound', {'sites': [sq(x) for x in nf]})
        if len(nf) != 1 or sq(nf[0]['args'][0]) not in (id_var, '%s.clone()' % id_var):
            r.fail('%s:%s:DefineNotFound-payload' % (CRATE, name), where(nf[0] if nf else f),
                   'DefineNotFound must carry the name of the macro that was used (`%s`); found %s' % (id_var, [sq(x) for x in nf]))
        # formal loop: for (i, (arg, default)) in define.arguments.iter().enumerate()
        loops = [n for n in sx.walk(body) if n.get('k') == 'for' and 'arguments' in sq(n['e'])]
        r.exactly('formal_loop', len(loops), 1)
        if len(loops) == 1:
            lp = loops[0]
            ids = [x for x in sx.pat_idents(lp['pat']) if x]
            it = sq(lp['e'])
            r.inst('formal-loop', {'iterates': it, 'binds': ids})
            if not (it.endswith('.arguments.iter().enumerate()') and len(ids) == 3):
                r.fail('%s:%s:formal-loop' % (CRATE, name), where(lp), 'formals must be walked in order with their index (`for (i, (arg, default)) in define.arguments.iter().enumerate()`); found %s' % it)
            else:
                i_, arg_, def_ = ids
                gets = [n for n in sx.walk(lp['body']) if n.get('k') == 'mcall' and n['m'] == 'get']
                if len(gets) != 1 or sq(gets[0]['args'][0]) != i_ or 'actual' not in sq(gets[0]['recv']):
                    r.fail('%s:%s:positional-binding' % (CRATE, name), where(lp), 'the actual argument of formal #i must be taken at the same index i; found %s' % [sq(x) for x in gets])
                an = errs.get('Error::DefineArgNotFound', [])
                r.inst('err:DefineArgNotFound', {'sites': [sq(x) for x in an]})
                inside = [x for x in an if any(y is x for y in sx.walk(lp['body']))]
                if len(an) != 1 or len(inside) != 1 or sq(an[0]['args'][0]) not in ('String::from(%s)' % arg_, '%s.clone()' % arg_, '%s.to_string()' % arg_):
                    r.fail('%s:%s:DefineArgNotFound-payload' % (CRATE, name), where(an[0] if an else lp),
                           'DefineArgNotFound must carry the name of the formal that got no value (`%s`); found %s' % (arg_, [sq(x) for x in an]))
                ins = [n for n in sx.walk(lp['body']) if n.get('k') == 'mcall' and n['m'] == 'insert']
                if len(ins) != 1 or arg_ not in sq(ins[0]['args'][0]):
                    r.fail('%s:%s:binding-key' % (CRATE, name), where(lp), 'the value must be bound under the formal\'s name; found %s' % [sq(x) for x in ins])
                # default used when the actual is omitted
                m_ = [n for n in sx.walk(lp['body']) if n.get('k') == 'match']
                txt = sq(lp['body'])
                if txt.count('ifletSome(%s)=%s' % (def_, def_)) < 2:
                    r.fail('%s:%s:defaults' % (CRATE, name), where(lp), 'an omitted or missing actual must fall back to the formal\'s default (both the `Some(None)` and the `None` case)')
        na = errs.get('Error::DefineNoArgs', [])
        r.inst('err:DefineNoArgs', {'sites': [sq(x) for x in na]})
        ok = len(na) == 1 and sq(na[0]['args'][0]) in ('define.identifier.clone()', '%s.clone()' % id_var, id_var)
        if ok:
            host = [n for n in sx.walk(body) if n.get('k') == 'if' and any(y is na[0] for y in sx.walk(n['t']))]
            c = sq(host[-1]['c']) if host else ''
            ok = 'arguments.is_empty()' in c and 'no_args' in c and c.startswith('(!')
        if not ok:
            r.fail('%s:%s:DefineNoArgs' % (CRATE, name), where(na[0] if na else f),
                   'DefineNoArgs must be raised, with the macro\'s name, exactly when the macro has formals and the usage has no argument list')
        # body-less macro / name defined without Define -> Ok(None)
        nones = [n for n in sx.walk(body) if sq(n) == 'Ok(None)']
        r.inst('bodyless', {'Ok(None)_sites': len(nones)})
        if len(nones) < 2:
            r.fail('%s:%s:bodyless' % (CRATE, name), where(f), 'a macro without body (and a name defined without a Define) must expand to nothing (Ok(None))')
        # the expansion is re-preprocessed with the table that was passed in
        calls = [n for n in sx.walk(body) if sx.is_call(n, pp.loop_fn['name'])]
        r.inst('re-preprocess', {'calls': len(calls)})
        if len(calls) != 1:
            r.fail('%s:%s:re-preprocess' % (CRATE, name), where(f), 'the expansion must be preprocessed again exactly once (nested usages)')
    # --------------------------------------------------------------------------------------------- X14
    tab = table_var(pp)
    writes = []
    for n in sx.walk(pp.loop_fn['body']):
        k = n.get('k')
        if k == 'mcall' and n['m'] in ('insert', 'remove', 'clear', 'extend', 'retain', 'drain', 'entry', 'get_mut', 'remove_entry') and sx.is_path(n['recv'], tab):
            writes.append((n['m'], n))
        elif k == 'assign' and sx.is_path(n['l_'], tab):
            writes.append(('=', n))
        elif k == 'ref' and n.get('mut') and sx.is_path(n['e'], tab):
            writes.append(('&mut', n))
    allowed = {
        'insert': ('Enter(TextMacroDefinition)', None, '<seed>'),
        'remove': ('Enter(UndefineCompilerDirective)',),
        'clear': ('Enter(UndefineallCompilerDirective)',),
        '=': ('Enter(IncludeCompilerDirective)', 'Enter(TextMacroUsage)'),
    }
    for kind, n in writes:
        a = arm_of_line(pp, n.get('l'))
        akey = a.key if a else '<seed>'
        w.inst('write:%s:%s' % (kind, akey), {'write': kind, 'where': akey, 'text': sq(n)[:60]})
        if kind not in allowed or akey not in allowed[kind]:
            w.fail('%s:define-table-write:%s:%s' % (CRATE, kind, akey), pp.where(n.get('l')),
                   'the define table is written (`%s`) in %s: only `define inserts, `undef removes, `undefineall clears and nested runs '
                   'replace it' % (sq(n)[:50], akey))
    # seeding order: predefined constants first, caller's table second (the caller can override)
    seeds = [(n.get('l'), sq(n)) for k_, n in writes if (arm_of_line(pp, n.get('l')) is None) and k_ == 'insert']
    w.inst('seed-order', {'seed_inserts': [s_[1][:50] for s_ in seeds]})
    if len(seeds) != 2 or 'pre_defines' in seeds[0][1] or not ('k.clone()' in seeds[1][1] and 'v' in seeds[1][1]):
        w.fail('%s:define-table-seed' % CRATE, pp.where(pp.loop_fn['l']), 'the table must be seeded with the predefined constants and then with every caller-supplied entry unchanged; found %s' % seeds)
    # `define: key and Define fields come from the directive's own nodes; predefined names are not redefined
    d_arm = [a for a in pp.arms if a.event == 'Enter' and a.kind == 'TextMacroDefinition']
    w.exactly('define_arm', len(d_arm), 1)
    if d_arm:
        body = d_arm[0].body
        lits = [n for n in sx.walk(body) if n.get('k') == 'struct' and n['p'] == 'Define']
        ins = [n for n in sx.walk(body) if n.get('k') == 'mcall' and n['m'] == 'insert' and sx.is_path(n['recv'], tab)]
        ok = len(lits) == 1 and len(ins) == 1
        if ok:
            fl = {x['n']: sq(x['e']) for x in lits[0]['fields']}
            ok = fl.get('identifier') == 'id.clone()' and fl.get('arguments') == 'define_args' and fl.get('text') == 'define_text' \
                and sq(ins[0]['args'][0]) == 'id' and sq(ins[0]['args'][1]) == 'Some(define)'
        w.inst('define-record', {'record': sq(lits[0])[:80] if lits else None})
        if not ok:
            w.fail('%s:define-record' % CRATE, pp.where(d_arm[0].line), '`define must insert, under the macro\'s own name, a Define built from that directive\'s name, formals and text')
    u_arm = [a for a in pp.arms if a.event == 'Enter' and a.kind == 'UndefineCompilerDirective']
    if u_arm:
        rm = [n for n in sx.walk(u_arm[0].body) if n.get('k') == 'mcall' and n['m'] == 'remove']
        idl = [st for st in u_arm[0].body['stmts'] if st['k'] == 'let' and 'identifier(' in sq(st.get('init', {}))]
        w.inst('undef-key')
        if len(rm) != 1 or not idl or sq(rm[0]['args'][0]) != '&' + sx.pat_idents(idl[0]['pat'])[0]:
            w.fail('%s:undef-key' % CRATE, pp.where(u_arm[0].line), '`undef must remove exactly the name the directive gives')
    # the table is what the function returns
    tail = pp.loop_fn['body']['stmts'][-1]
    w.inst('returned')
    if sq(tail) != 'Ok((%s,%s))' % (pp.out_var, tab):
        w.fail('%s:define-table-returned' % CRATE, pp.where(tail.get('l')), 'the function must return the live table: Ok((%s, %s)); found %s' % (pp.out_var, tab, sq(tail)[:60]))
    return [r, w] + chain_rules(ctx)


# ------------------------------------------------------------------------------------------------- X15 / X16
def _eval_chain(stmts, env, skipped):
    """Tiny typestate interpreter for the branch-selection statements of a conditional arm.
    env: {'hit': bool, 'cond': bool}; records skip_nodes.push(<body>) calls in `skipped`; returns False on an unmodelled form."""
    for st in stmts:
        if st['k'] == 'let':
            txt = sq(st)
            if txt.startswith('letmuthit=false'):
                env['hit'] = False
            continue   # destructuring / identifier extraction
        if st['k'] != 'expr':
            return False
        e = st['e']
        k = e.get('k')
        if k == 'mcall' and e['m'] == 'push' and sx.is_path(e['recv'], 'skip_nodes'):
            skipped.append(sq(e['args'][0]))
            continue
        if k == 'assign' and sq(e) == 'hit=true':
            env['hit'] = True
            continue
        if k == 'if':
            c = e['c']
            if c.get('k') == 'let':
                return None   # `if let Some(elsebody) = elsebody` handled by caller
            cs = sq(c)
            if cs == 'hit':
                v = env['hit']
            elif 'contains_key' in cs:
                v = env['cond'] if not cs.startswith('(!') else (not env['cond'])
            else:
                return False
            branch = e['t'] if v else e.get('e')
            if branch is None:
                continue
            if branch.get('k') == 'if':
                branch = {'k': 'block', 'stmts': [{'k': 'expr', 'e': branch, 'semi': False}]}
            r_ = _eval_chain(branch['stmts'], env, skipped)
            if r_ is False:
                return False
            continue
        return False
    return True


def chain_rules(ctx):
    pp = model(ctx)
    r = RuleResult('X15', 'a conditional chain activates exactly the first branch whose condition holds (else branch if none)')
    q = RuleResult('X16', '`include same-line rule: the two item kinds are tracked alike')
    if pp.problems:
        return [r, q]
    for a in pp.arms:
        if a.event != 'Enter' or a.kind not in ('IfdefDirective', 'IfndefDirective'):
            continue
        stmts = a.body['stmts']
        neg = a.kind == 'IfndefDirective'
        # split: head (before the `for` over elsif), loop body, tail (else)
        fors = [i for i, st in enumerate(stmts) if st['k'] == 'expr' and st['e'].get('k') == 'for']
        if len(fors) != 1:
            r.fail('%s:%s:chain-shape' % (CRATE, a.key), pp.where(a.line), '%s: expected one loop over the `elsif list (fail closed)' % a.key)
            continue
        head, loop, tail = stmts[:fors[0]], stmts[fors[0]]['e'], stmts[fors[0] + 1:]
        names = {}

        def body_skipped(sk, what):
            return any(what in x for x in sk)
        ok_all = True
        # ---- first branch: for cond in {F,T}
        for cond in (False, True):
            env = {'hit': False, 'cond': cond}
            sk = []
            res = _eval_chain(head, env, sk)
            truth = (not cond) if neg else cond        # condition "macro is (not) defined" holds
            # cond models `defines.contains_key(..) || predefined`: the arm's own test polarity is read from its text
            want_skip = not truth
            r.inst('%s:first:%s' % (a.key, cond), {'arm': a.key, 'defined': cond, 'first_body_skipped': body_skipped(sk, 'ifbody'), 'hit': env['hit']})
            if res is not True or body_skipped(sk, 'ifbody') != want_skip or env['hit'] != truth:
                ok_all = False
                r.fail('%s:%s:first-branch' % (CRATE, a.key), pp.where(a.line),
                       '%s: with the tested name %sdefined the first branch must be %s and hit=%s; the handler gives skipped=%s hit=%s' %
                       (a.key, '' if cond else 'un', 'kept' if truth else 'skipped', truth, body_skipped(sk, 'ifbody'), env['hit']))
        # ---- elsif step: for hit in {F,T} x cond in {F,T}
        for hit in (False, True):
            for cond in (False, True):
                env = {'hit': hit, 'cond': cond}
                sk = []
                res = _eval_chain(loop['body']['stmts'], env, sk)
                want_skip = hit or not cond
                want_hit = hit or cond
                r.inst('%s:elsif:%s:%s' % (a.key, hit, cond), {'arm': a.key, 'hit_before': hit, 'elsif_defined': cond,
                                                                'body_skipped': body_skipped(sk, 'elsifbody'), 'hit_after': env['hit']})
                if res is not True or body_skipped(sk, 'elsifbody') != want_skip or env['hit'] != want_hit:
                    r.fail('%s:%s:elsif-step' % (CRATE, a.key), pp.where(loop.get('l')),
                           '%s: `elsif with hit=%s, defined=%s must give skipped=%s hit=%s; the handler gives skipped=%s hit=%s' %
                           (a.key, hit, cond, want_skip, want_hit, body_skipped(sk, 'elsifbody'), env['hit']))
        # ---- else: skipped iff hit
        els = [st for st in tail if st['k'] == 'expr' and st['e'].get('k') == 'if' and st['e']['c'].get('k') == 'let']
        if len(els) != 1:
            r.fail('%s:%s:else-shape' % (CRATE, a.key), pp.where(a.line), '%s: expected `if let Some(elsebody) = elsebody {..}` (fail closed)' % a.key)
            continue
        for hit in (False, True):
            env = {'hit': hit, 'cond': False}
            sk = []
            res = _eval_chain(els[0]['e']['t']['stmts'], env, sk)
            r.inst('%s:else:%s' % (a.key, hit), {'arm': a.key, 'hit_before': hit, 'else_body_skipped': body_skipped(sk, 'elsebody')})
            if res is not True or body_skipped(sk, 'elsebody') != hit:
                r.fail('%s:%s:else-branch' % (CRATE, a.key), pp.where(els[0].get('l')),
                       '%s: the `else body must be skipped iff an earlier branch was taken (hit=%s gives skipped=%s)' % (a.key, hit, body_skipped(sk, 'elsebody')))
        # the directive's own keywords and identifiers are always skip-listed
        for what in ('keyword', 'ifid', 'elsifid'):
            pass
    r.floor('chain_cases', r.instances, 16)
    # ---------------------------------------------------------------- X16: the line-tracking match (the match before the main one)
    if len(pp.matches) >= 2:
        idx, m = pp.matches[-2]
        arms = {}
        for arm in m['arms']:
            arms[sq(arm['pat'])] = arm
        def get(ev, kind):
            for k_, v_ in arms.items():
                if k_.startswith('NodeEvent::%s(RefNode::%s(' % (ev, kind)):
                    return v_
            return None
        e1, e2 = get('Enter', 'SourceDescriptionNotDirective'), get('Enter', 'CompilerDirective')
        l1, l2 = get('Leave', 'SourceDescriptionNotDirective'), get('Leave', 'CompilerDirective')
        q.inst('enter-arms', {'found': [bool(e1), bool(e2)]})
        if not e1 or not e2 or sq(e1['body']) != sq(e2['body']):
            q.fail('%s:include-line:enter-differ' % CRATE, pp.where(m.get('l')),
                   'an item entered on the line of a preceding `include must raise IncludeLine for plain text and for directives alike')
        elif 'last_include_line==locate.line' not in sq(e1['body']) or 'Err(Error::IncludeLine)' not in sq(e1['body']):
            q.fail('%s:include-line:enter-test' % CRATE, pp.where(m.get('l')), 'entering an item must compare its line with the line of the last `include')
        q.inst('leave-arms', {'found': [bool(l1), bool(l2)]})
        if not l1 or not l2 or 'last_item_line=Some(locate.line)' not in sq(l1['body']) or 'last_item_line=Some(locate.line)' not in sq(l2['body']):
            q.fail('%s:include-line:leave' % CRATE, pp.where(m.get('l')), 'leaving an item must record its line as the last item line')
        inc = [a for a in pp.arms if a.event == 'Enter' and a.kind == 'IncludeCompilerDirective']
        if inc:
            t = sq(inc[0].body)
            q.inst('include-arm')
            if 'last_include_line=Some(locate.line)' not in t or 'last_item_line==locate.line' not in t:
                q.fail('%s:include-line:include-arm' % CRATE, pp.where(inc[0].line), 'the `include arm must record its own line and reject an item already on that line')
    else:
        q.fail('%s:include-line:match-missing' % CRATE, pp.where(1), 'line-tracking match not found (fail closed)')
    return [r, q]
