"""G19 — optional tails of the productions that can end a description are atomic.

Incomplete mode keeps "the longest prefix made of complete descriptions": `many0(description)` stops where the next
description fails.  For the last description to survive arbitrary trailing text, every production that can be the LAST
thing of a description must end *before* text it cannot use.  With the combinator vocabulary (`opt`, `many0`, `alt`,
sequences) that is automatic: an optional tail either matches completely or consumes nothing.  It stops being true as soon
as a parser step is applied *conditionally on the result of an earlier optional step* — e.g. a helper that takes an optional
`:` and then, only if the colon was there, demands an identifier with `?`: trailing text that merely starts like the tail
(`endmodule : 42`) now makes the whole production fail, and incomplete mode drops the description (the tree is no longer
that of the strict-accepted prefix).

The rule finds every conditional parser application (`P(s)?` nested under `if` / `if let` / `match` in a parser or
helper body; expected count on the pinned tree: 0), computes the closure of functions and helpers in *tail position* of
the operand of the incomplete entries' repetition (last element of a sequence — and, past nullable elements, the ones
before —, every arm of a choice, the inside of opt/many0/map/ws/…), and reports a conditional application inside that
closure.  Outside the tail closure the same construct only may change the accepted language (it is equivalent whenever the
continuation cannot use the optional prefix): UNDECIDED.
"""
"""
G20 — parsed sequences keep their order.  A value bound from a parser application (in particular the Vec of a repetition)
holds nodes in source order; the tree enumerates children in construction order.  Hence no order-changing or
element-dropping operation may be applied to such a value on its way into the node: `.pop()` loops, `.rev()`,
`.reverse()` (an odd number of them), `sort*`, `swap*`, `retain`, `dedup*`, `truncate`, `remove`, `swap_remove`,
`split_off`, `drain`.  Expected count on the pinned tree: 0 (the only `.pop()` of the crate are on the thread-local scope
stacks).
"""
from vlib import grammar, sx
from vlib.report import RuleResult
from rules.g_alt import nullable_quick


def conditional_applications(fn_item):
    """`P(s)?` (a call applied to one argument, then `?`) nested under if / match -> [(line, condition text)]"""
    out = []

    def is_parser_app(e):
        # F(..)(s)   or   name(s)
        return e.get('k') == 'call' and len(e.get('args', [])) == 1 and sx.is_path(e['args'][0])

    def scan(node, under):
        if isinstance(node, dict):
            k = node.get('k')
            if k == 'try' and under and isinstance(node.get('e'), dict) and is_parser_app(node['e']):
                out.append((node.get('l') or node['e'].get('l'), under[-1]))
            if k == 'closure':
                scan(node.get('body'), under)
                return
            if k == 'if':
                scan(node['c'], under)
                c = sx.render(node['c'])[:60]
                scan(node['t'], under + [c])
                if 'e' in node:
                    scan(node['e'], under + ['not (%s)' % c])
                return
            if k == 'match':
                scan(node['e'], under)
                for a in node['arms']:
                    scan(a['body'], under + ['match %s' % sx.render(node['e'])[:40]])
                return
            for v in node.values():
                scan(v, under)
        elif isinstance(node, list):
            for v in node:
                scan(v, under)
    if fn_item.get('body'):
        scan(fn_item['body'], [])
    return out


def tail_closure(g, start_ir):
    fns, helpers = set(), set()

    def tails(ir):
        if not isinstance(ir, dict):
            return
        op = ir.get('op')
        if op == 'seq':
            for part in reversed(ir['parts']):
                tails(part)
                if not nullable_quick(part, g, frozenset()):
                    break
        elif op == 'alt':
            for a in ir['arms']:
                tails(a)
        elif op in ('map', 'ws', 'no_ws', 'many1', 'many0', 'opt', 'all_consuming', 'complete'):
            tails(ir['p'])
        elif op == 'terminated':
            tails(ir['q'])
            if nullable_quick(ir['q'], g, frozenset()):
                tails(ir['p'])
        elif op == 'preceded':
            tails(ir['p'])
        elif op == 'many_till':
            tails(ir['q'])
        elif op == 'list':
            tails(ir['item'])
        elif op == 'ref':
            n = ir['name']
            if n in g.fns and n not in fns:
                fns.add(n)
                f = g.fns[n]
                if f.ir is not None:
                    tails(f.ir)
                elif f.tail and f.tail[0] == 'apply':
                    tails(f.tail[1])
                elif f.tail and f.tail[0] == 'ifelse':
                    tails(f.tail[2])
                    tails(f.tail[3])
        elif op == 'inline':
            helpers.add(ir['name'])
            tails(ir.get('p'))
        elif op == 'wrap':
            pass
    tails(start_ir)
    return fns, helpers


def run(ctx):
    g = ctx.grammar
    r = RuleResult('G19', 'optional tails of the productions that can end a description are atomic (no parser step applied conditionally on an earlier optional step)')
    # role: operand of the repetition in the incomplete entries
    from rules.g_struct import entry_targets
    tgt = entry_targets(g)
    ents = sorted(t for e, t in tgt.items() if e.endswith('_incomplete'))
    starts = []
    for e in ents:
        f = g.fns[e]
        if f.ir is None:
            continue
        reps = [node for node in grammar.iter_ir(f.ir) if node.get('op') == 'many0' and node['p'].get('op') == 'ref']
        if reps:
            starts.append((e, reps[-1]['p']))      # the repetition that ends the entry: its operand is the description role
    r.floor('incomplete_entry_repetitions', len(starts), 2)
    fns, helpers = set(), set()
    for e, ir in starts:
        a, b = tail_closure(g, ir)
        fns |= a
        helpers |= b
        r.inst('entry:%s' % e, {'entry': e, 'repeats': ir['name'], 'functions_in_tail_position': len(a), 'helpers_in_tail_position': sorted(b)[:8]})
    r.counts['tail_closure_functions'] = len(fns)
    r.counts['tail_closure_helpers'] = len(helpers)
    n = 0
    for name, f in sorted(g.fns.items()):
        ca = conditional_applications(f.item)
        r.inst()
        if not ca:
            continue
        n += len(ca)
        where = '%s/%s:%s' % (g.crate, f.file, ca[0][0] or f.line)
        if name in fns or name in helpers:
            r.fail('%s:%s:conditional-step-in-tail' % (g.crate, name), where,
                   '%s applies a parser step only when `%s` holds, and %s is in tail position of a description: an optional tail that is not atomic — '
                   'trailing text that merely starts like the tail makes the whole production fail, so incomplete mode drops the description instead of '
                   'ending before that text' % (name, ca[0][1], name))
        else:
            r.undecided('%s:%s:conditional-step' % (g.crate, name), where,
                        '%s applies a parser step only when `%s` holds (not in tail position of a description): the accepted language may differ from the '
                        'opt(..)/alt(..) form' % (name, ca[0][1]))
    r.counts['conditional_parser_applications'] = n
    r.floor('functions_scanned', r.instances, 1000)
    return [r, run_order(ctx), run_directive_mode(ctx)]


FLIPS = ('pop', 'rev', 'reverse')
SCRAMBLE = ('sort', 'sort_by', 'sort_by_key', 'sort_unstable', 'sort_unstable_by', 'sort_unstable_by_key', 'swap', 'swap_remove', 'rotate_left', 'rotate_right')
DROPS = ('retain', 'dedup', 'dedup_by', 'dedup_by_key', 'truncate', 'remove', 'split_off', 'drain', 'clear')
PASS = ('into_iter', 'iter', 'iter_mut', 'as_mut', 'as_ref', 'as_mut_slice', 'as_slice', 'borrow_mut', 'by_ref')


def run_order(ctx):
    g = ctx.grammar
    r = RuleResult('G20', 'values produced by parser applications reach the node in source order: no reversal, reordering or dropping of parsed elements')
    nvars = 0
    for name, f in sorted(g.fns.items()):
        if f.kind not in ('parser', 'helper') or not f.item.get('body'):
            continue
        parsed = set()
        for st in f.stmts:
            if st[0] in ('bind', 'applylet'):
                parsed |= {n for n in sx.pat_idents(st[2]) if n}
        if f.span_param:
            parsed.discard(f.span_param)
        parsed.discard('s')
        if not parsed:
            continue
        nvars += len(parsed)
        r.inst()
        # aliases: `let mut v = a;` / `let v = a.into_iter();`
        alias = {}
        for n in sx.walk(f.item['body']):
            if n.get('k') == 'let' and 'init' in n and n['pat'].get('k') == 'ident':
                root = n['init']
                while isinstance(root, dict) and root.get('k') == 'mcall' and root['m'] in PASS:
                    root = root['recv']
                if sx.is_path(root) and (root['p'] in parsed or root['p'] in alias):
                    alias[n['pat']['n']] = alias.get(root['p'], root['p'])
        flips = {}
        for n in sx.walk(f.item['body']):
            if n.get('k') != 'mcall':
                continue
            m = n['m']
            if m not in FLIPS + SCRAMBLE + DROPS:
                continue
            root = n['recv']
            while isinstance(root, dict) and root.get('k') == 'mcall' and (root['m'] in PASS or root['m'] in ('rev', 'skip', 'take', 'enumerate', 'map', 'peekable')):
                root = root['recv']
            if isinstance(root, dict) and root.get('k') == 'ref':
                root = root['e']
            if not sx.is_path(root):
                continue
            v = alias.get(root['p'], root['p'])
            if v not in parsed:
                continue
            where = '%s/%s:%s' % (g.crate, f.file, n.get('l') or f.line)
            if m in SCRAMBLE:
                r.fail('%s:%s:reordered:%s' % (g.crate, name, v), where, '%s applies `.%s()` to `%s`, a value produced by a parser: parsed elements no longer reach the node in source order' % (name, m, v))
            elif m in DROPS:
                r.fail('%s:%s:elements-dropped:%s' % (g.crate, name, v), where, '%s applies `.%s()` to `%s`, a value produced by a parser: parsed elements can be removed before they reach the node (their text is lost from the tree)' % (name, m, v))
            else:
                flips.setdefault(v, []).append((m, where))
        for v, fl in sorted(flips.items()):
            if len(fl) % 2 == 1:
                r.fail('%s:%s:reversed:%s' % (g.crate, name, v), fl[0][1],
                       '%s consumes `%s`, a sequence produced by a parser, back to front (%s): the nodes built from it are in reverse source order' %
                       (name, v, ', '.join('.%s()' % m for m, _ in fl)))
            else:
                r.undecided('%s:%s:reversed:%s' % (g.crate, name, v), fl[0][1], '%s applies %s to `%s`: an even number of reversals, order not decided' % (name, [m for m, _ in fl], v))
    r.counts['parsed_values_tracked'] = nvars
    r.floor('parsed_values_tracked', nvars, 2000)
    return r


def run_directive_mode(ctx):
    """G23 — directive mode is entered exactly by the parsers that build a CompilerDirective node (the directives kept as trivia).
    In directive mode white_space accepts blanks only; a production that is ALSO reachable outside trivia (a description-level
    `resetall) and switches the mode on for itself collects its trailing trivia in the restricted mode: a comment or a directive
    after it is then attached to no token and the source is rejected (C12: which trivia follows must not decide acceptance)."""
    g = ctx.grammar
    r = RuleResult('G23', 'directive mode (blanks-only trivia) is entered exactly by the parsers that build a CompilerDirective node')
    enter = set()
    builders = set()
    for name, f in g.fns.items():
        body = f.item.get('body')
        if not body or f.kind not in ('parser', 'helper'):
            continue
        for n in sx.walk(body):
            if sx.is_call(n, 'begin_directive'):
                enter.add(name)
            if n.get('k') == 'path' and n['p'].startswith('CompilerDirective::'):
                builders.add(name)
    r.inst('enterers', {'functions_calling_begin_directive': sorted(enter), 'builders_of_CompilerDirective': sorted(builders)})
    r.floor('compiler_directive_builders', len(builders), 1)
    # a private wrapper that only the builders use carries the mode for them
    callers = {}
    for name, f in g.fns.items():
        body = f.item.get('body')
        if body:
            for n in sx.walk(body):
                if n.get('k') == 'path' and n['p'] in g.fns and n['p'] != name:
                    callers.setdefault(n['p'], set()).add(name)
    ok_wrappers = set()
    changed = True
    while changed:
        changed = False
        for name in enter - builders - ok_wrappers:
            cs = callers.get(name, set())
            if cs and cs <= (builders | ok_wrappers):
                ok_wrappers.add(name)
                changed = True
    for name in sorted(enter - builders - ok_wrappers):
        f = g.fns[name]
        r.inst(name)
        r.fail('%s:%s:directive-mode-outside-trivia' % (g.crate, name), '%s/%s:%d' % (g.crate, f.file, f.line),
               '%s switches directive mode on although it does not build a CompilerDirective node: the tokens it reads (and the trivia after them) are lexed with blanks-only '
               'white space, so a comment or a directive that follows is attached to no token — where %s is reached outside trivia the source is rejected' % (name, name))
    for name in sorted(builders - enter):
        if any(w_ in [n['p'] for n in sx.walk(g.fns[name].item['body']) if n.get('k') == 'path'] for w_ in ok_wrappers):
            continue
        f = g.fns[name]
        r.fail('%s:%s:directive-without-mode' % (g.crate, name), '%s/%s:%d' % (g.crate, f.file, f.line),
               '%s builds a CompilerDirective node without entering directive mode: inside the directive comments and nested directives are taken as trivia' % name)
    return r
