"""W1-W5 — the façade crate sv-parser (E1)."""
import re
from vlib import sx
from vlib.report import RuleResult

API = 'sv-parser'
FILE = 'src/lib.rs'


def sq(e):
    return sx.render(e).replace(' ', '')


def api_fns(ctx):
    out = {}
    methods = {}
    structs = {}
    for fl, fv in sx.crate_files(ctx.syn, API).items():
        for mp, it in sx.items_rec(fv['items']):
            if it['k'] == 'fn':
                out[it['name']] = it
            elif it['k'] == 'impl':
                for sub in it['items']:
                    if sub.get('k') == 'fn':
                        methods[(it['self_tys'], sub['name'], it.get('trait_path'))] = sub
            elif it['k'] == 'struct':
                structs[it['name']] = it
    return out, methods, structs


def subst(txt, pairs):
    for a, b in pairs:
        txt = re.sub(r'\b%s\b' % re.escape(a), b, txt)
    return txt


def run(ctx):
    fns, methods, structs = api_fns(ctx)
    w1 = RuleResult('W1', 'sibling wrappers of the parse_sv / parse_lib families are the same code up to the grammar entry')
    w2 = RuleResult('W2', 'allow_incomplete selects the incomplete entry, its absence the strict one')
    w3 = RuleResult('W3', 'parse and preprocess errors carry the position mapped through the origin map / the path being read')
    w4 = RuleResult('W4', 'a SyntaxTree is only built together with the text its leaves index')
    w5 = RuleResult('W5', 'get_str / get_str_trim slice from the first leaf start to the last leaf end')
    where = lambda f: '%s/%s:%d' % (API, FILE, f['l'])
    # families: functions named parse_<g>, parse_<g>_str, parse_<g>_pp
    fams = {}
    for n in fns:
        m = re.match(r'^parse_([a-z]+?)(_str|_pp)?$', n)
        if m:
            fams.setdefault(m.group(1), {})[m.group(2) or ''] = fns[n]
    w1.floor('families', len(fams), 2)
    names = sorted(fams)
    for g in names:
        for suf in ('', '_str', '_pp'):
            if suf not in fams[g]:
                w1.fail('%s:family-incomplete:parse_%s%s' % (API, g, suf), '-', 'parse_%s%s is missing' % (g, suf))
    if len(names) >= 2:
        ref = names[-1]   # compare every family with one reference family
        for g in names:
            if g == ref:
                continue
            pairs = [('parse_%s_pp' % g, 'parse_%s_pp' % ref), ('%s_parser_incomplete' % g, '%s_parser_incomplete' % ref),
                     ('%s_parser' % g, '%s_parser' % ref)]
            for suf in ('', '_str', '_pp'):
                if suf not in fams[g] or suf not in fams[ref]:
                    continue
                a, b = fams[g][suf], fams[ref][suf]
                ta = subst(sq(a['body']), pairs)
                tb = sq(b['body'])
                sa = subst(sq({'k': 'tuple', 'e': []}) + a['sig']['rets'] + str([p.get('tys') for p in a['sig']['params']]), pairs)
                sb = sq({'k': 'tuple', 'e': []}) + b['sig']['rets'] + str([p.get('tys') for p in b['sig']['params']])
                w1.inst('sibling:parse_%s%s~parse_%s%s' % (g, suf, ref, suf), {'a': a['name'], 'b': b['name'], 'equal_modulo_entry': ta == tb})
                if ta != tb or sa != sb:
                    w1.fail('%s:siblings-differ:parse_%s%s' % (API, g, suf), where(a),
                            '%s and %s differ beyond the grammar entry they call' % (a['name'], b['name']))
    # shape of the file / string wrappers
    for g in names:
        for suf, pp_name in (('', 'preprocess'), ('_str', 'preprocess_str')):
            f = fams[g].get(suf)
            if f is None:
                continue
            st = f['body']['stmts']
            w1.inst('shape:parse_%s%s' % (g, suf), {'fn': f['name'], 'statements': [sq(s)[:60] for s in st]})
            ok = len(st) == 2 and st[0]['k'] == 'let' and st[0]['init'].get('k') == 'try' and sx.is_call(st[0]['init']['e'], pp_name) \
                and st[1]['k'] == 'expr' and sx.is_call(st[1]['e'], 'parse_%s_pp' % g)
            if ok:
                ids = [x for x in sx.pat_idents(st[0]['pat'])]
                args = [sq(a) for a in st[1]['e']['args']]
                ok = args == ids + ['allow_incomplete']
            if not ok:
                w1.fail('%s:wrapper-shape:parse_%s%s' % (API, g, suf), where(f),
                        '%s must be exactly: let (text, defines) = %s(..)?; parse_%s_pp(text, defines, allow_incomplete)' % (f['name'], pp_name, g))
    # ---- W2 / W3 / W4 on parse_*_pp
    g_rules = ctx.grammar
    for g in names:
        f = fams[g].get('_pp')
        if f is None:
            continue
        ifs = [n for n in sx.walk(f['body']) if n.get('k') == 'if' and sx.is_path(n['c'], 'allow_incomplete')]
        w2.inst('switch:parse_%s_pp' % g)
        if len(ifs) != 1 or 'e' not in ifs[0]:
            w2.fail('%s:parse_%s_pp:switch' % (API, g), where(f), 'parse_%s_pp must choose the entry with `if allow_incomplete {..} else {..}`' % g)
            continue
        t = [n for n in sx.walk(ifs[0]['t']) if n.get('k') == 'call' and sx.is_path(n['f'])]
        e = [n for n in sx.walk(ifs[0]['e']) if n.get('k') == 'call' and sx.is_path(n['f'])]
        tn = t[0]['f']['p'] if len(t) == 1 else None
        en = e[0]['f']['p'] if len(e) == 1 else None
        w2.inst('entries:parse_%s_pp' % g, {'allow_incomplete': tn, 'strict': en})
        ents = {x.name for x in g_rules.parsers() if x.item['vis'] == 'pub'}
        if tn is None or en is None or tn not in ents or en not in ents:
            w2.fail('%s:parse_%s_pp:entries' % (API, g), where(f), 'branches must each call one public parser entry (found %s / %s)' % (tn, en))
        elif tn != en + '_incomplete':
            w2.fail('%s:parse_%s_pp:mode-switch' % (API, g), where(f),
                    'with allow_incomplete the entry `%s` is called, otherwise `%s`; expected `%s_incomplete` / `%s` — the mode flag selects the wrong grammar' % (tn, en, en, en))
        elif not (t[0]['args'] and e[0]['args'] and sq(t[0]['args'][0]) == sq(e[0]['args'][0])):
            w2.fail('%s:parse_%s_pp:span' % (API, g), where(f), 'both modes must parse the same span')
        # W4: span over text.text(); SyntaxTree { node: x.into(), text }
        spans = [n for n in sx.walk(f['body']) if sx.is_call(n) and n['f']['p'].endswith('Span::new_extra')]
        lits = [n for n in sx.walk(f['body']) if n.get('k') == 'struct' and n['p'] == 'SyntaxTree']
        w4.inst('coupling:parse_%s_pp' % g, {'span_over': sq(spans[0]['args'][0]) if spans else None,
                                             'tree': sq(lits[0]) if lits else None})
        if len(spans) != 1 or sq(spans[0]['args'][0]) != 'text.text()':
            w4.fail('%s:parse_%s_pp:span-source' % (API, g), where(f), 'the parser input must be text.text() of the PreprocessedText that is stored in the tree')
        if len(lits) != 1 or {x['n']: sq(x['e']) for x in lits[0]['fields']}.get('text') != 'text':
            w4.fail('%s:parse_%s_pp:tree-text' % (API, g), where(f), 'SyntaxTree.text must be the very PreprocessedText whose text was parsed')
        # W3: Err(x) => position -> text.origin(pos) -> Error::Parse(origin)
        txt = sq(f['body'])
        w3.inst('parse-error:parse_%s_pp' % g)
        ok = 'Err(Error::Parse(origin))' in txt and 'text.origin(pos)' in txt and txt.count('error_position(&e)') >= 1 \
            and 'Some((origin.0.clone(),origin.1))' in txt
        if not ok:
            w3.fail('%s:parse_%s_pp:error-mapping' % (API, g), where(f),
                    'a parse failure must become Error::Parse(text.origin(error_position(e))) — position mapped through the origin map of the same text')
    # SyntaxTree construction sites anywhere else
    n_lit = 0
    for name, f in list(fns.items()) + [(k[1], v) for k, v in methods.items()]:
        for n in sx.walk(f['body']):
            if n.get('k') == 'struct' and n['p'] == 'SyntaxTree':
                n_lit += 1
                if not re.match(r'^parse_[a-z]+_pp$', name):
                    w4.fail('%s:tree-built-elsewhere:%s' % (API, name), where(f), 'SyntaxTree is constructed in %s, outside parse_*_pp' % name)
    st = structs.get('SyntaxTree')
    w4.exactly('SyntaxTree_struct', 1 if st else 0, 1)
    if st:
        for fl in st['fields']:
            w4.inst('private:' + fl['n'])
            if fl['vis'] != '':
                w4.fail('%s:SyntaxTree:field-visible:%s' % (API, fl['n']), where(st), 'SyntaxTree.%s is %s: tree and text could be decoupled from outside' % (fl['n'], fl['vis']))
    w4.floor('construction_sites', n_lit, 2)
    # preprocess error mapping (pp crate)
    from rules.x_pp import model
    pp = model(ctx)
    if pp.loop_fn:
        txt = sq(pp.loop_fn['body'])
        cnt = txt.count('Error::Preprocess(Some((PathBuf::from(path.as_ref()),pos)))')
        w3.inst('preprocess-error', {'sites': cnt})
        if cnt < 1 or 'error_position(&e)' not in txt:
            w3.fail('sv-parser-pp:preprocess-error-mapping', pp.where(pp.loop_fn['l']),
                    'a pp_parser failure must become Error::Preprocess(Some((path being read, error_position(e))))')
        # the mapping must not be preceded by a re-binding of `path`
    # ---- W5
    gs = {k[1]: v for k, v in methods.items() if k[0] == 'SyntaxTree' and k[1] in ('get_str', 'get_str_trim')}
    w5.exactly('get_str_functions', len(gs), 2)
    for name, f in gs.items():
        body = f['body']
        assigns = [sq(n) for n in sx.walk(body) if n.get('k') == 'assign']
        w5.inst(name, {'fn': name, 'assignments': assigns})
        loc = None
        for n in sx.walk(body):
            if n.get('k') == 'ts' and n['p'] == 'RefNode::Locate' and n['e'] and n['e'][0].get('k') == 'ident':
                loc = n['e'][0]['n']
        ok = loc is not None and 'beg=Some(%s.offset)' % loc in assigns and \
            any(a in assigns for a in ('end=(%s.offset+%s.len)' % (loc, loc), 'end=(%s.len+%s.offset)' % (loc, loc)))
        # beg assigned only when none yet
        guards = [n for n in sx.walk(body) if n.get('k') == 'if' and sq(n['c']) == 'beg.is_none()']
        ok = ok and len(guards) == 1 and any(sq(x) == 'beg=Some(%s.offset)' % loc for x in sx.walk(guards[0]['t']) if x.get('k') == 'assign')
        sl = [n for n in sx.walk(body) if n.get('k') == 'mcall' and n['m'] in ('get_unchecked', 'get')]
        ok = ok and len(sl) == 1 and sq(sl[0]['args'][0]) == 'beg..end' and sq(sl[0]['recv']) == 'self.text.text()'
        fors = [n for n in sx.walk(body) if n.get('k') == 'for']
        ok = ok and len(fors) == 1 and sq(fors[0]['e']).startswith('Iter::new(nodes.into())')
        if not ok:
            w5.fail('%s:%s:slice' % (API, name), where(f),
                    '%s must return self.text.text()[first leaf offset .. last visited leaf offset + len] over a forward iteration of the node' % name)
    if len(gs) == 2:
        # the trim variant differs only by skipping leaves inside WhiteSpace
        t = sq(gs['get_str_trim']['body'])
        w5.inst('trim-filter')
        if 'NodeEvent::Enter(RefNode::WhiteSpace(_))=>{skip=true;}' not in t or 'NodeEvent::Leave(RefNode::WhiteSpace(_))=>{skip=false;}' not in t \
                or 'NodeEvent::Enter(RefNode::Locate(x))if!skip' not in t:
            w5.fail('%s:get_str_trim:filter' % API, where(gs['get_str_trim']), 'get_str_trim must ignore exactly the leaves between Enter and Leave of a WhiteSpace node')
    go = {k[1]: v for k, v in methods.items() if k[0] == 'SyntaxTree' and k[1] == 'get_origin'}
    w5.inst('get_origin')
    if len(go) != 1 or sq(go['get_origin']['body']) != '{self.text.origin(locate.offset)}':
        w5.fail('%s:get_origin' % API, '-', 'get_origin must look up the token\'s first byte: self.text.origin(locate.offset)')
    # ---- W6: the file-reading function passes exactly the buffer it read to the string entry
    w6 = RuleResult('W6', 'the file entry preprocesses exactly the bytes it read from the file')
    nread = 0
    for fl, mp, fn, im in sx.crate_fns(ctx.syn, 'sv-parser-pp'):
        reads = [n for n in sx.walk(fn.get('body')) if n.get('k') == 'mcall' and n['m'] == 'read_to_string' and len(n['args']) == 1]
        if not reads:
            continue
        if fn['name'] in ('testfile_contents',):
            continue
        nread += 1
        buf = sq(sx.strip_ref(reads[0]['args'][0]))
        calls = [n for n in sx.walk(fn['body']) if sx.is_call(n) and n['f']['p'].split('::')[-1] == 'preprocess_str']
        lets = [n for n in sx.walk(fn['body']) if n.get('k') == 'let' and 'pat' in n and buf in [x for x in sx.pat_idents(n['pat']) if x]]
        muts = [n for n in sx.walk(fn['body']) if n.get('k') == 'mcall' and sx.is_path(n['recv'], buf) and n['m'] not in ('as_str', 'len', 'is_empty', 'as_ref')]
        w6.inst('read:%s' % fn['name'], {'fn': fn['name'], 'buffer': buf, 'bindings_of_buffer': len(lets), 'text_argument': sq(calls[0]['args'][0]) if calls else None})
        where_ = 'sv-parser-pp/%s:%s' % (fl, fn['l'])
        if len(calls) != 1 or sq(calls[0]['args'][0]) not in ('&' + buf, buf + '.as_str()', '&*' + buf):
            w6.fail('sv-parser-pp:%s:text-not-buffer' % fn['name'], where_,
                    '%s reads the file into `%s` but hands `%s` to preprocess_str: file and string entry points would disagree' %
                    (fn['name'], buf, sq(calls[0]['args'][0]) if calls else None))
        if len(lets) != 1:
            w6.fail('sv-parser-pp:%s:buffer-rebound' % fn['name'], where_,
                    '%s binds `%s` %d times: the text handed on is not (only) what was read from the file (e.g. a stripped or '
                    'normalised copy)' % (fn['name'], buf, len(lets)))
        if muts:
            w6.fail('sv-parser-pp:%s:buffer-modified' % fn['name'], where_, '%s modifies the read buffer (%s) before preprocessing it' % (fn['name'], [sq(x)[:40] for x in muts]))
    w6.floor('file_reading_functions', nread, 1)
    return [w1, w2, w3, w4, w5, w6]
