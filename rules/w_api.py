"""W1-W5 — the façade crate sv-parser (E1)."""
import re
from vlib import sx
from vlib.report import RuleResult

API = 'sv-parser'
FILE = 'src/lib.rs'


def sq(e):
    return sx.render(e).replace(' ', '')


def api_fns(ctx):
    out = {}
    methods = {}
    structs = {}
    for fl, fv in sx.crate_files(ctx.syn, API).items():
        for mp, it in sx.items_rec(fv['items']):
            if it['k'] == 'fn':
                out[it['name']] = it
            elif it['k'] == 'impl':
                for sub in it['items']:
                    if sub.get('k') == 'fn':
                        methods[(it['self_tys'], sub['name'], it.get('trait_path'))] = sub
            elif it['k'] == 'struct':
                structs[it['name']] = it
    return out, methods, structs


def subst(txt, pairs):
    for a, b in pairs:
        txt = re.sub(r'\b%s\b' % re.escape(a), b, txt)
    return txt


def _ty_names(ty):
    """all path names occurring in a type node"""
    out = []
    if isinstance(ty, dict):
        if ty.get('k') == 'path':
            out.append(ty['p'].split('::')[-1])
        for v in ty.values():
            if isinstance(v, (dict, list)):
                out += _ty_names(v)
    elif isinstance(ty, list):
        for v in ty:
            out += _ty_names(v)
    return out


def run(ctx):
    fns, methods, structs = api_fns(ctx)
    w1 = RuleResult('W1', 'sibling wrappers of the parse_sv / parse_lib families are the same code up to the grammar entry')
    w2 = RuleResult('W2', 'allow_incomplete selects the incomplete entry, its absence the strict one')
    w3 = RuleResult('W3', 'parse and preprocess errors carry the position mapped through the origin map / the path being read')
    w4 = RuleResult('W4', 'a SyntaxTree is only built together with the text its leaves index')
    w5 = RuleResult('W5', 'get_str / get_str_trim slice from the first leaf start to the last leaf end')
    where = lambda f: '%s/%s:%d' % (API, FILE, f['l'])
    # families: functions named parse_<g>, parse_<g>_str, parse_<g>_pp
    fams = {}
    for n in fns:
        m = re.match(r'^parse_([a-z]+?)(_str|_pp)?$', n)
        if m and fns[n].get('vis') == 'pub':         # the families are the PUBLIC entry points; a private helper may be called parse_anything
            fams.setdefault(m.group(1), {})[m.group(2) or ''] = fns[n]
    w1.floor('families', len(fams), 2)
    names = sorted(fams)
    for g in names:
        for suf in ('', '_str', '_pp'):
            if suf not in fams[g]:
                w1.fail('%s:family-incomplete:parse_%s%s' % (API, g, suf), '-', 'parse_%s%s is missing' % (g, suf))
    if len(names) >= 2:
        ref = names[-1]   # compare every family with one reference family
        for g in names:
            if g == ref:
                continue
            pairs = [('parse_%s_pp' % g, 'parse_%s_pp' % ref), ('%s_parser_incomplete' % g, '%s_parser_incomplete' % ref),
                     ('%s_parser' % g, '%s_parser' % ref)]
            for suf in ('', '_str', '_pp'):
                if suf not in fams[g] or suf not in fams[ref]:
                    continue
                a, b = fams[g][suf], fams[ref][suf]
                ta = subst(sq(sx.alpha(sx.inline_literal_lets(a['body']))), pairs)
                tb = sq(sx.alpha(sx.inline_literal_lets(b['body'])))
                sa = subst(sq({'k': 'tuple', 'e': []}) + a['sig']['rets'] + str([p.get('tys') for p in a['sig']['params']]), pairs)
                sb = sq({'k': 'tuple', 'e': []}) + b['sig']['rets'] + str([p.get('tys') for p in b['sig']['params']])
                w1.inst('sibling:parse_%s%s~parse_%s%s' % (g, suf, ref, suf), {'a': a['name'], 'b': b['name'], 'equal_modulo_entry': ta == tb})
                if sa != sb:
                    w1.fail('%s:siblings-differ:parse_%s%s' % (API, g, suf), where(a),
                            '%s and %s have different signatures' % (a['name'], b['name']))
                elif ta != tb:
                    # syntactically different bodies may still behave alike (one sibling refactored): the semantic obligations
                    # on each function separately (X9 argument threading, W2, W3, W4, wrapper shape) decide; the cross-check
                    # itself is reported as undecided
                    w1.undecided('%s:siblings-differ:parse_%s%s' % (API, g, suf), where(a),
                                 '%s and %s are no longer the same code up to the entry they call; each is judged on its own' % (a['name'], b['name']))
    # shape of the file / string wrappers
    for g in names:
        for suf, pp_name in (('', 'preprocess'), ('_str', 'preprocess_str')):
            f = fams[g].get(suf)
            if f is None:
                continue
            st = sx.inline_literal_lets(f['body'])['stmts']
            w1.inst('shape:parse_%s%s' % (g, suf), {'fn': f['name'], 'statements': [sq(s)[:60] for s in st]})
            lets = [x for x in st if x['k'] == 'let' and 'init' in x and x['init'].get('k') == 'try' and sx.is_call(x['init']['e'], pp_name)]
            calls = [n for n in sx.walk(f['body']) if sx.is_call(n) and n['f']['p'].split('::')[-1].startswith('parse_') and n['f']['p'].split('::')[-1].endswith('_pp')]
            if len(lets) == 1 and len(calls) == 1:
                ids = [x for x in sx.pat_idents(lets[0]['pat'])]
                args = [sq(a) for a in calls[0]['args']]
                callee_ = calls[0]['f']['p'].split('::')[-1]
                if callee_ != 'parse_%s_pp' % g:
                    w1.fail('%s:wrapper-shape:parse_%s%s' % (API, g, suf), where(f), '%s hands the preprocessed text to %s, the other grammar\'s parser' % (f['name'], callee_))
                elif args[:2] != ids[:2] and len(ids) == 2:
                    w1.fail('%s:wrapper-shape:parse_%s%s' % (API, g, suf), where(f),
                            '%s must pass the (text, defines) pair returned by %s to parse_%s_pp in that order; it passes %s' % (f['name'], pp_name, g, args))
                elif len(args) >= 3 and args[2] in ('true', 'false'):
                    w1.fail('%s:wrapper-shape:parse_%s%s' % (API, g, suf), where(f),
                            '%s passes the constant %s as allow_incomplete to parse_%s_pp instead of its own argument' % (f['name'], args[2], g))
                elif len(st) != 2:
                    w1.undecided('%s:wrapper-shape:parse_%s%s' % (API, g, suf), where(f), '%s has additional statements around preprocess / parse_%s_pp' % (f['name'], g))
            else:
                w1.undecided('%s:wrapper-shape:parse_%s%s' % (API, g, suf), where(f),
                             '%s is not of the form let (text, defines) = %s(..)?; parse_%s_pp(text, defines, allow_incomplete)' % (f['name'], pp_name, g))
    # ---- W2: the mode flag is used for nothing but the choice of the entry.  In every façade function that has a parameter
    # `allow_incomplete`, each occurrence of the name is (a) an argument in the position of a callee's own `allow_incomplete`
    # parameter, or (b) the (possibly negated) condition of an `if`.  Any other use — an operand of an expression, the
    # initialiser of another value, an argument in another position — lets the flag change what is preprocessed or parsed,
    # so that the two modes would differ in more than the grammar entry.
    def _flag_uses(node, parent, slot, idx, out):
        if isinstance(node, dict):
            if node.get('k') == 'path' and node.get('p') == 'allow_incomplete':
                out.append((node, parent, slot, idx))
            for k_, v_ in node.items():
                if isinstance(v_, dict):
                    _flag_uses(v_, node, k_, None, out)
                elif isinstance(v_, list):
                    for j_, x_ in enumerate(v_):
                        _flag_uses(x_, node, k_, j_, out)

    flag_fns = 0
    for n_, f_ in sorted(fns.items()):
        pnames = [sx.pat_idents(p_['pat'])[0] for p_ in f_['sig']['params'] if p_.get('k') == 'typed']
        if 'allow_incomplete' not in pnames or not f_.get('body'):
            continue
        flag_fns += 1
        uses = []
        _flag_uses(f_['body'], None, None, None, uses)
        w2.inst('flag-uses:%s' % n_, {'uses': len(uses)})
        rebinds = [st_ for st_ in sx.walk(f_['body']) if st_.get('k') == 'let' and 'allow_incomplete' in [x for x in sx.pat_idents(st_['pat']) if x]]
        if rebinds:
            w2.fail('%s:%s:mode-flag-rebound' % (API, n_), '%s/%s:%s' % (API, FILE, rebinds[0].get('l') or f_['l']),
                    '%s re-binds `allow_incomplete`: the entry is then chosen by something else than the caller\'s flag' % n_)
        for node, parent, slot, idx in uses:
            ok = False
            if parent is not None and parent.get('k') == 'call' and slot == 'args' and sx.is_path(parent['f']):
                cal = parent['f']['p'].split('::')[-1]
                if cal in fns:
                    cp = [sx.pat_idents(p_['pat'])[0] for p_ in fns[cal]['sig']['params'] if p_.get('k') == 'typed']
                    ok = idx < len(cp) and cp[idx] == 'allow_incomplete'
                    if not ok:
                        w2.fail('%s:%s:mode-flag-misused' % (API, n_), '%s/%s:%s' % (API, FILE, node.get('l') or f_['l']),
                                '%s passes `allow_incomplete` to %s as its parameter `%s`: the mode flag then changes something else than the grammar entry, so the two modes differ '
                                'in more than the entry (C15: where strict mode accepts, both modes must return the same tree)' % (n_, cal, cp[idx] if idx < len(cp) else '?'))
                    continue
            if parent is not None and parent.get('k') == 'call' and slot == 'args' and sx.is_path(parent['f']) and parent['f']['p'] in pnames:
                # handed to a function VALUE the wrapper received (`parse_pp: impl Fn(..)`): what that callee does with it is decided at the callers
                w2.undecided('%s:%s:mode-flag-to-fn-parameter' % (API, n_), '%s/%s:%s' % (API, FILE, node.get('l') or f_['l']),
                             '%s passes `allow_incomplete` to its function parameter `%s`' % (n_, parent['f']['p']))
                continue
            if parent is not None and parent.get('k') == 'if' and slot == 'c':
                ok = True
            if parent is not None and parent.get('k') == 'unary' and parent.get('op') == '!':
                ok = True      # judged by the switch rule below
            if not ok:
                w2.fail('%s:%s:mode-flag-misused' % (API, n_), '%s/%s:%s' % (API, FILE, node.get('l') or f_['l']),
                        '%s uses `allow_incomplete` in `%s` (%s): the mode flag may only choose the grammar entry; here it also changes what is preprocessed or parsed, so '
                        'the two modes differ in more than the entry (C15: where strict mode accepts, both modes must return the same tree)'
                        % (n_, sq(parent)[:60] if parent else '?', parent.get('k') if parent else '?'))
    w2.floor('functions_with_mode_flag', flag_fns, 6)
    # ---- W2 / W3 / W4 on parse_*_pp
    g_rules = ctx.grammar
    for g in names:
        f = fams[g].get('_pp')
        if f is None:
            continue
        ifs = [n for n in sx.walk(f['body']) if n.get('k') == 'if' and sx.is_path(n['c'], 'allow_incomplete')]
        negs = [n for n in sx.walk(f['body']) if n.get('k') == 'if' and n['c'].get('k') == 'unary' and n['c']['op'] == '!' and sx.is_path(n['c']['e'], 'allow_incomplete') and 'e' in n]
        if not ifs and len(negs) == 1:
            ifs = [{'k': 'if', 'c': negs[0]['c']['e'], 't': negs[0]['e'], 'e': negs[0]['t'], 'l': negs[0].get('l')}]
        w2.inst('switch:parse_%s_pp' % g)
        if len(ifs) != 1 or 'e' not in ifs[0]:
            w2.fail('%s:parse_%s_pp:switch' % (API, g), where(f), 'parse_%s_pp must choose the entry with `if allow_incomplete {..} else {..}`' % g)
            continue
        t = [n for n in sx.walk(ifs[0]['t']) if n.get('k') == 'call' and sx.is_path(n['f'])]
        e = [n for n in sx.walk(ifs[0]['e']) if n.get('k') == 'call' and sx.is_path(n['f'])]
        tn = t[0]['f']['p'] if len(t) == 1 else None
        en = e[0]['f']['p'] if len(e) == 1 else None
        w2.inst('entries:parse_%s_pp' % g, {'allow_incomplete': tn, 'strict': en})
        ents = {x.name for x in g_rules.parsers() if x.item['vis'] == 'pub'}
        if tn is None or en is None or tn not in ents or en not in ents:
            w2.fail('%s:parse_%s_pp:entries' % (API, g), where(f), 'branches must each call one public parser entry (found %s / %s)' % (tn, en))
        elif tn != en + '_incomplete':
            w2.fail('%s:parse_%s_pp:mode-switch' % (API, g), where(f),
                    'with allow_incomplete the entry `%s` is called, otherwise `%s`; expected `%s_incomplete` / `%s` — the mode flag selects the wrong grammar' % (tn, en, en, en))
        elif not (t[0]['args'] and e[0]['args'] and sq(t[0]['args'][0]) == sq(e[0]['args'][0])):
            w2.fail('%s:parse_%s_pp:span' % (API, g), where(f), 'both modes must parse the same span')
        # W4: span over text.text(); SyntaxTree { node: x.into(), text }
        spans = [n for n in sx.walk(f['body']) if sx.is_call(n) and n['f']['p'].endswith('Span::new_extra')]
        lits = [n for n in sx.walk(f['body']) if n.get('k') == 'struct' and n['p'] == 'SyntaxTree']
        w4.inst('coupling:parse_%s_pp' % g, {'span_over': sq(spans[0]['args'][0]) if spans else None,
                                             'tree': sq(lits[0]) if lits else None})
        if len(spans) != 1 or sq(spans[0]['args'][0]) != 'text.text()':
            w4.fail('%s:parse_%s_pp:span-source' % (API, g), where(f), 'the parser input must be text.text() of the PreprocessedText that is stored in the tree')
        if len(lits) != 1 or {x['n']: sq(x['e']) for x in lits[0]['fields']}.get('text') != 'text':
            w4.fail('%s:parse_%s_pp:tree-text' % (API, g), where(f), 'SyntaxTree.text must be the very PreprocessedText whose text was parsed')
        # W3: Err(x) => position -> text.origin(pos) -> Error::Parse(origin)      (derives-from analysis, tri-state)
        from vlib.taint import Taint
        allf = dict(fns)
        for (ty_, nm_, tr_), mf in methods.items():
            allf.setdefault(nm_, mf)
        tparams = [sx.pat_idents(p_['pat'])[0] for p_ in f['sig']['params'] if p_.get('k') == 'typed' and 'PreprocessedText' in p_['tys']]

        def sources(e_, tof):
            if sx.is_call(e_, 'error_position'):
                return {'pos'}
            # arithmetic on the failure position yields a NEIGHBOURING position, no longer the position itself
            if e_.get('k') == 'binary' and e_['op'] in ('+', '-', '*', '/', '%'):
                t_ = tof(e_['l_']) | tof(e_['r'])
                if 'pos' in t_:
                    return (t_ - {'pos'}) | {'pos~'}
                return None
            if e_.get('k') == 'mcall' and e_['m'] in ('saturating_sub', 'checked_sub', 'wrapping_sub', 'saturating_add', 'checked_add', 'wrapping_add', 'min', 'max', 'pred', 'succ'):
                t_ = tof(e_['recv'])
                for a_ in e_['args']:
                    t_ = t_ | tof(a_)
                if 'pos' in t_:
                    return (t_ - {'pos'}) | {'pos~'}
                return None
            if e_.get('k') == 'mcall' and e_['m'] == 'origin' and len(e_['args']) == 1:
                rt = tof(e_['recv'])
                at = tof(e_['args'][0])
                if 'text' in rt and 'pos' in at:
                    return {'origin'}
                if 'text' in rt and 'pos~' in at:
                    return {'origin-of-neighbour'}
                if 'text' in rt:
                    return {'origin-of-constant'}
                return {'origin-of-other-text'}
            return None
        ta = Taint(allf, sources)
        ta.watch = lambda c_: c_['f']['p'].endswith('Error::Parse') and len(c_['args']) == 1
        env0 = {tp: {'text'} for tp in tparams}
        env0['self'] = set()
        ta.block(f['body'], env0)
        errs = ta.hits
        w3.inst('parse-error:parse_%s_pp' % g, {'sites': len(errs)})
        if not errs:
            w3.undecided('%s:parse_%s_pp:error-mapping' % (API, g), where(f), 'no Error::Parse(..) construction found in parse_%s_pp itself' % g)
        for en, args_t in errs:
            tt = args_t[0]
            if 'origin-of-neighbour' in tt:
                w3.fail('%s:parse_%s_pp:error-mapping' % (API, g), where(f),
                        'the location of a parse failure is looked up at a position COMPUTED from the failure position (such as pos - 1), not at the position itself: the '
                        'neighbouring byte can belong to another segment — another file, a macro body, or text without origin — so the reported file is wrong or missing')
                continue
            if 'origin' in tt:
                continue
            if 'origin-of-constant' in tt or 'origin-of-other-text' in tt:
                w3.fail('%s:parse_%s_pp:error-mapping' % (API, g), where(f),
                        'a parse failure must become Error::Parse(text.origin(error_position(e))) — position mapped through the origin map of '
                        'the same text; here the reported origin is looked up %s' % ('at a position that does not come from the parser error'
                                                                                      if 'origin-of-constant' in tt else 'in another text'))
            elif sq(en['args'][0]) == 'None':
                w3.fail('%s:parse_%s_pp:error-mapping' % (API, g), where(f), 'Error::Parse(None): the failure position is dropped')
            else:
                w3.undecided('%s:parse_%s_pp:error-mapping' % (API, g), where(f), 'how Error::Parse(%s) derives from the origin map is not recognised' % sq(en['args'][0])[:40])
    # SyntaxTree construction sites anywhere else
    n_lit = 0
    for name, f in list(fns.items()) + [(k[1], v) for k, v in methods.items()]:
        for n in sx.walk(f['body']):
            if n.get('k') == 'struct' and n['p'] == 'SyntaxTree':
                n_lit += 1
                if not re.match(r'^parse_[a-z]+_pp$', name):
                    w4.fail('%s:tree-built-elsewhere:%s' % (API, name), where(f), 'SyntaxTree is constructed in %s, outside parse_*_pp' % name)
    st = structs.get('SyntaxTree')
    w4.exactly('SyntaxTree_struct', 1 if st else 0, 1)
    if st:
        for fl in st['fields']:
            w4.inst('private:' + fl['n'])
            if fl['vis'] != '':
                w4.fail('%s:SyntaxTree:field-visible:%s' % (API, fl['n']), where(st), 'SyntaxTree.%s is %s: tree and text could be decoupled from outside' % (fl['n'], fl['vis']))
    w4.floor('construction_sites', n_lit, 2)
    # preprocess error mapping (pp crate)
    from rules.x_pp import model
    pp = model(ctx)
    if pp.loop_fn:
        txt = sq(pp.loop_fn['body'])
        cnt = txt.count('Error::Preprocess(Some((PathBuf::from(path.as_ref()),pos)))')
        w3.inst('preprocess-error', {'sites': cnt})
        if cnt < 1 or 'error_position(&e)' not in txt:
            w3.fail('sv-parser-pp:preprocess-error-mapping', pp.where(pp.loop_fn['l']),
                    'a pp_parser failure must become Error::Preprocess(Some((path being read, error_position(e))))')
        # the mapping must not be preceded by a re-binding of `path`
    # ---- W5   (tri-state: OK / WRONG / UNDECIDED)
    gs = {k[1]: v for k, v in methods.items() if k[0] == 'SyntaxTree' and k[1] in ('get_str', 'get_str_trim')}
    w5.exactly('get_str_functions', len(gs), 2)

    def judge_get_str(f, trim):
        body = f['body']
        fors = [n for n in sx.walk(body) if n.get('k') == 'for']
        if trim and not fors:
            # known-wrong form: the untrimmed text with blanks trimmed as characters.  A WhiteSpace node is also a comment or a compiler
            # directive, and it can be the first child of a node: trimming characters keeps a trailing comment, keeps leading trivia, and
            # returns Some("") for a node that has no token at all
            tr = [n for n in sx.walk(body) if n.get('k') == 'mcall' and n['m'] in ('trim', 'trim_end', 'trim_start', 'trim_matches', 'trim_end_matches')]
            gsc = [n for n in sx.walk(body) if n.get('k') == 'mcall' and n['m'] == 'get_str' and sx.is_path(n['recv'], 'self')]
            if tr and gsc:
                return 'wrong', ('the text of the whole node is trimmed as characters (`.%s()`): trailing WhiteSpace nodes also hold comments and directives, which character '
                                 'trimming keeps, leading trivia is kept too, and a node without any token yields Some("") instead of None' % tr[0]['m'])
        if len(fors) != 1:
            return 'undecided', 'expected one loop over the node\'s leaves'
        # must-pass-through: no result other than None is produced without walking the leaves of the node that was asked for
        from vlib import paths as _paths
        early = [e_ for e_ in _paths.exits_avoiding(body, lambda n_: n_ is fors[0]['e']) if sq(e_) != 'None']
        if early:
            return 'wrong', ('a result (`%s`) is returned without walking the leaves of the node: it is not the slice spanned by that node\'s own first and last leaf '
                             '(e.g. the whole text for a root whose tree, in incomplete mode, stops before an unparsable tail)' % sq(early[0])[:50])
        it = sq(fors[0]['e'])
        if '.rev()' in it:
            return 'wrong', 'the leaves are visited in reverse order'
        if not it.startswith('Iter::new(nodes.into())'):
            return 'undecided', 'iteration over `%s`' % it[:40]
        if trim and not it.endswith('.event()'):
            # without Enter/Leave the end of a WhiteSpace subtree is not observable; a flag set at the WhiteSpace node and
            # cleared at the next leaf assumes one leaf per WhiteSpace, which the type graph refutes (WhiteSpace::CompilerDirective)
            try:
                from rules.x_emit import descendants
                desc = descendants(ctx.types, 'WhiteSpace', False)
                multi = 'Symbol' in desc and 'Keyword' in desc
            except Exception:
                multi = False
            flagged = [sq(n['l_']) for n in sx.walk(fors[0]['body']) if n.get('k') == 'assign' and sq(n['r']) in ('true', 'false')]
            ws_arm = any(n.get('k') == 'ts' and n['p'] == 'RefNode::WhiteSpace' for n in sx.walk(fors[0]['body']))
            if multi and ws_arm and flagged:
                return 'wrong', ('the leaves of a WhiteSpace subtree are skipped with a flag over the plain iteration: the end of the subtree is not '
                                 'observable there, and a WhiteSpace node can hold several tokens (WhiteSpace::CompilerDirective), so tokens of '
                                 'trailing trivia are taken for text of the node')
            return 'undecided', 'get_str_trim without the event view'
        # the Locate binding
        loc = None
        for n in sx.walk(fors[0]['body']):
            if n.get('k') == 'ts' and n['p'] == 'RefNode::Locate' and n['e'] and n['e'][0].get('k') == 'ident':
                loc = n['e'][0]['n']
        if loc is None:
            return 'undecided', 'no RefNode::Locate(..) binding in the loop'
        # the slice
        sl = [n for n in sx.walk(body) if n.get('k') == 'mcall' and n['m'] in ('get_unchecked', 'get') and sq(n['recv']) == 'self.text.text()']
        idx = [n for n in sx.walk(body) if n.get('k') == 'index' and sq(n['e']) == 'self.text.text()']
        rng = None
        if len(sl) == 1 and sl[0]['args'][0].get('k') == 'range':
            rng = sl[0]['args'][0]
        elif len(idx) == 1 and idx[0]['i'].get('k') == 'range':
            rng = idx[0]['i']
        if rng is None or rng.get('op') != '..' or 'from' not in rng or 'to' not in rng:
            return 'undecided', 'slice expression not recognised'
        if not sx.is_path(rng['from']) or not sx.is_path(rng['to']):
            return 'wrong' if ('+' in sq(rng) or '-' in sq(rng)) else 'undecided', 'slice bounds `%s` are not plain variables' % sq(rng)
        endv = rng['to']['p']
        # assignments to the end variable inside the loop
        ends = [n for n in sx.walk(fors[0]['body']) if n.get('k') == 'assign' and sx.is_path(n['l_'], endv)]
        if not ends:
            return 'undecided', 'no assignment to the end bound `%s` in the loop' % endv
        good = ('(%s.offset+%s.len)' % (loc, loc), '(%s.len+%s.offset)' % (loc, loc))
        for n in ends:
            rhs = sq(n['r'])
            if rhs not in good:
                if rhs in ('%s.offset' % loc, '%s.len' % loc) or ('offset' in rhs and 'len' not in rhs):
                    return 'wrong', 'the end bound is set to `%s`, not to the end (offset + len) of the leaf' % rhs
                return 'undecided', 'end bound set to `%s`' % rhs
        # the begin bound: set from loc.offset only while still unset
        begv = rng['from']['p']
        txt = sq(fors[0]['body'])
        first_forms = ['if%s.is_none(){%s=Some(%s.offset);}' % (b_, b_, loc) for b_ in sx.bound_names(body) + [begv]] + \
                      ['%s=%s.or(Some(%s.offset))' % (b_, b_, loc) for b_ in sx.bound_names(body) + [begv]] + \
                      ['%s.get_or_insert(%s.offset)' % (b_, loc) for b_ in sx.bound_names(body) + [begv]]
        if not any(ff in txt for ff in first_forms):
            uncond = [n for n in sx.walk(fors[0]['body']) if n.get('k') == 'assign' and sq(n['r']) == 'Some(%s.offset)' % loc]
            guarded = [n for n in sx.walk(fors[0]['body']) if n.get('k') == 'if' and 'is_none()' in sq(n['c'])]
            if uncond and not guarded:
                return 'wrong', 'the begin bound is overwritten by every leaf (it must keep the FIRST leaf\'s offset)'
            return 'undecided', 'how the begin bound is initialised is not recognised'
        if trim:
            # leaves inside a WhiteSpace subtree are ignored: a flag set on Enter(WhiteSpace), cleared on Leave(WhiteSpace), tested for Locate
            flags = [sq(n['l_']) for n in sx.walk(fors[0]['body']) if n.get('k') == 'assign' and sq(n['r']) in ('true', 'false')]
            fl = set(flags)
            if len(fl) != 1:
                return 'undecided', 'whitespace flag not recognised'
            flag = list(fl)[0]
            arms = {}
            for mm in sx.walk(fors[0]['body']):
                if mm.get('k') == 'match':
                    for arm in mm['arms']:
                        arms[sq(arm['pat'])] = arm
            ent = [a_ for p_, a_ in arms.items() if p_ == 'NodeEvent::Enter(RefNode::WhiteSpace(_))']
            lev = [a_ for p_, a_ in arms.items() if p_ == 'NodeEvent::Leave(RefNode::WhiteSpace(_))']
            if not ent or not lev:
                return 'undecided', 'WhiteSpace Enter/Leave arms not recognised'
            if '%s=true' % flag not in sq(ent[0]['body']) or '%s=false' % flag not in sq(lev[0]['body']):
                return 'wrong', 'the whitespace flag must be set on Enter(WhiteSpace) and cleared on Leave(WhiteSpace)'
            la = [a_ for p_, a_ in arms.items() if p_.startswith('NodeEvent::Enter(RefNode::Locate(')]
            if not la:
                return 'undecided', 'Locate arm not recognised'
            g_ = sq(la[0].get('guard')) if la[0].get('guard') else ''
            inner = sq(la[0]['body'])
            if g_ != '!' + flag and ('if%s{continue;}' % flag) not in inner and ('if!%s{' % flag) not in inner:
                return 'wrong', 'leaves are not filtered by the whitespace flag'
        return 'ok', 'slice %s..%s over a forward iteration' % (begv, endv)
    for name, f in gs.items():
        verdict, why = judge_get_str(f, name == 'get_str_trim')
        w5.inst(name, {'fn': name, 'verdict': verdict, 'why': why})
        if verdict == 'wrong':
            w5.fail('%s:%s:slice' % (API, name), where(f),
                    '%s must return self.text.text()[first leaf offset .. last visited leaf offset + len] over a forward iteration of the node: %s' % (name, why))
        elif verdict == 'undecided':
            w5.undecided('%s:%s:slice' % (API, name), where(f), '%s: %s' % (name, why))
    go = {k[1]: v for k, v in methods.items() if k[0] == 'SyntaxTree' and k[1] == 'get_origin'}
    w5.inst('get_origin')
    if len(go) != 1:
        w5.fail('%s:get_origin' % API, '-', 'get_origin not found')
    else:
        gtxt = sq(go['get_origin']['body'])
        calls_ = [n for n in sx.walk(go['get_origin']['body']) if n.get('k') == 'mcall' and n['m'] == 'origin']
        prm_ = [sx.pat_idents(p_['pat'])[0] for p_ in go['get_origin']['sig']['params'] if p_.get('k') == 'typed']
        lp = prm_[0] if prm_ else 'locate'
        # the result IS the lookup at the token's first byte: a second lookup, or a None replaced by something (match / or_else / unwrap_or),
        # gives synthesised text (`__LINE__, a caller-supplied define) the origin of a neighbouring byte
        first_ = [c_ for c_ in calls_ if sq(c_['args'][0]) == '%s.offset' % lp] if calls_ else []
        fallback_ = [n for n in sx.walk(go['get_origin']['body']) if n.get('k') == 'mcall' and n['m'] in ('or', 'or_else', 'unwrap_or', 'unwrap_or_else', 'xor', 'map_or', 'map_or_else')]
        if len(calls_) >= 2 and first_:
            w5.fail('%s:get_origin' % API, where(go['get_origin']),
                    'get_origin looks the origin up a second time (`%s`) besides the token\'s first byte: when the first lookup is None — text synthesised by the preprocessor, which '
                    'must have no origin — the caller gets the origin of another byte' % sq([c_ for c_ in calls_ if c_ not in first_][0])[:50])
        elif len(calls_) == 1 and fallback_ and any(any(z is calls_[0] for z in sx.walk(f_['recv'])) for f_ in fallback_):
            w5.fail('%s:get_origin' % API, where(go['get_origin']), 'get_origin replaces a None of the lookup (`.%s(..)`): synthesised text must have no origin' % fallback_[0]['m'])
        elif len(calls_) == 1:
            a0 = sq(calls_[0]['args'][0])
            lets_ = {sx.pat_idents(st_['pat'])[0]: sq(st_['init']) for st_ in go['get_origin']['body']['stmts'] if st_['k'] == 'let' and 'init' in st_ and st_['pat'].get('k') == 'ident'}
            a0 = lets_.get(a0, a0)
            if a0 == '%s.offset' % lp:
                pass
            elif 'len' in a0 or '+' in a0 or '-' in a0:
                w5.fail('%s:get_origin' % API, where(go['get_origin']), 'get_origin must look up the token\'s first byte (locate.offset); it looks up `%s`' % a0)
            else:
                w5.undecided('%s:get_origin' % API, where(go['get_origin']), 'get_origin looks up `%s`' % a0)
        else:
            w5.undecided('%s:get_origin' % API, where(go['get_origin']), 'get_origin: origin lookup not recognised')
    # ---- W6: the file entry preprocesses exactly the buffer that was read (tri-state; the read may live in a helper)
    w6 = RuleResult('W6', 'the file entry preprocesses exactly the bytes it read from the file')
    nread = 0
    ppf = {fn['name']: (fl, fn) for fl, mp, fn, im in sx.crate_fns(ctx.syn, 'sv-parser-pp') if im is None}

    def single_binding(fn, name):
        lets = [n for n in sx.walk(fn['body']) if n.get('k') == 'let' and 'pat' in n and name in [x for x in sx.pat_idents(n['pat']) if x]]
        return len(lets)

    for name, (fl, fn) in sorted(ppf.items()):
        reads = [n for n in sx.walk(fn.get('body')) if n.get('k') == 'mcall' and n['m'] == 'read_to_string' and len(n['args']) == 1]
        if not reads or fn['name'] in ('testfile_contents',):
            continue
        nread += 1
        buf = sq(sx.strip_ref(reads[0]['args'][0]))
        where_ = 'sv-parser-pp/%s:%s' % (fl, fn['l'])
        muts = [n for n in sx.walk(fn['body']) if n.get('k') == 'mcall' and sx.is_path(n['recv'], buf) and
                n['m'] not in ('as_str', 'len', 'is_empty', 'as_ref', 'clone')]
        calls = [n for n in sx.walk(fn['body']) if sx.is_call(n) and n['f']['p'].split('::')[-1] == 'preprocess_str']
        w6.inst('read:%s' % name, {'fn': name, 'buffer': buf, 'bindings_of_buffer': single_binding(fn, buf), 'calls_string_entry_itself': bool(calls)})
        if single_binding(fn, buf) != 1:
            w6.fail('sv-parser-pp:%s:buffer-rebound' % name, where_,
                    '%s binds `%s` %d times: the text handed on is not (only) what was read from the file (e.g. a stripped or '
                    'normalised copy)' % (name, buf, single_binding(fn, buf)))
        if muts:
            w6.fail('sv-parser-pp:%s:buffer-modified' % name, where_, '%s modifies the read buffer (%s) before preprocessing it' % (name, [sq(x)[:40] for x in muts]))
        if calls:
            # must-pass-through: the file entry produces no result of its own — every Ok it returns is what preprocess_str returned for the text
            # read (an "empty file" / "nothing to do" shortcut hands back a fresh text AND a fresh define table, dropping the caller's)
            from vlib import paths as _paths
            own_ = [e_ for e_ in _paths.exits_avoiding(fn['body'], lambda n_: any(n_ is c_ for c_ in calls)) if sx.is_call(e_, 'Ok')]
            if own_:
                w6.fail('sv-parser-pp:%s:result-not-from-string-entry' % name, 'sv-parser-pp/%s:%s' % (fl, own_[0].get('l') or fn['l']),
                        '%s can return `%s` without calling preprocess_str on the text it read: on that path the file entry and the string entry disagree, and the define table '
                        'handed in (which an `include adopts back) is replaced by whatever this result carries' % (name, sq(own_[0])[:50]))
            if len(calls) != 1 or sq(calls[0]['args'][0]) not in ('&' + buf, buf + '.as_str()', '&*' + buf):
                w6.fail('sv-parser-pp:%s:text-not-buffer' % name, where_,
                        '%s reads the file into `%s` but hands `%s` to preprocess_str: file and string entry points would disagree' %
                        (name, buf, sq(calls[0]['args'][0]) if calls else None))
            continue
        # the read lives in a helper: it must return the buffer, and its caller must hand that value to preprocess_str
        rets = [sq(n['args'][0]) for n in sx.walk(fn['body']) if sx.is_call(n, 'Ok') and len(n['args']) == 1 and not sq(n['args'][0]).startswith('(')]
        if buf not in rets:
            w6.undecided('sv-parser-pp:%s:reader-result' % name, where_, '%s reads into `%s` but does not visibly return it (returns %s)' % (name, buf, rets))
            continue
        for cname, (cfl, cfn) in sorted(ppf.items()):
            users = [n for n in sx.walk(cfn['body']) if n.get('k') == 'let' and 'init' in n and
                     any(sx.is_call(x, name) for x in sx.walk(n['init'])) and n['pat'].get('k') == 'ident']
            for u in users:
                v = u['pat']['n']
                pcalls = [n for n in sx.walk(cfn['body']) if sx.is_call(n) and n['f']['p'].split('::')[-1] == 'preprocess_str']
                w6.inst('reader-user:%s' % cname, {'fn': cname, 'holds_file_text_in': v, 'text_argument': sq(pcalls[0]['args'][0]) if pcalls else None})
                cw = 'sv-parser-pp/%s:%s' % (cfl, cfn['l'])
                if single_binding(cfn, v) != 1:
                    w6.fail('sv-parser-pp:%s:buffer-rebound' % cname, cw, '%s binds `%s` %d times between reading and preprocessing' % (cname, v, single_binding(cfn, v)))
                if len(pcalls) == 1 and sq(pcalls[0]['args'][0]) not in ('&' + v, v + '.as_str()', '&*' + v):
                    w6.fail('sv-parser-pp:%s:text-not-buffer' % cname, cw,
                            '%s reads the file into `%s` but hands `%s` to preprocess_str' % (cname, v, sq(pcalls[0]['args'][0])))
                elif len(pcalls) != 1:
                    w6.undecided('sv-parser-pp:%s:reader-user' % cname, cw, '%s: %d calls of preprocess_str' % (cname, len(pcalls)))
    # the same for the wrappers above the reading function (the public `preprocess`): they produce no result of their own either
    readers_ = {name for name, (fl, fn) in ppf.items() if any(n.get('k') == 'mcall' and n['m'] == 'read_to_string' for n in sx.walk(fn.get('body')))}
    loop_names_ = {name for name, (fl, fn) in ppf.items() if any(n.get('k') == 'path' and n['p'].split('::')[-1] == 'pp_parser' for n in sx.walk(fn.get('body')))}
    for name, (fl, fn) in sorted(ppf.items()):
        if name in readers_ or name in loop_names_ or not fn.get('body'):
            continue
        rc_ = [n for n in sx.walk(fn['body']) if sx.is_call(n) and n['f']['p'].split('::')[-1] in readers_]
        if not rc_:
            continue
        w6.inst('wrapper:%s' % name, {'fn': name, 'calls': sorted({n['f']['p'] for n in rc_})})
        from vlib import paths as _paths
        own_ = [e_ for e_ in _paths.exits_avoiding(fn['body'], lambda n_: any(n_ is c_ for c_ in rc_)) if sx.is_call(e_, 'Ok')]
        if own_:
            w6.fail('sv-parser-pp:%s:result-not-from-string-entry' % name, 'sv-parser-pp/%s:%s' % (fl, own_[0].get('l') or fn['l']),
                    '%s can return `%s` without going through %s: on that path the file entry builds its own result (e.g. a define table without the predefined '
                    'constants that the string entry always seeds), so the two entries disagree' % (name, sq(own_[0])[:50], sorted({n['f']['p'] for n in rc_})[0]))
    w6.floor('file_reading_functions', nread, 1)
    return [w1, w2, w3, w4, w5, w6]
