"""K1-K4 — keyword tables vs IEEE 1800-2017 22.14, dispatch agreement, version_specifier, identifier lexers."""
import json
import os
import re
from vlib import sx, grammar
from vlib.report import RuleResult
from vlib.facts import VERIF

norm = lambda x: re.sub('[^a-z0-9]', '', x.lower())

# identifier constructors that deliberately do not consult the table
K4_EXEMPT = {
    'simple_identifier_pragma': 'pragma names / keywords are not reserved words (22.11)',
}


def tables(ctx, g):
    out = {}
    where = {}
    for fl, fv in sx.crate_files(ctx.syn, g.crate).items():
        for mp, it in sx.items_rec(fv['items']):
            if it['k'] == 'const' and it['name'].startswith('KEYWORDS_'):
                e = sx.strip_ref(it['e'])
                if e.get('k') == 'array':
                    out[it['name']] = [sx.lit_str(x) for x in e['e']]
                    where[it['name']] = '%s/%s:%d' % (g.crate, fl, it['l'])
    return out, where


STATE_WORDS = ('last(', 'current_version', 'CURRENT_VERSION', 'is_empty(', '.len()', 'contains(', 'in_directive', 'first(')


def begin_keywords_model(ctx):
    """How begin_keywords maps a specifier to a Version and pushes it.
    form 'arm'   : match <str> { "lit" => STACK.push(Version::V), .., _ => () }
    form 'value' : the match (in the function or in a private helper it calls) yields Version::V per literal; the value is
                   pushed once, possibly under `if let Some(v) = <mapping>` — but not under a condition on the stack state."""
    g = ctx.grammar
    bk = g.fns.get('begin_keywords')
    out = {'form': None, 'map': {}, 'pushes': 0, 'state_cond': None, 'default_selects': False, 'why': ''}
    if bk is None:
        out['why'] = 'function not found'
        return out
    bodies = [bk.item['body']]
    for n in sx.walk(bk.item['body']):
        if sx.is_call(n) and n['f']['p'] in g.fns and g.fns[n['f']['p']].kind == 'other' and n['f']['p'] != 'begin_keywords':
            h = g.fns[n['f']['p']]
            if any(x.get('k') == 'path' and x['p'].startswith('Version::') for x in sx.walk(h.item['body'])):
                bodies.append(h.item['body'])
    ms = [m for b_ in bodies for m in sx.walk(b_) if m.get('k') == 'match' and
          any(a['pat'].get('k') == 'lit' and sx.lit_str(a['pat'].get('e')) is not None for a in m['arms'])]
    if len(ms) != 1:
        out['why'] = '%d matches on string literals found' % len(ms)
        return out
    m = ms[0]
    direct = 0
    for arm in m['arms']:
        lit = sx.lit_str(arm['pat'].get('e')) if arm['pat'].get('k') == 'lit' else None
        vs = [n['p'] for n in sx.walk(arm['body']) if n.get('k') == 'path' and n['p'].startswith('Version::')]
        pushes = [n for n in sx.walk(arm['body']) if n.get('k') == 'mcall' and n['m'] == 'push']
        if lit is None:
            if vs or pushes:
                out['default_selects'] = True
            continue
        if len(vs) != 1:
            out['why'] = 'arm "%s" selects %s' % (lit, vs)
            return out
        out['map'][lit] = vs[0].split('::')[1]
        if pushes:
            b_ = arm['body']
            if b_.get('k') == 'mcall' and b_['m'] == 'push':
                direct += 1
            else:
                # a push wrapped in a condition: state-dependent conditions are a defect, anything else is not modelled
                t_ = sx.render(b_).replace(' ', '')
                if b_.get('k') in ('if', 'block') and any(w in t_ for w in STATE_WORDS):
                    direct += 1
                    out['state_cond'] = sx.render(b_)[:80]
                else:
                    out['why'] = 'arm "%s" pushes inside a larger expression' % lit
                    return out
    all_pushes = [n for b_ in bodies for n in sx.walk(b_) if n.get('k') == 'mcall' and n['m'] == 'push']
    out['pushes'] = len(all_pushes) if direct == 0 else 1
    if direct and direct != len(out['map']):
        out['why'] = 'some arms push and some do not'
        return out
    out['form'] = 'arm' if direct else 'value'
    # conditions guarding a push
    def conds_over(root, target, acc):
        if root is target:
            return list(acc)
        if isinstance(root, dict):
            for k_, v_ in root.items():
                if k_ in ('l', 'col', 'el'):
                    continue
                acc2 = acc
                if root.get('k') == 'if' and k_ in ('t', 'e'):
                    acc2 = acc + [sx.render(root['c'])]
                if root.get('k') == 'match' and k_ == 'arms' and root is not m:
                    acc2 = acc + [sx.render(root['e'])]
                r_ = conds_over(v_, target, acc2)
                if r_ is not None:
                    return r_
        elif isinstance(root, list):
            for x in root:
                r_ = conds_over(x, target, acc)
                if r_ is not None:
                    return r_
        return None
    for pc in all_pushes:
        for b_ in bodies:
            cs = conds_over(b_, pc, [])
            if cs:
                for c_ in cs:
                    if any(w in c_.replace(' ', '') for w in STATE_WORDS):
                        out['state_cond'] = c_[:80]
    if out['form'] == 'value' and out['pushes'] == 0:
        out['form'] = None
        out['why'] = 'the selected version is never pushed'
    return out


def run(ctx):
    g = ctx.grammar
    oracle = json.load(open(os.path.join(VERIF, 'oracle', 'keywords.json')))
    k1 = RuleResult('K1', 'keyword tables equal the reserved-word sets of IEEE 1800-2017 22.14')
    tabs, where = tables(ctx, g)
    spec_of = {}
    for name in tabs:
        spec_of[name] = norm(name[len('KEYWORDS_'):])
    want = {norm(k): (k, set(v)) for k, v in oracle['sets'].items()}
    want[norm('directive')] = ('directive', set(oracle['directives']['names']))
    for k, v in oracle['sets'].items():
        if len(v) != oracle['expected_sizes'][k]:
            k1.fail('oracle-size:' + k, 'oracle/keywords.json', 'oracle set %s has %d words, the standard lists %d' % (k, len(v), oracle['expected_sizes'][k]))
    seen_specs = set()
    for name, words in sorted(tabs.items()):
        sp = spec_of[name]
        k1.inst('table:' + name, {'table': name, 'words': len(words)})
        if sp not in want:
            k1.fail('%s:table-unknown:%s' % (g.crate, name), where[name], 'keyword table %s corresponds to no version specifier of the standard' % name)
            continue
        seen_specs.add(sp)
        label, ws = want[sp]
        if None in words:
            k1.fail('%s:table-nonliteral:%s' % (g.crate, name), where[name], '%s contains a non-literal entry' % name)
            continue
        dup = sorted({w for w in words if words.count(w) > 1})
        if dup:
            k1.fail('%s:table-dup:%s' % (g.crate, name), where[name], '%s lists %s more than once' % (name, dup))
        missing = sorted(ws - set(words))
        extra = sorted(set(words) - ws)
        for w in missing:
            k1.fail('%s:table-missing:%s:%s' % (g.crate, name, w), where[name],
                    '%s lacks the reserved word "%s" of the "%s" set: it would be accepted as an identifier' % (name, w, label))
        for w in extra:
            k1.fail('%s:table-extra:%s:%s' % (g.crate, name, w), where[name],
                    '%s contains "%s", which is not reserved in "%s": a legal identifier would be rejected' % (name, w, label))
        for w in words:
            k1.inst('word:%s:%s' % (name, w))
    for sp, (label, _) in want.items():
        if sp not in seen_specs:
            k1.fail('%s:table-absent:%s' % (g.crate, label), '%s/src/keywords.rs' % g.crate, 'no keyword table for "%s"' % label)
    k1.floor('keyword_tables', len(tabs), 9)

    # ------------------------------------------------------------------ K2
    k2 = RuleResult('K2', 'begin_keywords / is_keyword dispatch: specifier -> Version variant -> table of the same name')
    bk = g.fns.get('begin_keywords')
    ik = g.fns.get('is_keyword')
    k2.exactly('begin_keywords_fn', 1 if bk else 0, 1)
    k2.exactly('is_keyword_fn', 1 if ik else 0, 1)
    pushed = {}
    if bk:
        verdict = begin_keywords_model(ctx)
        where_bk = '%s/%s:%d' % (g.crate, bk.file, bk.line)
        k2.inst('begin_keywords-model', {'form': verdict['form'], 'specifiers': sorted(verdict['map']), 'pushes': verdict['pushes'],
                                         'state_dependent_condition': verdict['state_cond']})
        if verdict['form'] is None:
            k2.undecided('%s:begin_keywords:shape' % g.crate, where_bk, 'begin_keywords: %s' % verdict['why'])
        else:
            pushed = verdict['map']
            for lit, v in sorted(pushed.items()):
                k2.inst('begin:%s' % lit, {'specifier': lit, 'selects': v})
                okname = norm(v) == norm('ieee' + lit) or (lit == 'directive' and v == 'Directive')
                if not okname:
                    k2.fail('%s:begin_keywords:wrong-version:%s' % (g.crate, lit), where_bk, 'begin_keywords("%s") selects Version::%s' % (lit, v))
            for sp in list(oracle['sets']) + ['directive']:
                if sp not in pushed:
                    k2.fail('%s:begin_keywords:missing:%s' % (g.crate, sp), where_bk,
                            'begin_keywords has no arm for "%s": the directive would silently keep the previous keyword set' % sp)
            if verdict['default_selects']:
                k2.fail('%s:begin_keywords:default-arm' % g.crate, where_bk, 'begin_keywords: the catch-all arm must not select a version')
            if verdict['state_cond']:
                k2.fail('%s:begin_keywords:conditional-push' % g.crate, where_bk,
                        'begin_keywords pushes the selected version only under a condition on the stack itself (%s): a `begin_keywords region '
                        'can then be opened without a stack entry while `end_keywords always pops, so the region below is closed instead' % verdict['state_cond'])
            if verdict['pushes'] != 1 and verdict['form'] == 'value':
                k2.fail('%s:begin_keywords:push-count' % g.crate, where_bk, 'begin_keywords selects a version by value but pushes it %d times' % verdict['pushes'])
    if ik:
        ms = [n for n in sx.walk(ik.item['body']) if n.get('k') == 'match']
        scrut_ok = None
        if not ms:
            # the version -> table selection may live in a private helper that is_keyword applies to current_version()
            for n in sx.walk(ik.item['body']):
                if sx.is_call(n) and n['f']['p'] in g.fns and g.fns[n['f']['p']].kind == 'other' and len(n['args']) == 1:
                    h_ = g.fns[n['f']['p']]
                    hm = [z for z in sx.walk(h_.item['body']) if z.get('k') == 'match']
                    hp = [sx.pat_idents(q['pat'])[0] for q in h_.item['sig']['params'] if q.get('k') == 'typed']
                    if len(hm) == 1 and len(hp) == 1 and sx.is_path(hm[0]['e'], hp[0]):
                        ms = hm
                        scrut_ok = sx.is_call(n['args'][0], 'current_version')
        if len(ms) != 1:
            k2.undecided('%s:is_keyword:table-selection' % g.crate, '%s/%s:%d' % (g.crate, ik.file, ik.line),
                         'is_keyword: %d `match` expressions; how the table is selected from the version is not recognised' % len(ms))
            ms = []
        for m in ms:
            if scrut_ok is None:
                scrut_ok = sx.is_call(m['e'], 'current_version')
            if not scrut_ok:
                k2.fail('%s:is_keyword:scrutinee' % g.crate, '%s/%s:%d' % (g.crate, ik.file, ik.line),
                        'is_keyword must select the table from current_version() (found %s)' % sx.render(m['e'])[:60])
            for arm in m['arms']:
                pat = sx.render(arm['pat'])
                body = sx.render(arm['body'])
                k2.inst('table-of:%s' % pat, {'version': pat, 'table': body})
                alts = [x.strip() for x in pat.split('|')]
                for alt_ in alts:
                    if alt_ == 'None':
                        if body != 'KEYWORDS_1800_2017':
                            k2.fail('%s:is_keyword:default' % g.crate, '%s/%s:%s' % (g.crate, ik.file, arm['l']),
                                    'with no `begin_keywords in force the IEEE 1800-2017 set applies; is_keyword uses %s' % body)
                        continue
                    mm = re.match(r'^Some\(Version::(\w+)\)$', alt_)
                    if not mm or not body.startswith('KEYWORDS_'):
                        k2.undecided('%s:is_keyword:arm:%s' % (g.crate, alt_), '%s/%s:%s' % (g.crate, ik.file, arm['l']),
                                     'is_keyword: arm %s => %s not recognised' % (alt_, body[:40]))
                        continue
                    v = mm.group(1)
                    if norm('ieee' + body[len('KEYWORDS_'):]) != norm(v) and not (v == 'Directive' and body == 'KEYWORDS_DIRECTIVE'):
                        k2.fail('%s:is_keyword:wrong-table:%s' % (g.crate, v), '%s/%s:%s' % (g.crate, ik.file, arm['l']),
                                'is_keyword: Version::%s selects %s' % (v, body))
        # the comparison is on the whole fragment
        # the comparison is equality of the whole fragment (directly or through a local bound to it)
        frag_locals = {sx.pat_idents(st_['pat'])[0] for st_ in sx.walk(ik.item['body']) if st_.get('k') == 'let' and 'pat' in st_ and 'init' in st_
                       and st_['pat'].get('k') == 'ident' and 'fragment()' in sx.render(st_['init'])}
        eqs = [n for n in sx.walk(ik.item['body']) if n.get('k') == 'binary' and n['op'] == '==']
        cmp_ok = any('fragment' in sx.render(n) or any(sx.is_path(sx.strip_ref(x), v_) for x in (n['l_'], n['r']) for v_ in frag_locals) for n in eqs) \
            or any(n.get('k') == 'mcall' and n['m'] == 'contains' and ('fragment' in sx.render(n) or any(v_ in sx.render(n) for v_ in frag_locals))
                   for n in sx.walk(ik.item['body']))
        partial = [n for n in sx.walk(ik.item['body']) if n.get('k') == 'mcall' and n['m'] in ('starts_with', 'ends_with', 'find', 'eq_ignore_ascii_case')]
        k2.inst('whole-lexeme-compare')
        bs = [n for n in sx.walk(ik.item['body']) if n.get('k') == 'mcall' and n['m'] in ('binary_search', 'binary_search_by', 'binary_search_by_key')]
        if bs and not partial:
            # a binary search is only a membership test on a table sorted in the comparison's order (byte order of str)
            unsorted = []
            for tn_, words_ in sorted(tabs.items()):
                if None in words_:
                    continue
                for a_, b_ in zip(words_, words_[1:]):
                    if not (a_.encode() < b_.encode()):
                        unsorted.append((tn_, a_, b_))
                        break
            if unsorted and bs[0]['m'] == 'binary_search':
                tn_, a_, b_ = unsorted[0]
                k2.fail('%s:is_keyword:binary-search-unsorted:%s' % (g.crate, tn_), '%s/%s:%d' % (g.crate, ik.file, ik.line),
                        'is_keyword looks the lexeme up with binary_search, but %s is not sorted ("%s" stands before "%s"; %d of %d tables are unsorted): '
                        'reserved words of that set are not found and are accepted as identifiers' % (tn_, a_, b_, len(unsorted), len(tabs)))
            elif bs[0]['m'] == 'binary_search':
                cmp_ok = True
        if partial:
            k2.fail('%s:is_keyword:compare' % g.crate, '%s/%s:%d' % (g.crate, ik.file, ik.line),
                    'is_keyword must test equality of the whole lexeme; it uses .%s()' % partial[0]['m'])
        elif not cmp_ok:
            k2.undecided('%s:is_keyword:compare' % g.crate, '%s/%s:%d' % (g.crate, ik.file, ik.line), 'is_keyword: how the lexeme is compared with the table is not recognised')
    if not getattr(k2, 'undecided_list', []):
        k2.floor('dispatch_arms', k2.instances, 18)

    # ------------------------------------------------------------------ K3
    k3 = RuleResult('K3', 'version_specifier: one arm per specifier of the standard, keyword("S") paired with begin_keywords("S")')
    vsf = None
    for f in g.parsers():
        if f.out_ty and f.out_ty.get('p') == 'VersionSpecifier':
            vsf = f
    k3.exactly('version_specifier_fn', 1 if vsf else 0, 1)
    if vsf:
        seen = []
        for node in grammar.iter_ir(vsf.ir):
            if node['op'] == 'map' and node['p'].get('op') == 'lit':
                s_ = node['p']['text']
                calls = [n for n in sx.walk(node['f']) if sx.is_call(n, 'begin_keywords')]
                args = [sx.lit_str(c['args'][0]) for c in calls if c['args']]
                seen.append(s_)
                k3.inst('spec:%s' % s_, {'keyword': s_, 'begin_keywords': args})
                if node['p']['kind'] != 'keyword':
                    k3.fail('%s:version_specifier:not-keyword:%s' % (g.crate, s_), '%s/%s:%s' % (g.crate, vsf.file, node.get('l')),
                            'version specifier "%s" must be lexed with keyword()' % s_)
                if args != [s_]:
                    k3.fail('%s:version_specifier:mismatch:%s' % (g.crate, s_), '%s/%s:%s' % (g.crate, vsf.file, node.get('l')),
                            'version specifier "%s" switches the keyword set to %s' % (s_, args))
        for sp in oracle['sets']:
            if sp not in seen:
                k3.fail('%s:version_specifier:missing:%s' % (g.crate, sp), '%s/%s:%d' % (g.crate, vsf.file, vsf.line),
                        'version_specifier has no alternative for "%s"' % sp)
        for sp in seen:
            if sp not in oracle['sets']:
                k3.fail('%s:version_specifier:extra:%s' % (g.crate, sp), '%s/%s:%d' % (g.crate, vsf.file, vsf.line),
                        'version_specifier accepts "%s", which the standard does not define' % sp)

    # ------------------------------------------------------------------ K4
    k4 = RuleResult('K4', 'every SimpleIdentifier / CIdentifier lexer refuses reserved words, tested on the whole lexeme')
    for f in g.parsers():
        if f.tail[0] != 'ok':
            continue
        node = f.tail[2]
        if not (node.get('k') == 'struct' and node['p'] in ('SimpleIdentifier', 'CIdentifier')):
            continue
        k4.inst('ctor:%s' % f.name, {'constructor': f.name, 'node': node['p']})
        where_ = '%s/%s:%d' % (g.crate, f.file, f.line)
        binds = [s for s in f.stmts if s[0] == 'bind']
        lex = None
        if len(binds) == 1 and binds[0][3].get('op') in ('ws', 'no_ws') and binds[0][3]['p'].get('op') == 'ref':
            lex = g.fns[binds[0][3]['p']['name']]
        if lex is None:
            k4.fail('%s:%s:ident-shape' % (g.crate, f.name), where_, '%s builds %s but not from ws(<lexer>)/no_ws(<lexer>) (fail closed)' % (f.name, node['p']))
            continue
        if f.name in K4_EXEMPT:
            k4.notes.append('%s exempt: %s' % (f.name, K4_EXEMPT[f.name]))
            continue
        body = lex.item['body']
        kw_calls = [n for n in sx.walk(body) if sx.is_call(n, 'is_keyword') and len(n['args']) == 1]
        locs = [n for n in sx.walk(body) if sx.is_call(n, 'into_locate') and len(n['args']) == 1]
        where_lex = '%s/%s:%d' % (g.crate, lex.file, lex.line)
        if not kw_calls:
            # the final "reserved word?" step may be a private function the lexer ends with: `finish(s, word)`.  Follow it when
            # every value exit of the lexer is such a call (or an Err); the helper is then judged like a lexer body.
            stmts_ = body['stmts']
            tail_ = stmts_[-1]['e'] if stmts_ and stmts_[-1]['k'] == 'expr' and not stmts_[-1].get('semi') else None
            h_ = g.fns.get(tail_['f']['p']) if tail_ is not None and sx.is_call(tail_) else None
            if h_ is not None and h_.kind in ('other', 'parser') and h_.item.get('body') and \
                    any(sx.is_call(n, 'is_keyword') for n in sx.walk(h_.item['body'])) and \
                    not any(sx.is_call(n, 'into_locate') for n in sx.walk(body)):
                # the word handed over must be what the lexer consumed (a local built from its binds), the helper's own test and
                # conversion must be on that parameter
                hp_ = [sx.pat_idents(q['pat'])[0] for q in h_.item['sig']['params'] if q.get('k') == 'typed']
                k4.notes.append('%s: reserved-word step delegated to %s' % (lex.name, h_.name))
                lex_body_for_paths = h_.item['body']
                body = lex_body_for_paths
                kw_calls = [n for n in sx.walk(body) if sx.is_call(n, 'is_keyword') and len(n['args']) == 1]
                locs = [n for n in sx.walk(body) if sx.is_call(n, 'into_locate') and len(n['args']) == 1]
        if not kw_calls:
            calls_out = [n for n in sx.walk(body) if sx.is_call(n) and n['f']['p'] in g.fns and g.fns[n['f']['p']].kind == 'other' and
                         any(sx.is_call(z, 'is_keyword') for z in sx.walk(g.fns[n['f']['p']].item.get('body') or {}))]
            if calls_out:
                k4.undecided('%s:%s:keyword-test-shape' % (g.crate, lex.name), where_lex, '%s: the reserved-word test is reached through %s in a way the rule does not follow' % (lex.name, calls_out[0]['f']['p']))
                continue
            k4.fail('%s:%s:no-keyword-test' % (g.crate, lex.name), where_lex,
                    '%s (used by %s to build %s) never asks is_keyword: reserved words are accepted as identifiers' % (lex.name, f.name, node['p']))
            continue
        # must-pass-through: every successful exit (an `Ok(..)` carrying the token) lies on the NOT-keyword side of an
        # is_keyword test of the value that becomes the token
        from vlib import paths as _paths
        try:
            allp = _paths.enumerate_paths(body)
        except _paths.Unmodelled as u:
            k4.undecided('%s:%s:keyword-test-shape' % (g.crate, lex.name), where_lex, '%s: control flow not modelled (%s)' % (lex.name, u))
            continue
        succ = [p_ for p_ in allp if sx.is_call(p_.exit, 'Ok') and any(sx.is_call(z, 'into_locate') for z in sx.walk(p_.exit))]
        if not succ:
            k4.undecided('%s:%s:keyword-test-shape' % (g.crate, lex.name), where_lex, '%s: no `Ok(.. into_locate(..) ..)` exit found' % lex.name)
            continue
        bad = False
        for p_ in succ:
            k4.inst()
            side = None
            tested = None
            for c, pol in p_.conds:
                if c.get('k') in ('let', 'arm'):
                    continue
                neg = c.get('k') == 'unary' and c['op'] == '!'
                core = c['e'] if neg else c
                if sx.is_call(core, 'is_keyword') and len(core['args']) == 1:
                    side = 'keyword' if (pol != neg) else 'not-keyword'
                    tested = core
                elif any(sx.is_call(z, 'is_keyword') for z in sx.walk(c)):
                    side = 'unknown'
            line_ = p_.exit.get('l') or lex.line
            where_exit = '%s/%s:%s' % (g.crate, lex.file, line_)
            if side is None:
                k4.fail('%s:%s:success-path-without-keyword-test' % (g.crate, lex.name), where_exit,
                        '%s (used by %s to build %s) has a successful exit that is not guarded by is_keyword: on that path a reserved word is '
                        'returned as an identifier' % (lex.name, f.name, node['p']))
                bad = True
            elif side == 'keyword':
                k4.fail('%s:%s:keyword-test-inverted' % (g.crate, lex.name), where_exit, '%s returns the identifier on the is_keyword side of the test' % lex.name)
                bad = True
            elif side == 'unknown':
                k4.undecided('%s:%s:keyword-test-shape' % (g.crate, lex.name), where_exit, '%s: is_keyword occurs inside a compound condition' % lex.name)
            else:
                # whole lexeme: the tested value and the converted value are the same variable under the same binding
                loc = [z for z in sx.walk(p_.exit) if sx.is_call(z, 'into_locate') and len(z['args']) == 1]
                x = sx.strip_ref(tested['args'][0])
                y = sx.strip_ref(loc[0]['args'][0]) if len(loc) == 1 else None
                if y is not None and sx.is_path(x) and sx.is_path(y):
                    if x['p'] != y['p']:
                        k4.fail('%s:%s:keyword-test-other-value' % (g.crate, lex.name), where_exit,
                                '%s tests is_keyword(%s) but converts `%s` to the token: the reserved-word test is not on the whole lexeme' % (lex.name, x['p'], y['p']))
                        bad = True
                    else:
                        # rebinding between the test and the exit
                        tl = tested.get('l') or 0
                        bnd = p_.binds.get(x['p'])
                        if bnd is not None and (bnd.get('l') or 0) > tl:
                            k4.fail('%s:%s:keyword-test-other-value' % (g.crate, lex.name), where_exit,
                                    '%s re-binds `%s` after the is_keyword test: the token is not the value that was tested' % (lex.name, x['p']))
                            bad = True
                else:
                    k4.undecided('%s:%s:keyword-test-value' % (g.crate, lex.name), where_exit, '%s: tested / converted value is not a plain variable' % lex.name)
        if bad:
            continue
    k4.floor('identifier_constructors', k4.instances, 3)
    # the set in force is the INNERMOST open selector: the accessor through which the version stack is read takes its last element
    # (`first()` / `get(0)` / `iter().next()` gives the outermost region — nested regions, and the transient directive-name set inside a
    # region, are then ignored)
    from vlib import sx as _sx
    acc_ = []
    for fl_, mp_, fn_, im_ in _sx.crate_fns(ctx.syn, g.crate):
        if im_ is None and fn_.get('body') and 'Option<Version>' in (fn_['sig'].get('rets') or '').replace(' ', '') and \
                any(n_.get('k') == 'path' and n_['p'].split('::')[-1] == 'CURRENT_VERSION' for n_ in _sx.walk(fn_['body'])):
            acc_.append((fl_, fn_))
    k2.inst('version-accessor', {'functions': [f_['name'] for _, f_ in acc_]})
    for fl_, fn_ in acc_:
        ms_ = [n_['m'] for n_ in _sx.walk(fn_['body']) if n_.get('k') == 'mcall']
        where_ = '%s/%s:%s' % (g.crate, fl_, fn_['l'])
        outer_ = [m_ for m_ in ms_ if m_ in ('first', 'first_mut')] + (['get(0)'] if any(n_.get('k') == 'mcall' and n_['m'] == 'get' and n_['args'] and _sx.lit_int(n_['args'][0]) == 0 for n_ in _sx.walk(fn_['body'])) else []) \
            + (['iter().next()'] if 'next' in ms_ and 'rev' not in ms_ and 'last' not in ms_ else [])
        if outer_:
            k2.fail('%s:%s:outermost-version' % (g.crate, fn_['name']), where_,
                    '%s reads the version stack with `%s`: that is the OUTERMOST open `begin_keywords selector; the keyword set in force is the innermost one (the last '
                    'element) — with two selectors open (nested regions, or a macro name inside a region) the wrong table is consulted' % (fn_['name'], outer_[0]))
        elif 'last' not in ms_ and not ('rev' in ms_ and 'next' in ms_):
            k2.undecided('%s:%s:version-accessor' % (g.crate, fn_['name']), where_, '%s: how the element of the version stack is chosen is not recognised' % fn_['name'])
    return [k1, k2, k3, k4]
