"""K1-K4 — keyword tables vs IEEE 1800-2017 22.14, dispatch agreement, version_specifier, identifier lexers."""
import json
import os
import re
from vlib import sx, grammar
from vlib.report import RuleResult
from vlib.facts import VERIF

norm = lambda x: re.sub('[^a-z0-9]', '', x.lower())

# identifier constructors that deliberately do not consult the table
K4_EXEMPT = {
    'simple_identifier_pragma': 'pragma names / keywords are not reserved words (22.11)',
}


def tables(ctx, g):
    out = {}
    where = {}
    for fl, fv in sx.crate_files(ctx.syn, g.crate).items():
        for mp, it in sx.items_rec(fv['items']):
            if it['k'] == 'const' and it['name'].startswith('KEYWORDS_'):
                e = sx.strip_ref(it['e'])
                if e.get('k') == 'array':
                    out[it['name']] = [sx.lit_str(x) for x in e['e']]
                    where[it['name']] = '%s/%s:%d' % (g.crate, fl, it['l'])
    return out, where


def run(ctx):
    g = ctx.grammar
    oracle = json.load(open(os.path.join(VERIF, 'oracle', 'keywords.json')))
    k1 = RuleResult('K1', 'keyword tables equal the reserved-word sets of IEEE 1800-2017 22.14')
    tabs, where = tables(ctx, g)
    spec_of = {}
    for name in tabs:
        spec_of[name] = norm(name[len('KEYWORDS_'):])
    want = {norm(k): (k, set(v)) for k, v in oracle['sets'].items()}
    want[norm('directive')] = ('directive', set(oracle['directives']['names']))
    for k, v in oracle['sets'].items():
        if len(v) != oracle['expected_sizes'][k]:
            k1.fail('oracle-size:' + k, 'oracle/keywords.json', 'oracle set %s has %d words, the standard lists %d' % (k, len(v), oracle['expected_sizes'][k]))
    seen_specs = set()
    for name, words in sorted(tabs.items()):
        sp = spec_of[name]
        k1.inst('table:' + name, {'table': name, 'words': len(words)})
        if sp not in want:
            k1.fail('%s:table-unknown:%s' % (g.crate, name), where[name], 'keyword table %s corresponds to no version specifier of the standard' % name)
            continue
        seen_specs.add(sp)
        label, ws = want[sp]
        if None in words:
            k1.fail('%s:table-nonliteral:%s' % (g.crate, name), where[name], '%s contains a non-literal entry' % name)
            continue
        dup = sorted({w for w in words if words.count(w) > 1})
        if dup:
            k1.fail('%s:table-dup:%s' % (g.crate, name), where[name], '%s lists %s more than once' % (name, dup))
        missing = sorted(ws - set(words))
        extra = sorted(set(words) - ws)
        for w in missing:
            k1.fail('%s:table-missing:%s:%s' % (g.crate, name, w), where[name],
                    '%s lacks the reserved word "%s" of the "%s" set: it would be accepted as an identifier' % (name, w, label))
        for w in extra:
            k1.fail('%s:table-extra:%s:%s' % (g.crate, name, w), where[name],
                    '%s contains "%s", which is not reserved in "%s": a legal identifier would be rejected' % (name, w, label))
        for w in words:
            k1.inst('word:%s:%s' % (name, w))
    for sp, (label, _) in want.items():
        if sp not in seen_specs:
            k1.fail('%s:table-absent:%s' % (g.crate, label), '%s/src/keywords.rs' % g.crate, 'no keyword table for "%s"' % label)
    k1.floor('keyword_tables', len(tabs), 9)

    # ------------------------------------------------------------------ K2
    k2 = RuleResult('K2', 'begin_keywords / is_keyword dispatch: specifier -> Version variant -> table of the same name')
    bk = g.fns.get('begin_keywords')
    ik = g.fns.get('is_keyword')
    k2.exactly('begin_keywords_fn', 1 if bk else 0, 1)
    k2.exactly('is_keyword_fn', 1 if ik else 0, 1)
    pushed = {}
    if bk:
        ms = [n for n in sx.walk(bk.item['body']) if n.get('k') == 'match']
        k2.exactly('begin_keywords_match', len(ms), 1)
        where_bk = '%s/%s:%d' % (g.crate, bk.file, bk.line)
        value_form = False
        for m in ms:
            for arm in m['arms']:
                lit = sx.lit_str(arm['pat'].get('e')) if arm['pat'].get('k') == 'lit' else None
                if lit is None:
                    if arm['pat'].get('k') == 'wild':
                        # default arm must do nothing (no push)
                        if any(n.get('k') == 'mcall' and n['m'] == 'push' for n in sx.walk(arm['body'])) or \
                                any(n.get('k') == 'path' and n['p'].startswith('Version::') for n in sx.walk(arm['body'])):
                            k2.fail('%s:begin_keywords:default-arm' % g.crate, '%s/%s:%s' % (g.crate, bk.file, arm['l']),
                                    'begin_keywords: the catch-all arm must not select a version (found %s)' % sx.render(arm['body'])[:60])
                    continue
                vs = [n['p'] for n in sx.walk(arm['body']) if n.get('k') == 'path' and n['p'].startswith('Version::')]
                pushes = [n for n in sx.walk(arm['body']) if n.get('k') == 'mcall' and n['m'] == 'push']
                k2.inst('begin:%s' % lit, {'specifier': lit, 'selects': vs})
                if len(vs) != 1 or len(pushes) > 1:
                    k2.fail('%s:begin_keywords:arm:%s' % (g.crate, lit), '%s/%s:%s' % (g.crate, bk.file, arm['l']),
                            'begin_keywords("%s") must select exactly one Version (found %s)' % (lit, vs))
                    continue
                if not pushes:
                    value_form = True
                v = vs[0].split('::')[1]
                pushed[lit] = v
                okname = norm(v) == norm('ieee' + lit) or (lit == 'directive' and v == 'Directive')
                if not okname:
                    k2.fail('%s:begin_keywords:wrong-version:%s' % (g.crate, lit), '%s/%s:%s' % (g.crate, bk.file, arm['l']),
                            'begin_keywords("%s") selects Version::%s' % (lit, v))
        for sp in list(oracle['sets']) + ['directive']:
            if sp not in pushed:
                k2.fail('%s:begin_keywords:missing:%s' % (g.crate, sp), where_bk,
                        'begin_keywords has no arm for "%s": the directive would silently keep the previous keyword set' % sp)
        # the selected version is pushed exactly once, unconditionally
        all_pushes = [n for n in sx.walk(bk.item['body']) if n.get('k') == 'mcall' and n['m'] == 'push']
        cond_push = []

        def under_if(node, target, inside=False):
            if node is target:
                return inside
            if isinstance(node, dict):
                for k_, v_ in node.items():
                    if k_ in ('l', 'col', 'el'):
                        continue
                    ins = inside or (node.get('k') == 'if' and k_ in ('t', 'e'))
                    r_ = under_if(v_, target, ins)
                    if r_ is not None:
                        return r_
            elif isinstance(node, list):
                for x in node:
                    r_ = under_if(x, target, inside)
                    if r_ is not None:
                        return r_
            return None
        for pcall in all_pushes:
            if under_if(bk.item['body'], pcall):
                cond_push.append(pcall)
        k2.inst('push-unconditional', {'pushes': len(all_pushes), 'conditional': len(cond_push), 'value_form': value_form})
        if cond_push:
            k2.fail('%s:begin_keywords:conditional-push' % g.crate, '%s/%s:%s' % (g.crate, bk.file, cond_push[0].get('l')),
                    'begin_keywords pushes the selected version only under a condition (%s): a `begin_keywords region can then be opened '
                    'without a stack entry while `end_keywords always pops, so the region below is closed instead' % sx.render(cond_push[0])[:60])
        if value_form and len(all_pushes) != 1:
            k2.fail('%s:begin_keywords:push-count' % g.crate, where_bk, 'begin_keywords selects a version by value but pushes it %d times' % len(all_pushes))
    if ik:
        ms = [n for n in sx.walk(ik.item['body']) if n.get('k') == 'match']
        k2.exactly('is_keyword_match', len(ms), 1)
        for m in ms:
            if not sx.is_call(m['e'], 'current_version'):
                k2.fail('%s:is_keyword:scrutinee' % g.crate, '%s/%s:%d' % (g.crate, ik.file, ik.line),
                        'is_keyword must select the table from current_version() (found %s)' % sx.render(m['e'])[:60])
            for arm in m['arms']:
                pat = sx.render(arm['pat'])
                body = sx.render(arm['body'])
                k2.inst('table-of:%s' % pat, {'version': pat, 'table': body})
                if pat == 'None':
                    if body != 'KEYWORDS_1800_2017':
                        k2.fail('%s:is_keyword:default' % g.crate, '%s/%s:%s' % (g.crate, ik.file, arm['l']),
                                'with no `begin_keywords in force the IEEE 1800-2017 set applies; is_keyword uses %s' % body)
                    continue
                mm = re.match(r'^Some\(Version::(\w+)\)$', pat)
                if not mm or not body.startswith('KEYWORDS_'):
                    k2.fail('%s:is_keyword:arm:%s' % (g.crate, pat), '%s/%s:%s' % (g.crate, ik.file, arm['l']),
                            'is_keyword: unrecognised arm %s => %s (fail closed)' % (pat, body))
                    continue
                v = mm.group(1)
                if norm('ieee' + body[len('KEYWORDS_'):]) != norm(v) and not (v == 'Directive' and body == 'KEYWORDS_DIRECTIVE'):
                    k2.fail('%s:is_keyword:wrong-table:%s' % (g.crate, v), '%s/%s:%s' % (g.crate, ik.file, arm['l']),
                            'is_keyword: Version::%s selects %s' % (v, body))
        # the comparison is on the whole fragment
        cmp_ok = any(n.get('k') == 'binary' and n['op'] == '==' and 'fragment' in sx.render(n) for n in sx.walk(ik.item['body']))
        k2.inst('whole-lexeme-compare')
        if not cmp_ok:
            k2.fail('%s:is_keyword:compare' % g.crate, '%s/%s:%d' % (g.crate, ik.file, ik.line),
                    'is_keyword must compare the whole fragment with `==` against each table entry')
    k2.floor('dispatch_arms', k2.instances, 18)

    # ------------------------------------------------------------------ K3
    k3 = RuleResult('K3', 'version_specifier: one arm per specifier of the standard, keyword("S") paired with begin_keywords("S")')
    vsf = None
    for f in g.parsers():
        if f.out_ty and f.out_ty.get('p') == 'VersionSpecifier':
            vsf = f
    k3.exactly('version_specifier_fn', 1 if vsf else 0, 1)
    if vsf:
        seen = []
        for node in grammar.iter_ir(vsf.ir):
            if node['op'] == 'map' and node['p'].get('op') == 'lit':
                s_ = node['p']['text']
                calls = [n for n in sx.walk(node['f']) if sx.is_call(n, 'begin_keywords')]
                args = [sx.lit_str(c['args'][0]) for c in calls if c['args']]
                seen.append(s_)
                k3.inst('spec:%s' % s_, {'keyword': s_, 'begin_keywords': args})
                if node['p']['kind'] != 'keyword':
                    k3.fail('%s:version_specifier:not-keyword:%s' % (g.crate, s_), '%s/%s:%s' % (g.crate, vsf.file, node.get('l')),
                            'version specifier "%s" must be lexed with keyword()' % s_)
                if args != [s_]:
                    k3.fail('%s:version_specifier:mismatch:%s' % (g.crate, s_), '%s/%s:%s' % (g.crate, vsf.file, node.get('l')),
                            'version specifier "%s" switches the keyword set to %s' % (s_, args))
        for sp in oracle['sets']:
            if sp not in seen:
                k3.fail('%s:version_specifier:missing:%s' % (g.crate, sp), '%s/%s:%d' % (g.crate, vsf.file, vsf.line),
                        'version_specifier has no alternative for "%s"' % sp)
        for sp in seen:
            if sp not in oracle['sets']:
                k3.fail('%s:version_specifier:extra:%s' % (g.crate, sp), '%s/%s:%d' % (g.crate, vsf.file, vsf.line),
                        'version_specifier accepts "%s", which the standard does not define' % sp)

    # ------------------------------------------------------------------ K4
    k4 = RuleResult('K4', 'every SimpleIdentifier / CIdentifier lexer refuses reserved words, tested on the whole lexeme')
    for f in g.parsers():
        if f.tail[0] != 'ok':
            continue
        node = f.tail[2]
        if not (node.get('k') == 'struct' and node['p'] in ('SimpleIdentifier', 'CIdentifier')):
            continue
        k4.inst('ctor:%s' % f.name, {'constructor': f.name, 'node': node['p']})
        where_ = '%s/%s:%d' % (g.crate, f.file, f.line)
        binds = [s for s in f.stmts if s[0] == 'bind']
        lex = None
        if len(binds) == 1 and binds[0][3].get('op') in ('ws', 'no_ws') and binds[0][3]['p'].get('op') == 'ref':
            lex = g.fns[binds[0][3]['p']['name']]
        if lex is None:
            k4.fail('%s:%s:ident-shape' % (g.crate, f.name), where_, '%s builds %s but not from ws(<lexer>)/no_ws(<lexer>) (fail closed)' % (f.name, node['p']))
            continue
        if f.name in K4_EXEMPT:
            k4.notes.append('%s exempt: %s' % (f.name, K4_EXEMPT[f.name]))
            continue
        t = lex.tail
        ok = False
        if t[0] == 'ok' and len(t) > 3 and t[3].get('neg'):
            guard = t[3]['guard']
            if sx.is_call(guard, 'is_keyword') and len(guard['args']) == 1:
                x = sx.strip_ref(guard['args'][0])
                if sx.is_path(x) and sx.is_call(t[2], 'into_locate') and sx.is_path(t[2]['args'][0], x['p']):
                    ok = True
        if not ok:
            k4.fail('%s:%s:no-keyword-test' % (g.crate, lex.name), '%s/%s:%d' % (g.crate, lex.file, lex.line),
                    '%s (used by %s to build %s) does not refuse reserved words: expected `if is_keyword(&X) { Err(..) } else '
                    '{ Ok((s, into_locate(X))) }` on the whole lexeme X' % (lex.name, f.name, node['p']))
    k4.floor('identifier_constructors', k4.instances, 3)
    return [k1, k2, k3, k4]
