"""G16 — nesting discipline of the macro-argument lexer; G17 — escape discipline of string-shaped lexemes;
G18 — the preprocessor's partition of the text: the plain-text run stops exactly where a sibling alternative can start.

G22.  Comment lexemes  OPEN BODY CLOSE  (CLOSE optional for the one-line comment, which may end the text): the body is a
repetition of a negated character class plus guarded single characters.  IEEE 5.4: a one-line comment ends with the
newline, a block comment with */ .  Hence every character the body stops at is the first character of a closer; a closer
longer than one character needs a guarded chunk that lets the body continue when its first character is not followed by
the rest (`*` not before `/`); the first character of every closer is a stop character.  A body that stops at a character
which only sometimes starts a closer (a lone CR when the closers are CRLF and LF) ends the comment early: the rest of the
line is lexed as source text.

G18.  The preprocessor grammar cuts the text into  comment | string | escaped identifier | plain run | directive.  The plain
run is a repetition of a negated character class (plus special cases for single characters that only sometimes start a
sibling).  For "directive-free text passes unchanged and is rejected only when a string / comment is unterminated":
  * every character the class stops at is the first character of some sibling alternative (otherwise text containing it
    cannot be parsed at all), and every first character of a sibling is in the class (otherwise the run swallows the
    opening of a string / comment / directive and the partition is lost);
  * a special-case chunk `tag(c)` guarded by a negative look-ahead must exclude exactly the second characters of the
    siblings' two-character openers that start with c (`/` before `/` or `*`).

Both read the grammar IR of lexeme functions (functions of the parser crate that return a span / Locate and are built from
raw character-class lexers).  A lexeme's *parts* are the parsers it applies in order.

G17.  A string-shaped lexeme is  tag('"') INTERIOR tag('"').  The interior is a (possibly repeated / optional) choice of
chunks.  IEEE 1800-2017 5.9: a backslash escapes the next character, in particular \\" does not end the literal.  Hence
  * every chunk that is a negated character class must stop at the quote AND at the backslash (otherwise it swallows the
    backslash and the literal ends at an escaped quote);
  * every alternative that starts with a backslash must take the next character with it (a backslash taken alone leaves
    the escaped character to be read as ordinary text: after `\\\\` the closing quote is then read as escaped);
  * if the class stops at the backslash there must be an alternative that takes a backslash and any next character.
Roles: `string-literal` = the lexeme under the parser that builds StringLiteral (shared by the preprocessor partition and
the main grammar); `argument-string` = string chunks of the macro-argument lexer.

G16.  The lexeme under the parser that builds ActualArgument / DefaultText (role: argument lexer) is a repetition of
chunks: a negated class, a string, and one bracketed group per bracket kind.  22.5.1: "actual arguments ... may contain
commas inside matched pairs of (), [], {} and inside strings".  Hence
  * the top-level class stops at  , ( ) [ ] { } "  ;
  * there is a string alternative and a group for each of ( [ {, at top level and inside groups;
  * each group is  open INNER? close  with a matching pair, and INNER's class does NOT stop at the comma but does stop at
    the brackets and the quote, and has the same alternatives (recursively the same discipline).
Unrecognised shapes are UNDECIDED.
"""
from vlib import grammar, sx
from vlib.report import RuleResult

PAIRS = {'(': ')', '[': ']', '{': '}'}
CLASS_NEG = ('is_not', 'take_till', 'take_till1', 'none_of')


def parts_of(fn):
    """the parsers a lexeme applies, in order (binds flattened through seq)"""
    out = []
    for st in fn.stmts:
        if st[0] == 'bind':
            out += flat(st[3])
    if fn.tail and fn.tail[0] == 'apply':
        out += flat(fn.tail[1])
    return out


def flat(px):
    if px.get('op') == 'seq':
        r = []
        for p in px['parts']:
            r += flat(p)
        return r
    if px.get('op') in ('map', 'recognize'):
        return flat(px['p'])
    return [px]


def lit_of(px):
    if px.get('op') == 'lit' and px.get('kind') in ('tag', 'char'):
        return px['text']
    if px.get('op') == 'prim' and px.get('name') in ('tag', 'char') and px.get('args') and px['args'][0].get('k') == 'lit':
        return str(px['args'][0]['v'])
    return None


def neg_class(px):
    if px.get('op') == 'prim' and px.get('name') in CLASS_NEG and px.get('args') and px['args'][0].get('k') == 'lit' \
            and px['args'][0].get('t') in ('str', 'char'):
        return set(str(px['args'][0]['v']))
    return None


def chunks_of(px):
    """interior -> list of alternative chunks (through opt / many0 / many1)"""
    while px.get('op') in ('opt', 'many0', 'many1'):
        px = px['p']
    if px.get('op') == 'alt':
        return list(px['arms'])
    return [px]


def take_any(px):
    if px.get('op') == 'prim' and px.get('name') == 'take' and px.get('args') and px['args'][0].get('k') == 'lit':
        try:
            return int(px['args'][0]['v'])
        except (TypeError, ValueError):
            return None
    if px.get('op') == 'prim' and px.get('name') == 'anychar':
        return 1
    return None


def string_shape(g, fn):
    ps = parts_of(fn)
    if len(ps) == 3 and lit_of(ps[0]) == '"' and lit_of(ps[2]) == '"':
        return ps[1]
    if len(ps) == 2 and lit_of(ps[0]) == '"' and lit_of(ps[1]) == '"':
        return {'op': 'empty'}
    return None


def judge_string(g, fn, role, r, where):
    interior = string_shape(g, fn)
    key = '%s:%s:%s' % (g.crate, role, fn.name)
    r.inst(key, {'lexeme': fn.name, 'role': role, 'interior': grammar.show(interior)[:100] if interior.get('op') != 'empty' else ''})
    if interior.get('op') == 'empty':
        r.fail(key + ':no-interior', where, '%s accepts only the empty string literal' % fn.name)
        return
    chunks = chunks_of(interior)
    stops_bs = None
    generic = False
    und = []
    for ch in chunks:
        c = flat(ch)
        cls = neg_class(c[0]) if len(c) == 1 else None
        if cls is not None:
            r.inst()
            if '"' not in cls:
                r.fail(key + ':class-swallows-quote', where, '%s: the character class of the interior does not stop at the quote' % fn.name)
            stops_bs = ('\\' in cls) if stops_bs is None else (stops_bs and '\\' in cls)
            continue
        first = lit_of(c[0])
        if first is not None and first.startswith('\\'):
            r.inst()
            if len(first) == 1 and len(c) == 1:
                r.fail(key + ':escape-not-paired', where,
                       '%s: an alternative takes a backslash alone: the escaped character is then read as ordinary text, so after an escaped '
                       'backslash the closing quote is taken for an escaped quote (and after `\\"`-like input the literal ends early)' % fn.name)
            elif len(first) == 1 and len(c) == 2 and take_any(c[1]) == 1:
                generic = True
            elif len(first) >= 2 and len(c) == 1:
                pass        # a specific escape, e.g. backslash-newline: takes the escaped character with it
            else:
                und.append(grammar.show(ch)[:50])
            continue
        und.append(grammar.show(ch)[:50])
    if stops_bs is False:
        r.fail(key + ':escaped-quote-ends-string', where,
               '%s: the character class of the interior does not stop at the backslash, so a backslash is ordinary text and the literal ends at '
               'an escaped quote (5.9: \\" does not end a string literal)' % fn.name)
    elif stops_bs is True and not generic and not und:
        r.fail(key + ':no-escape-alternative', where, '%s: the interior stops at a backslash but no alternative takes a backslash together with any next character' % fn.name)
    for u in und:
        r.undecided(key + ':chunk', where, '%s: interior alternative `%s` is not a form the rule knows' % (fn.name, u))
    if stops_bs is None and not und:
        r.undecided(key + ':chunk', where, '%s: no negated character class in the interior' % fn.name)


def role_lexeme(g, node_name):
    """the lexeme function(s) applied (through ws/no_ws/map) by the parser(s) whose result constructs `node_name`"""
    out = []
    for f in g.parsers():
        if not f.tail or f.tail[0] != 'ok':
            continue
        node = f.tail[2]
        if not (isinstance(node, dict) and node.get('k') == 'struct' and node.get('p') == node_name):
            continue
        for st in f.stmts:
            if st[0] != 'bind':
                continue
            for n in grammar.iter_ir(st[3]):
                if n.get('op') == 'ref' and n['name'] in g.fns and g.fns[n['name']].lexeme:
                    out.append((f, g.fns[n['name']]))
    return out


def run_partition(ctx):
    from rules.g_alt import first_lits
    g = ctx.grammar
    r = RuleResult('G18', 'preprocessor partition: the plain-text run stops exactly at the first characters of its sibling alternatives')
    W = lambda fn: '%s/%s:%d' % (g.crate, fn.file, fn.line)
    runs = []
    for f in g.parsers():
        body = f.item.get('body')
        if body and any(n.get('k') == 'path' and n['p'] == 'SourceDescription::NotDirective' for n in __import__('vlib.sx', fromlist=['walk']).walk(body)):
            runs.append(f)
    r.exactly('plain_run_function(role: builds SourceDescription::NotDirective)', len(runs), 1)
    if len(runs) != 1:
        return r
    run = runs[0]
    hosts = []
    for f in g.parsers():
        ir = f.ir if f.ir is not None else (f.tail[1] if f.tail and f.tail[0] == 'apply' else None)
        if ir is None:
            continue
        for node in grammar.iter_ir(ir):
            if node.get('op') == 'alt' and any(a.get('op') == 'ref' and a['name'] == run.name for a in node['arms']):
                hosts.append((f, node))
    if len(hosts) != 1:
        r.undecided('%s:%s:host' % (g.crate, run.name), W(run), '%d ordered choices contain the plain run' % len(hosts))
        return r
    host, alt = hosts[0]
    firsts = set()
    for a in alt['arms']:
        if a.get('op') == 'ref' and a['name'] == run.name:
            continue
        fl = first_lits(a, g)
        if not fl:
            r.undecided('%s:%s:sibling-first' % (g.crate, host.name), W(host), 'first characters of alternative `%s` unknown' % grammar.show(a)[:40])
            return r
        firsts |= {t for _, t in fl}
        r.inst('%s:sibling:%s' % (host.name, grammar.show(a)[:30]), {'alternative': grammar.show(a)[:40], 'starts_with': sorted(t for _, t in fl)})
    first_chars = {t[0] for t in firsts if t}
    ps = parts_of(run)
    if len(ps) != 1 or ps[0].get('op') not in ('many1', 'many0'):
        r.undecided('%s:%s:shape' % (g.crate, run.name), W(run), 'the plain run is not a repetition of chunks')
        return r
    cls = None
    specials = {}
    unknown_chunk = False
    for ch in chunks_of(ps[0]):
        c = flat(ch) if ch.get('op') != 'terminated' else [ch]
        k = neg_class(c[0]) if len(c) == 1 else None
        if k is not None:
            cls = k if cls is None else (cls & k)
            continue
        if ch.get('op') == 'terminated' and lit_of(ch['p'] if ch['p'].get('op') != 'map' else ch['p']['p']) is not None:
            t = lit_of(ch['p'] if ch['p'].get('op') != 'map' else ch['p']['p'])
            q = ch['q']
            ex = None
            core = q['p'] if q.get('op') == 'peek' else q
            if core.get('op') == 'not':
                inner = core['p']
                if inner.get('op') == 'prim' and inner.get('name') == 'one_of' and inner['args'] and inner['args'][0].get('k') == 'lit':
                    ex = set(str(inner['args'][0]['v']))
                else:
                    arms = inner['arms'] if inner.get('op') == 'alt' else [inner]
                    ex = {lit_of(a) for a in arms}
            elif q.get('op') == 'peek' and core.get('op') == 'prim' and core.get('name') == 'none_of' and core['args'] and core['args'][0].get('k') == 'lit':
                ex = set(str(core['args'][0]['v']))      # (that this form fails at end of input is G15's finding)
            if ex is not None and None not in ex and len(t) == 1:
                specials[t] = ex
                continue
        r.undecided('%s:%s:chunk' % (g.crate, run.name), W(run), 'chunk `%s` of the plain run is not a class or a guarded single character' % grammar.show(ch)[:50])
        unknown_chunk = True
    if cls is None:
        r.undecided('%s:%s:class' % (g.crate, run.name), W(run), 'no negated character class in the plain run')
        return r
    key = '%s:%s' % (g.crate, run.name)
    r.inst(key + ':class', {'run': run.name, 'stops_at': ''.join(sorted(cls)), 'siblings_start_with': ''.join(sorted(first_chars))})
    for c_ in sorted(cls - first_chars):
        r.fail('%s:stop-without-sibling:%s' % (key, c_.encode('unicode_escape').decode()), W(run),
               '%s stops at %r but no sibling alternative of %s starts with it: directive-free text containing it is rejected' % (run.name, c_, host.name))
    for c_ in sorted(first_chars - cls):
        r.fail('%s:sibling-start-swallowed:%s' % (key, c_.encode('unicode_escape').decode()), W(run),
               '%s does not stop at %r, the first character of a sibling alternative of %s: the run swallows the opening of a %s' %
               (run.name, c_, host.name, {'"': 'string literal', '/': 'comment', '`': 'directive', '\\': 'escaped identifier'}.get(c_, 'sibling')))
    for t, ex in sorted(specials.items()):
        want = {x[1] for x in firsts if len(x) == 2 and x[0] == t}
        r.inst(key + ':special:' + t, {'character': t, 'not_followed_by': sorted(ex), 'sibling_openers': sorted(x for x in firsts if x.startswith(t))})
        for x in sorted(want - ex):
            r.fail('%s:special-too-wide:%s%s' % (key, t, x), W(run), '%s takes a lone %r even when it is followed by %r: the opening %r of a sibling is swallowed' % (run.name, t, x, t + x))
        for x in sorted(ex - want):
            r.fail('%s:special-too-narrow:%s%s' % (key, t, x), W(run), '%s refuses %r before %r although no sibling starts with %r: that text is rejected' % (run.name, t, x, t + x))
    # the escaped-identifier sibling ends only at white space (5.6.1): anything else it stops at exposes the rest of the
    # identifier (a backtick, a quote) to the other alternatives
    WS = set(' \t\r\n\x0c')
    _seen_esc = set()
    for _, lx in role_lexeme(g, 'EscapedIdentifier'):
        if lx.name in _seen_esc:
            continue
        _seen_esc.add(lx.name)
        ps_ = parts_of(lx)
        ekey = '%s:escaped-identifier:%s' % (g.crate, lx.name)
        if len(ps_) != 2 or lit_of(ps_[0]) != '\\':
            r.undecided(ekey + ':shape', W(lx), '%s is not backslash + one character class' % lx.name)
            continue
        body_ = ps_[1]
        while body_.get('op') in ('many1', 'opt', 'many0'):
            body_ = body_['p']
        stops = neg_class(body_)
        accepted = None
        if stops is None and body_.get('op') == 'prim' and body_.get('name') in ('take_while1', 'take_while', 'take_till1', 'take_till') and body_.get('args'):
            a0 = body_['args'][0]
            from rules.x_split import CHAR_PRED
            if a0.get('k') == 'closure' and a0['body'].get('k') == 'mcall' and a0['body']['m'] in CHAR_PRED and not a0['body']['args']:
                pred = CHAR_PRED[a0['body']['m']]
                univ = [chr(i) for i in range(1, 128)] + ['\u00e9', '\u3042']
                acc = {c for c in univ if pred(c)}
                if body_['name'].startswith('take_till'):
                    acc = set(univ) - acc
                accepted = acc
                stops = set(univ) - acc
        r.inst(ekey, {'lexeme': lx.name, 'stops_at': ''.join(sorted(stops)).encode('unicode_escape').decode()[:60] if stops is not None else None})
        if stops is None:
            r.undecided(ekey + ':class', W(lx), '%s: the character class after the backslash is not a literal set or a known character predicate' % lx.name)
            continue
        extra = sorted(stops - WS)
        if extra:
            r.fail('%s:stops-before-white-space' % ekey, W(lx),
                   '%s ends an escaped identifier at %s, which is not white space: the rest of the identifier is handed to the other alternatives of the partition '
                   '(a backtick in it becomes a macro usage, a quote opens a string) or, right after the backslash, nothing can parse' %
                   (lx.name, ', '.join(repr(c_) for c_ in extra[:5]) + (' ...' if len(extra) > 5 else '')))
        # 5.6.1: an escaped identifier ends at white space — at every character the trivia function of this grammar takes as a blank;
        # a blank the identifier runs past becomes part of its text, so the same identifier has another name at the end of a CR LF line
        from rules.g_struct import trivia_alphabet
        blanks = trivia_alphabet(g)
        need = (blanks or set()) | {' ', '\n'}
        past = sorted(need - stops)
        if past:
            r.fail('%s:runs-past-white-space:%s' % (ekey, '+'.join('%02x' % ord(c_) for c_ in past)), W(lx),
                   '%s does not end an escaped identifier at %s, which the trivia function takes as white space: that character becomes part of the identifier, so the leaf is longer than '
                   'the name and the same identifier differs between the end of a line (CR LF) and the middle of one' % (lx.name, ', '.join(repr(c_) for c_ in past)))
    multi = {x[0] for x in firsts if len(x) >= 2}
    single = {x[0] for x in firsts if len(x) == 1}
    for c_ in sorted((multi - single) & cls):
        if c_ not in specials and not unknown_chunk:
            r.fail('%s:lone-char-rejected:%s' % (key, c_), W(run), 'siblings start with %r only as part of a longer opener, %s stops at it, and there is no special case for a lone %r: such text is rejected' % (c_, run.name, c_))
    return r


def run_comments(ctx):
    g = ctx.grammar
    r = RuleResult('G22', 'comment lexemes: the body stops exactly where a closer starts, and continues past a partial closer')
    W = lambda fn: '%s/%s:%d' % (g.crate, fn.file, fn.line)
    n = 0
    for f in g.parsers():
        if not f.tail or f.tail[0] != 'ok' or not isinstance(f.tail[2], dict) or f.tail[2].get('k') != 'struct' or f.tail[2].get('p') != 'Comment':
            continue
        ps = parts_of(f)
        if len(ps) < 2 or lit_of(ps[0]) is None:
            continue
        n += 1
        key = '%s:%s' % (g.crate, f.name)
        opener = lit_of(ps[0])
        last = ps[-1]
        optional_close = last.get('op') == 'opt'
        core = last['p'] if optional_close else last
        arms = core['arms'] if core.get('op') == 'alt' else [core]
        closers = []
        for a in arms:
            if a.get('op') == 'prim' and a.get('name') == 'line_ending':
                closers += ['\n', '\r\n']          # nom's line_ending: LF or CR LF (not a lone CR)
            else:
                closers.append(lit_of(a))
        if None in closers or len(ps) != 3:
            # a closer searched by hand: the search must not have a fallback that accepts the rest of the input
            body_ast = f.item.get('body')
            finds = [n_ for n_ in sx.walk(body_ast) if n_.get('k') == 'mcall' and n_['m'] in ('find', 'position', 'rfind') and n_['args'] and sx.lit_str(sx.strip_ref(n_['args'][0]))]
            verdict = None
            for fd in finds:
                for n_ in sx.walk(body_ast):
                    if n_.get('k') == 'mcall' and n_['m'] in ('unwrap_or', 'unwrap_or_else', 'unwrap_or_default', 'map_or', 'map_or_else') and any(z is fd for z in sx.walk(n_['recv'])):
                        verdict = '.%s(..) on the search for %r' % (n_['m'], sx.lit_str(sx.strip_ref(fd['args'][0])))
                    if n_.get('k') == 'match' and any(z is fd for z in sx.walk(n_['e'])):
                        for arm in n_['arms']:
                            pt = sx.render(arm['pat']).replace(' ', '')
                            if pt in ('None', '_') and not any(sx.is_call(z, 'Err') or z.get('k') == 'try' for z in sx.walk(arm['body'])):
                                verdict = 'the `%s` arm of the search for %r yields `%s`' % (pt, sx.lit_str(sx.strip_ref(fd['args'][0])), sx.render(arm['body'])[:40])
            if verdict:
                r.fail(key + ':closer-optional', W(f), '%s looks for its closer by hand and has a fallback when it is missing (%s): an unterminated comment is accepted '
                       'and swallows the rest of the text instead of being a lexical fault' % (f.name, verdict))
            else:
                r.undecided(key + ':shape', W(f), '%s is not OPEN BODY CLOSE with literal closers' % f.name)
            continue
        cls = None
        guards = {}
        unknown = False
        for ch in chunks_of(ps[1]):
            k = neg_class(ch) if ch.get('op') == 'prim' else None
            if k is not None:
                cls = k if cls is None else (cls & k)
                continue
            if ch.get('op') == 'terminated' and lit_of(ch['p']) is not None and len(lit_of(ch['p'])) == 1:
                q = ch['q']
                core_q = q['p'] if q.get('op') == 'peek' else q
                if core_q.get('op') == 'not':
                    inner = core_q['p']
                    iarms = inner['arms'] if inner.get('op') == 'alt' else [inner]
                    ex = {lit_of(a) for a in iarms}
                    if None not in ex:
                        guards[lit_of(ch['p'])] = ex
                        continue
            # a guarded RUN of the closer's first character: `terminated(is_a("*"), peek(not(tag("/"))))`.  The run is taken greedily and the
            # guard is tested after it, so in `**/` the run includes the star of the closer, the guard fails, the chunk fails, the body ends
            # in front of the run and the closer does not match there: a properly closed comment is rejected
            if ch.get('op') == 'terminated':
                p_ = ch['p']
                while p_.get('op') in ('recognize', 'map'):
                    p_ = p_['p']
                run_cls = None
                if p_.get('op') == 'prim' and p_.get('name') in ('is_a', 'take_while1', 'take_while') and p_.get('args') and p_['args'][0].get('k') == 'lit' \
                        and p_['args'][0].get('t') in ('str', 'char'):
                    run_cls = set(str(p_['args'][0]['v']))
                elif p_.get('op') in ('many1', 'many0') and lit_of(p_['p']) is not None and len(lit_of(p_['p'])) == 1:
                    run_cls = {lit_of(p_['p'])}
                hit = sorted(c_[0] for c_ in closers if c_ and len(c_) > 1 and run_cls and c_[0] in run_cls)
                if hit:
                    r.fail('%s:greedy-run-before-closer:%s' % (key, hit[0].encode('unicode_escape').decode()), W(f),
                           '%s: the chunk `%s` takes a whole run of %r and tests its guard only after the run: when the run is directly followed by the rest of the closer (as in '
                           '`%s%s`) the run includes the %r of the closer, the guard fails, the body ends in front of the run and the closer does not match there — a properly '
                           'closed comment is rejected as unterminated' % (f.name, grammar.show(ch)[:60], hit[0], hit[0], [c_ for c_ in closers if c_ and c_[0] == hit[0]][0], hit[0]))
                    unknown = True
                    continue
            # a chunk that starts with the first character of a multi-character closer and then CONSUMES a further character (instead of
            # looking ahead) can eat the first character of the real closer: `**/`
            fl = flat(ch)
            core0 = fl[0] if fl else {}
            while core0.get('op') in ('recognize',):
                core0 = core0.get('p', {})
            first_ = lit_of(fl[0]) if fl else None
            if first_ is not None and len(first_) == 1 and any(c_ and c_[0] == first_ and len(c_) > 1 for c_ in closers) and len(fl) >= 2 \
                    and all(x.get('op') not in ('peek', 'not') for x in fl[1:]):
                r.fail('%s:partial-closer-consumes-next:%s' % (key, first_.encode('unicode_escape').decode()), W(f),
                       '%s: the chunk `%s` takes %r together with the following character: when that character is itself the %r of the closer (as in `%s%s`) the closer is '
                       'skipped and the comment runs on' % (f.name, grammar.show(ch)[:50], first_, first_, first_, [c_ for c_ in closers if c_][0]))
                unknown = True
                continue
            unknown = True
            r.undecided(key + ':chunk', W(f), '%s: body chunk `%s` is not a class or a guarded single character' % (f.name, grammar.show(ch)[:50]))
        r.inst(key, {'comment': f.name, 'opens_with': opener, 'closers': closers, 'closer_optional': optional_close,
                     'body_stops_at': ''.join(sorted(cls)).encode('unicode_escape').decode() if cls else None, 'guards': {k_: sorted(v) for k_, v in guards.items()}})
        if cls is None:
            if not unknown:
                r.undecided(key + ':class', W(f), '%s: no negated character class in the body' % f.name)
            continue
        firsts = {c[0] for c in closers if c}
        for c_ in sorted(cls - firsts):
            r.fail('%s:stops-without-closer:%s' % (key, c_.encode('unicode_escape').decode()), W(f),
                   '%s: the body stops at %r, which starts no closer (%s): the comment %s there' %
                   (f.name, c_, closers, 'ends' if optional_close else 'fails'))
        for c_ in sorted(firsts - cls):
            r.fail('%s:closer-swallowed:%s' % (key, c_.encode('unicode_escape').decode()), W(f), '%s: the body does not stop at %r, the first character of a closer: it runs past the end of the comment' % (f.name, c_))
        for c_ in sorted(cls & firsts):
            longer = [c for c in closers if c[0] == c_ and len(c) > 1]
            single = [c for c in closers if c == c_]
            if longer and not single:
                want = {c[1:] for c in longer}
                if c_ not in guards:
                    if not unknown:
                        r.fail('%s:partial-closer-ends-body:%s' % (key, c_.encode('unicode_escape').decode()), W(f),
                               '%s: the body stops at %r, which closes the comment only as part of %s; nothing lets the body continue when the rest does not follow, so a lone '
                               '%r ends the comment early and the remainder of the comment is lexed as source text' % (f.name, c_, longer, c_))
                elif guards[c_] != want:
                    r.fail('%s:guard-mismatch:%s' % (key, c_.encode('unicode_escape').decode()), W(f), '%s: a lone %r is taken unless followed by %s; the closers need %s' % (f.name, c_, sorted(guards[c_]), sorted(want)))
    r.floor('comment_lexemes', n, 2)
    return r


def run(ctx):
    g = ctx.grammar
    r16 = RuleResult('G16', 'macro-argument lexer: commas separate arguments only outside matched (), [], {} and strings')
    r17 = RuleResult('G17', 'string-shaped lexemes: a backslash takes the next character with it, an escaped quote does not end the literal')
    W = lambda fn: '%s/%s:%d' % (g.crate, fn.file, fn.line)

    # ---- G17 roles
    strs = role_lexeme(g, 'StringLiteral')
    seen = set()
    for _, lx in strs:
        if lx.name in seen:
            continue
        seen.add(lx.name)
        if string_shape(g, lx) is None:
            r17.undecided('%s:string-literal:%s:shape' % (g.crate, lx.name), W(lx), '%s is not of the form quote INTERIOR quote' % lx.name)
        else:
            judge_string(g, lx, 'string-literal', r17, W(lx))
    if not strs:
        r17.fail('anchor:string-literal-lexeme', '-', 'no lexeme under a parser building StringLiteral found (fail closed)')

    # ---- G16
    tops = {}
    for node in ('ActualArgument', 'DefaultText'):
        for f, lx in role_lexeme(g, node):
            tops.setdefault(lx.name, (lx, []))[1].append(node)
    if not tops:
        r16.fail('anchor:argument-lexer', '-', 'no lexeme under the parsers building ActualArgument / DefaultText found (fail closed)')
        return [r16, r17, run_partition(ctx), run_comments(ctx)]
    BR = set('()[]{}') | {'"'}

    def judge_level(lx, top, depth, visited):
        """lx: a chunk-repetition lexeme. top: True for the argument level, False inside brackets."""
        key = '%s:%s' % (g.crate, lx.name)
        if (lx.name, top) in visited:
            return
        visited.add((lx.name, top))
        ps = parts_of(lx)
        if len(ps) != 1 or ps[0].get('op') not in ('many1', 'many0'):
            r16.undecided(key + ':shape', W(lx), '%s is not a repetition of chunks' % lx.name)
            return
        chunks = chunks_of(ps[0])
        cls = None
        groups = {}
        has_str = False
        for ch in chunks:
            c = flat(ch)
            k = neg_class(c[0]) if len(c) == 1 else None
            if k is not None:
                cls = k if cls is None else (cls & k)
                continue
            if len(c) == 1 and c[0].get('op') == 'ref' and c[0]['name'] in g.fns:
                sub = g.fns[c[0]['name']]
                if string_shape(g, sub) is not None:
                    has_str = True
                    if sub.name not in seen:
                        seen.add(sub.name)
                        judge_string(g, sub, 'argument-string', r17, W(sub))
                    continue
                sp = parts_of(sub)
                if len(sp) in (2, 3) and lit_of(sp[0]) in PAIRS and lit_of(sp[-1]) is not None:
                    groups[lit_of(sp[0])] = sub
                    continue
            r16.undecided(key + ':chunk', W(lx), '%s: alternative `%s` is not a class, a string or a bracketed group' % (lx.name, grammar.show(ch)[:50]))
        r16.inst(key + (':top' if top else ':nested'), {'lexeme': lx.name, 'level': 'argument' if top else 'inside brackets',
                                                         'stops_at': ''.join(sorted(cls)) if cls else None, 'groups': sorted(groups), 'string': has_str})
        if cls is None:
            r16.undecided(key + ':class', W(lx), '%s: no negated character class among the chunks' % lx.name)
        else:
            for ch_ in sorted(BR - cls):
                r16.fail('%s:delimiter-not-stopped:%s' % (key, ch_), W(lx),
                         '%s: the plain-text chunk does not stop at `%s`, so %s' % (lx.name, ch_,
                                                                                  'a quote inside plain text is not lexed as a string' if ch_ == '"' else
                                                                                  'that bracket is swallowed as plain text and the matched-pair rule is not applied'))
            if top and ',' not in cls:
                r16.fail(key + ':comma-not-separator', W(lx), '%s: at argument level the plain-text chunk does not stop at the comma: arguments are not separated' % lx.name)
            if not top and ',' in cls:
                r16.fail(key + ':comma-splits-inside-brackets', W(lx),
                         '%s is used inside a bracketed group but its plain-text chunk stops at the comma: a comma inside matched brackets ends the group '
                         'content (22.5.1 allows commas inside matched pairs)' % lx.name)
        if not has_str:
            r16.fail(key + ':no-string-alternative', W(lx), '%s has no string alternative: commas and brackets inside a string literal are not protected' % lx.name)
        for op in PAIRS:
            if op not in groups:
                r16.fail('%s:group-missing:%s' % (key, op), W(lx), '%s has no bracketed-group alternative for `%s`' % (lx.name, op))
        for op, sub in sorted(groups.items()):
            sp = parts_of(sub)
            skey = '%s:%s' % (g.crate, sub.name)
            r16.inst(skey, {'group': sub.name, 'open': op, 'close': lit_of(sp[-1])})
            if lit_of(sp[-1]) != PAIRS[op]:
                r16.fail(skey + ':pair-mismatch', W(sub), '%s opens with `%s` and closes with `%s`' % (sub.name, op, lit_of(sp[-1])))
            if len(sp) == 2:
                r16.fail(skey + ':no-content', W(sub), '%s accepts only the empty group' % sub.name)
                continue
            inner = sp[1]
            while inner.get('op') in ('opt',):
                inner = inner['p']
            if inner.get('op') == 'ref' and inner['name'] in g.fns:
                judge_level(g.fns[inner['name']], False, depth + 1, visited)
            else:
                r16.undecided(skey + ':content', W(sub), '%s: group content `%s` is not a reference to a chunk lexeme' % (sub.name, grammar.show(inner)[:50]))

    visited = set()
    for name, (lx, nodes) in sorted(tops.items()):
        judge_level(lx, True, 0, visited)
    r16.floor('argument_lexer_levels', len(visited), 2)
    return [r16, r17, run_partition(ctx), run_comments(ctx)]
