"""G5 — reachability and coverage of the CST types; G8 — keyword literal names the variant."""
import re
from vlib import sx, grammar
from vlib.report import RuleResult

# parser functions that are deliberately unused (each carries #[allow(dead_code)] in the source;
# specialised copies are used instead)
UNREACHABLE_OK = {
    'array_identifier': 'dead_code: hierarchical_array_identifier / specialised identifiers are used instead',
    'covergroup_variable_identifier': 'dead_code: production not referenced by the implemented grammar',
    'formal_identifier': 'dead_code: formal_port_identifier is used instead',
    'data_type_or_implicit': 'dead_code: context-specialised copies data_type_or_implicit_* are used instead',
}
# node structs that are not productions of their own (the enum holds the hierarchical identifier directly)
UNBUILT_STRUCT_OK = {
    'ArrayIdentifier': 'built only by the dead_code parser array_identifier',
    'CovergroupVariableIdentifier': 'built only by the dead_code parser covergroup_variable_identifier',
    'FormalIdentifier': 'built only by the dead_code parser formal_identifier',
    'PsOrHierarchicalNetIdentifierHierarchical': 'enum variant holds HierarchicalNetIdentifier directly',
    'PsOrHierarchicalPropertyIdentifierHierarchical': 'enum variant holds HierarchicalPropertyIdentifier directly',
    'PsOrHierarchicalSequenceIdentifierHierarchical': 'enum variant holds HierarchicalSequenceIdentifier directly',
    'PsOrHierarchicalTfIdentifierHierarchical': 'enum variant holds HierarchicalTfIdentifier directly',
}
# G8 exceptions: keyword text -> variant name
KEYWORD_VARIANT_OK = {'$': 'Dollar', '1step': 'Step1'}


def camel(k):
    return ''.join(p[:1].upper() + p[1:] for p in re.split(r'[_\-]', k) if p)


def fn_refs(fn, g):
    """names of crate functions mentioned anywhere in the body"""
    out = set()
    for n in sx.walk(fn.item.get('body')):
        if n.get('k') == 'path' and n['p'] in g.fns:
            out.add(n['p'])
    return out


def reachable(g, entries):
    seen = set()
    todo = list(entries)
    while todo:
        n = todo.pop()
        if n in seen:
            continue
        seen.add(n)
        todo += [m for m in fn_refs(g.fns[n], g) if m not in seen]
    return seen


def entries_of(g):
    return sorted(f.name for f in g.parsers() if f.item['vis'] == 'pub')


def run(ctx):
    g = ctx.grammar
    nt = ctx.types
    res = RuleResult('G5', 'every production is reachable; every CST struct and enum variant is built by a reachable parser')
    ents = entries_of(g)
    res.floor('entry_points', len(ents), 1)
    R = reachable(g, ents)
    # 1. reachability of parser functions
    n_par = 0
    for f in g.parsers():
        if f.name in ents:
            continue
        n_par += 1
        res.inst('reach:' + f.name)
        if f.name not in R:
            has_allow = any(a['p'] == 'allow' and 'dead_code' in a['a'] for a in f.attr_full)
            if f.name in UNREACHABLE_OK and has_allow:
                res.notes.append('unreachable by design: %s (%s)' % (f.name, UNREACHABLE_OK[f.name]))
                continue
            res.fail('%s:unreachable:%s' % (g.crate, f.name), '%s/%s:%d' % (g.crate, f.file, f.line),
                     'parser `%s` is not reachable from any entry point (%s): the production it implements can never '
                     'be recognised' % (f.name, ', '.join(ents)))
    res.floor('parser_functions', n_par, 1180)
    # 2./3. constructor sites in reachable functions
    built_structs = {}
    built_variants = {}
    for name in R:
        f = g.fns[name]
        for n in sx.walk(f.item.get('body')):
            k = n.get('k')
            if k == 'struct':
                built_structs.setdefault(n['p'].split('::')[-1], []).append(name)
            elif k == 'path' and '::' in n['p']:
                segs = n['p'].split('::')
                if len(segs) >= 2 and segs[-2] in nt.enums:
                    built_variants.setdefault((segs[-2], segs[-1]), []).append(name)
    ns = nt.node_structs()
    for s, r in sorted(ns.items()):
        res.inst('struct:' + s)
        if s not in built_structs:
            if s in UNBUILT_STRUCT_OK:
                res.notes.append('struct never built by design: %s (%s)' % (s, UNBUILT_STRUCT_OK[s]))
                continue
            res.fail('%s:struct-never-built:%s' % (g.crate, s), '%s:%d' % (r['file'], r['line']),
                     'CST node struct `%s` is not constructed by any reachable parser: the production can never '
                     'appear in a tree' % s)
    nv = 0
    for e, r in sorted(nt.node_enums().items()):
        for v, payload in r['variants']:
            nv += 1
            res.inst('variant:%s::%s' % (e, v), {'variant': '%s::%s' % (e, v), 'built_in': built_variants.get((e, v), ['-'])[0]}
                     if nv % 200 == 1 else None)
            if (e, v) not in built_variants:
                res.fail('%s:variant-never-built:%s::%s' % (g.crate, e, v), '%s:%d' % (r['file'], r['line']),
                         'enum variant `%s::%s` is never constructed by a reachable parser: sources of that form are '
                         'classified under a sibling variant or rejected' % (e, v))
    res.floor('node_structs', len(ns), 840)
    res.floor('enum_variants', nv, 940)

    # ---------------------------------------------------------------- G8
    r8 = RuleResult('G8', 'keyword literal names the enum variant it is mapped to')
    for f in g.parsers():
        for node in grammar.iter_ir(f.ir):
            if node['op'] != 'map':
                continue
            p = node['p']
            if p['op'] != 'lit' or p['kind'] != 'keyword' or p['text'] is None:
                continue
            fn_ = node['f']
            if fn_.get('k') != 'closure':
                continue
            b = fn_['body']
            # E::V(Box::new(x))
            if not (b.get('k') == 'call' and sx.is_path(b['f']) and '::' in b['f']['p']):
                continue
            segs = b['f']['p'].split('::')
            if segs[-2] not in nt.enums:
                continue
            want = KEYWORD_VARIANT_OK.get(p['text'], camel(p['text']))
            norm = lambda x: re.sub('[^a-z0-9]', '', x.lower())
            r8.inst('%s:%s' % (f.name, p['text']), {'fn': f.name, 'keyword': p['text'], 'variant': b['f']['p']}
                    if r8.instances % 40 == 0 else None)
            if norm(segs[-1]) != norm(want):
                r8.fail('%s:%s:keyword-variant:%s' % (g.crate, f.name, p['text']),
                        '%s/%s:%s' % (g.crate, f.file, node.get('l')),
                        '%s: keyword "%s" is mapped to variant `%s`; expected `%s::%s` (the variant named after the '
                        'keyword)' % (f.name, p['text'], b['f']['p'], segs[-2], want))
    r8.floor('keyword_to_variant_arms', r8.instances, 80)
    # sibling productions `F` and `F_without_X` (the code's own naming): when both are ordered choices, the second offers exactly the
    # alternatives of the first minus those that X names — an alternative missing from only one of the two lists is accepted in one context
    # and rejected in the other (a directive that the preprocessor's list knows and the trivia list does not is a parse error between tokens)
    def _arm_refs(ir):
        if not isinstance(ir, dict) or ir.get('op') != 'alt':
            return None
        out = []
        for a_ in ir['arms']:
            while a_.get('op') in ('map', 'terminated', 'preceded'):
                a_ = a_['p']
            out.append(a_.get('name') if a_.get('op') == 'ref' else None)
        return out
    for w_ in sorted(g.fns):
        base_, sep_, x_ = w_.partition('_without_')
        if not sep_ or base_ not in g.fns:
            continue
        ra_, rb_ = _arm_refs(g.fns[base_].ir), _arm_refs(g.fns[w_].ir)
        if ra_ is None or rb_ is None or None in ra_ or None in rb_ or w_ in ra_:
            continue
        res.inst('sibling-list:%s' % w_, {'base': base_, 'excludes': x_})
        only_base = [r_ for r_ in ra_ if r_ not in rb_]
        only_wo = [r_ for r_ in rb_ if r_ not in ra_]
        stray = [r_ for r_ in only_base if x_ not in r_]
        if stray or only_wo:
            res.fail('%s:%s:sibling-list-differs' % (g.crate, w_), '%s/%s:%d' % (g.crate, g.fns[w_].file, g.fns[w_].line),
                     '%s must offer the alternatives of %s except those about `%s`; missing here: %s; only here: %s — the two contexts accept different sets of items' %
                     (w_, base_, x_, stray, only_wo))
    return [res, r8]
