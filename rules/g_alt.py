"""G6 — ordered choice: literal shadowing.  G7 — word terminals go through the boundary-checking helper."""
import re
from vlib import sx, grammar
from vlib.report import RuleResult

IDCH = re.compile(r'[A-Za-z0-9_]')
WORD = re.compile(r'^[A-Za-z_][A-Za-z0-9_$]*$')
BTWORD = re.compile(r'^`[A-Za-z_][A-Za-z0-9_]*$')

# G7a exceptions: identifier-shaped text deliberately lexed with symbol()/tag()
SYMBOL_WORD_OK = {
    'PATHPULSE$': 'specparam prefix: directly followed by terminal names without a boundary (A.2.4)',
}


def as_pure_lit(ir, g, depth=0):
    """(kind, text) when the parser is exactly one literal terminal (through map / single-step productions)."""
    op = ir.get('op')
    if op == 'lit' and ir['text'] is not None:
        return (ir['kind'], ir['text'])
    if op == 'map':
        return as_pure_lit(ir['p'], g, depth)
    if op == 'ref' and depth < 4:
        f = g.fns[ir['name']]
        if f.ir and f.ir.get('op') == 'seq' and f.ir.get('kind') == 'body' and len(f.ir['parts']) == 1 \
                and all(s[0] == 'bind' for s in f.stmts):
            return as_pure_lit(f.ir['parts'][0], g, depth + 1)
        if f.ir and f.ir.get('op') in ('lit', 'map'):
            return as_pure_lit(f.ir, g, depth + 1)
    return None


def nullable_quick(ir, g, seen):
    op = ir.get('op')
    if op in ('opt', 'many0', 'peek', 'not'):
        return True
    if op == 'prim':
        return ir['nullable']
    if op in ('map', 'ws', 'no_ws', 'many1'):
        return nullable_quick(ir['p'], g, seen)
    if op == 'seq':
        return all(nullable_quick(p, g, seen) for p in ir['parts'])
    if op == 'alt':
        return any(nullable_quick(p, g, seen) for p in ir['arms'])
    if op == 'ref':
        if ir['name'] in seen:
            return False
        return nullable_quick(g.fns[ir['name']].ir, g, seen | {ir['name']})
    if op in ('terminated', 'preceded'):
        return nullable_quick(ir['p'], g, seen) and nullable_quick(ir['q'], g, seen)
    return False


def first_lits(ir, g, seen=frozenset(), depth=0):
    """Set of (kind, text) one of which every successful match must start with; None = unknown."""
    op = ir.get('op')
    if op == 'lit':
        return {(ir['kind'], ir['text'])} if ir['text'] is not None else None
    if op in ('map', 'ws', 'no_ws', 'many1', 'all_consuming'):
        return first_lits(ir['p'], g, seen, depth)
    if op == 'wrap':
        return {('symbol', ir['open'])}
    if op == 'seq':
        for p in ir['parts']:
            if p.get('op') in ('peek', 'not'):
                continue
            if nullable_quick(p, g, frozenset()):
                return None
            return first_lits(p, g, seen, depth)
        return None
    if op in ('terminated',):
        return first_lits(ir['p'], g, seen, depth)
    if op == 'preceded':
        if ir['q'].get('op') in ('peek', 'not'):
            return first_lits(ir['p'], g, seen, depth)
        return first_lits(ir['q'], g, seen, depth)
    if op == 'list':
        return first_lits(ir['item'], g, seen, depth)
    if op == 'alt':
        out = set()
        for a in ir['arms']:
            f = first_lits(a, g, seen, depth)
            if f is None:
                return None
            out |= f
        return out
    if op == 'ref':
        if ir['name'] in seen or depth > 6:
            return None
        return first_lits(g.fns[ir['name']].ir, g, seen | {ir['name']}, depth + 1)
    return None


def flat_arms(ir):
    out = []
    for a in ir['arms']:
        if a.get('op') == 'alt':
            out += flat_arms(a)
        else:
            out.append(a)
    return out


def shadows(li, lj):
    """Does pure literal arm li=(kind,text) always succeed when input starts with lj's text?"""
    ki, ti = li
    kj, tj = lj
    if ki == 'tag_no_case':
        ti, tj = ti.lower(), tj.lower()
    if not tj.startswith(ti):
        return False
    if ki == 'keyword':
        rest = tj[len(ti):]
        if rest and IDCH.match(rest[0]):
            return False   # boundary check protects the longer word
    return True


def run(ctx):
    g = ctx.grammar
    r6 = RuleResult('G6', 'no alternative of an ordered choice is shadowed by an earlier literal alternative')
    n_alt = 0
    n_multi = 0
    for f in list(g.parsers()) + list(g.helpers()):
        seen_nodes = set()
        for node in grammar.iter_ir(f.ir):
            if node['op'] != 'alt' or id(node) in seen_nodes:
                continue
            arms = flat_arms(node)
            for sub in grammar.iter_ir(node):
                if sub['op'] == 'alt':
                    seen_nodes.add(id(sub))
            n_alt += 1
            pure = [as_pure_lit(a, g) for a in arms]
            firsts = None
            if sum(1 for p in pure if p) >= 1 and len(arms) >= 2:
                n_multi += 1
            for i, li in enumerate(pure):
                if li is None:
                    continue
                for j in range(i + 1, len(arms)):
                    fj = first_lits(arms[j], g)
                    if not fj:
                        continue
                    r6.inst('%s:%d:%d:%d' % (f.name, node.get('l') or 0, i, j),
                            {'fn': f.name, 'earlier': '%s("%s")' % li, 'later_starts_with': sorted('%s("%s")' % x for x in fj)[:4]}
                            if r6.instances % 300 == 0 else None)
                    dead = [x for x in fj if shadows(li, x)]
                    if dead and len(dead) == len(fj):
                        r6.fail('%s:%s:shadow:%s<%s' % (g.crate, f.name, li[1], sorted(x[1] for x in fj)[0]),
                                '%s/%s:%s' % (g.crate, f.file, arms[j].get('l')),
                                '%s: alternative #%d (%s) can never match: the earlier alternative #%d %s("%s") succeeds on '
                                'every input that starts with %s' %
                                (f.name, j + 1, grammar.show(arms[j])[:60], i + 1, li[0], li[1],
                                 ' / '.join('"%s"' % x[1] for x in sorted(fj))))
                    elif dead:
                        r6.notes.append('%s: alternative #%d partly shadowed by %s("%s") for %s (other branches stay live)'
                                        % (f.name, j + 1, li[0], li[1], sorted(x[1] for x in dead)))
    r6.floor('alt_sites', n_alt, 330)
    r6.floor('ordered_pairs_compared', r6.instances, 500)
    r6.counts['alts_with_literal_arms'] = n_multi
    # G6t: the same findings restricted to what the trivia function can reach (white space, comments, compiler directives
    # kept as trivia): a shadowed alternative there changes how trivia is delimited, i.e. what the parser sees around it
    from rules.g_cover import reachable
    from rules.g_struct import trivia_fn
    r6t = RuleResult('G6t', 'no alternative inside the trivia grammar (blanks, comments, directives kept as trivia) is shadowed by an earlier literal alternative')
    tf = trivia_fn(g)
    if tf is None:
        r6t.fail('anchor:trivia-function', '-', 'the trivia function (operand of many0 in ws) was not found (fail closed)')
    else:
        closure = reachable(g, [tf])
        r6t.counts['trivia_closure_functions'] = len(closure)
        for fn_ in sorted(closure):
            r6t.inst(fn_)
        r6t.findings = [f_ for f_ in r6.findings if f_.key.split(':')[2] in closure]
        import copy as _copy
        r6t.findings = [_copy.copy(f_) for f_ in r6t.findings]
        for f_ in r6t.findings:
            f_.rule = 'G6t'
            f_.key = 'G6t:' + f_.key.split(':', 1)[1]
        r6t.floor('trivia_closure_functions', len(closure), 20)

    # ------------------------------------------------------------------ G7
    r7 = RuleResult('G7', 'word terminals are lexed with a word-boundary check')
    n_sym = n_kw = 0
    for f in list(g.parsers()) + list(g.helpers()):
        lexeme = getattr(f, 'lexeme', False) or f.kind == 'helper'
        for node, look in grammar.iter_ir_ctx(f.ir):
            if node['op'] != 'lit' or node['text'] is None:
                continue
            t = node['text']
            if node['kind'] == 'keyword':
                n_kw += 1
                continue
            n_sym += 1
            # (a) identifier-shaped text through symbol()/tag() in grammar-level code
            if WORD.match(t) and len(t) >= 2 and not lexeme and not look:
                r7.inst('a:%s:%s' % (f.name, t))
                if t in SYMBOL_WORD_OK:
                    continue
                r7.fail('%s:%s:word-symbol:%s' % (g.crate, f.name, t), '%s/%s:%s' % (g.crate, f.file, node.get('l')),
                        '%s: the word "%s" is lexed with %s(), which has no word-boundary check: it also matches a '
                        'prefix of a longer identifier; use keyword()' % (f.name, t, node['kind']))
            # (b) handled below with protection context
    # constants of the crate (character-class strings)
    cvals = {}
    for fl_, fv_ in sx.crate_files(ctx.syn, g.crate).items():
        for mp_, it_ in sx.items_rec(fv_['items']):
            if it_['k'] == 'const' and sx.lit_str(it_.get('e')) is not None:
                cvals[it_['name']] = sx.lit_str(it_['e'])
    # the identifier-continuation alphabet: what the lexer under SimpleIdentifier accepts after the first character
    id_tail = set()
    for f_ in g.parsers():
        if f_.tail and f_.tail[0] == 'ok' and isinstance(f_.tail[2], dict) and f_.tail[2].get('k') == 'struct' and f_.tail[2].get('p') == 'SimpleIdentifier':
            for st_ in f_.stmts:
                if st_[0] == 'bind':
                    for n_ in grammar.iter_ir(st_[3]):
                        if n_.get('op') == 'ref' and n_['name'] in g.fns and g.fns[n_['name']].lexeme:
                            for m_ in sx.walk(g.fns[n_['name']].item['body']):
                                if sx.is_call(m_, 'is_a') and m_['args'] and sx.is_path(m_['args'][0]) and m_['args'][0]['p'] in cvals:
                                    id_tail |= set(cvals[m_['args'][0]['p']])
    def boundary_guard(q):
        """q is a non-consuming test that the next character is not an identifier character"""
        def covers(args):
            t_ = sx.render(args)
            cls_ = set(cvals[t_]) if t_ in cvals else (set(args[0]['v']) if isinstance(args, list) and len(args) == 1 and args[0].get('k') == 'lit' and args[0].get('t') == 'str' else None)
            return cls_ is not None and bool(id_tail) and id_tail <= cls_
        if q.get('op') == 'peek' and q['p'].get('op') == 'prim' and q['p']['name'] == 'none_of' and covers(q['p']['args']):
            return True
        if q.get('op') == 'not' and q['p'].get('op') == 'prim' and q['p']['name'] in ('one_of', 'is_a') and covers(q['p']['args']):
            return True
        if q.get('op') == 'peek' and q['p'].get('op') == 'not':
            return boundary_guard({'op': 'not', 'p': q['p']['p']})
        return False

    def walk_b(ir, look, prot, f):
        op = ir.get('op')
        if op == 'lit':
            t = ir['text']
            if look and t is not None and BTWORD.match(t) and ir['kind'] != 'keyword':
                r7.inst('b:%s:%s' % (f.name, t), {'fn': f.name, 'lookahead': t, 'boundary_protected': prot})
                if not prot:
                    r7.fail('%s:%s:lookahead-no-boundary:%s' % (g.crate, f.name, t),
                            '%s/%s:%s' % (g.crate, f.file, ir.get('l')),
                            '%s: look-ahead %s("%s") has no word-boundary test: it also fires on a longer macro name such '
                            'as %s_x, ending the branch body early' % (f.name, ir['kind'], t, t))
            return
        if op in ('peek', 'not'):
            walk_b(ir['p'], True, prot, f)
            return
        if op == 'all_consuming':
            walk_b(ir['p'], look, True, f)
            return
        if op == 'terminated':
            walk_b(ir['p'], look, prot or boundary_guard(ir['q']), f)
            walk_b(ir['q'], look, prot, f)
            return
        for k in ('p', 'q', 'a', 'b', 'sep', 'item', 'ir'):
            if k in ir and isinstance(ir[k], dict):
                walk_b(ir[k], look, prot, f)
        for k in ('arms', 'parts'):
            for x in ir.get(k, []):
                walk_b(x, look, prot, f)

    for f in list(g.parsers()):
        walk_b(f.ir, False, False, f)
    # (b') accepted boundary-aware forms: terminated(tag("`x"), peek/not(..ident chars..)) / keyword("x") after symbol("`")
    # (c) the keyword helper itself
    kw = g.fns.get('keyword')
    r7.exactly('keyword_helper', 1 if kw is not None and kw.kind == 'helper' else 0, 1)
    if kw is not None and kw.ir is not None:
        ok = False
        forms = []
        missing_chars = set()

        def class_of(args):
            t_ = sx.render(args)
            if t_ in cvals:
                return set(cvals[t_])
            if isinstance(args, list) and len(args) == 1 and args[0].get('k') == 'lit' and args[0].get('t') == 'str':
                return set(args[0]['v'])
            return None
        for node in grammar.iter_ir(kw.ir):
            if node['op'] == 'alt':
                arms = node['arms']
                good = []
                for a in arms:
                    if a['op'] == 'all_consuming':
                        good.append('all_consuming')
                    elif a['op'] == 'terminated' and a['q']['op'] in ('peek', 'not'):
                        inner = a['q']['p']
                        if a['q']['op'] == 'peek' and inner['op'] == 'not':
                            inner = inner['p']
                            neg = True
                        else:
                            neg = a['q']['op'] == 'not'
                        cls = class_of(inner.get('args')) if inner.get('op') == 'prim' else None
                        if cls is not None and ((not neg and a['q']['op'] == 'peek' and inner['name'] == 'none_of') or (neg and inner['name'] in ('one_of', 'is_a'))):
                            good.append('%s(%s)' % (inner['name'], sx.render(inner['args'])))
                            if id_tail:
                                missing_chars |= (id_tail - cls)
                        else:
                            good.append(None)
                    else:
                        good.append(None)
                forms = good
                ok = bool(good) and all(x is not None for x in good)
        if ok and missing_chars:
            r7.fail('%s:keyword:boundary-alphabet' % g.crate, '%s/%s:%d' % (g.crate, kw.file, kw.line),
                    'keyword(): the word-boundary test does not cover %s, which continue%s a simple identifier: a legal identifier that starts with a reserved word '
                    'followed by such a character (wire1, posedge$x) is cut after the keyword wherever the grammar tries that keyword first' %
                    (', '.join(repr(c_) for c_ in sorted(missing_chars)[:6]) + (' ...' if len(missing_chars) > 6 else ''), 's' if len(missing_chars) == 1 else ''))
        r7.inst('c:keyword-helper', {'fn': 'keyword', 'boundary_forms': forms})
        if not ok:
            r7.fail('%s:keyword:no-boundary' % g.crate, '%s/%s:%d' % (g.crate, kw.file, kw.line),
                    'keyword(): every success path must test the word boundary (accepted: all_consuming(..), '
                    'terminated(tag, peek(none_of(AZ09_))), terminated(tag, not(one_of|is_a(AZ09_)))); found %s' % forms)
        # AZ09_ must be the identifier alphabet
        consts = {}
        for fl, fv in sx.crate_files(ctx.syn, g.crate).items():
            for mp, it in sx.items_rec(fv['items']):
                if it['k'] == 'const' and it['name'] in ('AZ09_', 'AZ_', 'AZ09_DOLLAR'):
                    consts[it['name']] = sx.lit_str(it['e'])
        want = set('abcdefghijklmnopqrstuvwxyzABCDEFGHIJKLMNOPQRSTUVWXYZ0123456789_')
        r7.inst('c:AZ09_')
        if consts.get('AZ09_') is None or set(consts['AZ09_']) != want:
            r7.fail('%s:AZ09_:alphabet' % g.crate, '%s/src/keywords.rs' % g.crate,
                    'AZ09_ must be exactly the identifier alphabet [A-Za-z0-9_]; found %r' % consts.get('AZ09_'))
    r7.counts['symbol_sites'] = n_sym
    r7.counts['keyword_sites'] = n_kw
    r7.floor('keyword_sites', n_kw, 590)
    r7.floor('symbol_sites', n_sym, 790)
    return [r6, r6t, r7]
