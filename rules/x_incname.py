"""X21 — the file name of an `include is the operand without its delimiters, for every form of the directive.

The include arm derives a path from (a) the lexeme of a "..." literal, (b) the lexeme of a <...> literal, (c) the text a
macro expands to (`include `MACRO where the macro's text is a "file name" or a <file name>; the expansion may carry
white space around the quotes — the blank between the macro's body and a trailing comment, a trailing blank of the `define
line).  The derivation is a short chain of pure string operations (`trim`, `trim_matches(c)`, …, possibly inside a helper).
The rule evaluates that chain, as written in the source, over a small domain of representative operands and demands
that the result be exactly the name between the delimiters.  The chain is interpreted here, from the syntax tree; nothing
of the repository is executed.  Operations the interpreter does not know make the form UNDECIDED.

Necessary condition of C10: the file that is spliced is the one the directive names; a derivation that leaves a quote or a
blank in the name looks for (and fails on) another file.
"""
from vlib import sx
from vlib.report import RuleResult
from rules.x_pp import model, sq

WS = ' \t\n\r\x0b\x0c'


class Undecided(Exception):
    pass


class Raw:
    """marker: the operand text (lexeme or expansion)"""


def _forms(pp):
    """(fn, match node) for matches over IncludeCompilerDirective::<Form> in the preprocessor file"""
    out = []
    for name, f in pp.fns.items():
        for n in sx.walk(f['body']):
            if n.get('k') == 'match':
                pats = [a['pat'] for a in n['arms']]
                if any(p.get('k') == 'ts' and p['p'].startswith('IncludeCompilerDirective::') for p in pats):
                    out.append((f, n))
    return out


class Interp:
    def __init__(self, pp, raw):
        self.pp = pp
        self.raw = raw
        self.depth = 0

    def block(self, b, env):
        env = dict(env)
        stmts = b['stmts']
        for i, st in enumerate(stmts):
            last = i == len(stmts) - 1
            if st['k'] == 'let':
                ids = [x for x in sx.pat_idents(st['pat']) if x]
                if 'init' not in st:
                    continue
                if st['pat'].get('k') == 'ident':
                    try:
                        env[st['pat']['n']] = self.ev(st['init'], env)
                    except Undecided:
                        env[st['pat']['n']] = None          # opaque until used
                else:
                    for x in ids:
                        env[x] = None
                continue
            if st['k'] == 'expr':
                if last and not st.get('semi'):
                    return self.ev(st['e'], env)
                if st['e'].get('k') == 'return':
                    return self.ev(st['e']['e'], env)
                continue                                     # a statement executed for its effect (skip list bookkeeping)
            if st['k'] in ('macro', 'item', 'fn', 'use'):
                continue
            raise Undecided('statement %s' % st['k'])
        raise Undecided('block without a value')

    def ev(self, e, env):
        k = e.get('k')
        if k == 'lit' and e.get('t') in ('str', 'char'):
            return e['v']
        if k in ('ref', 'paren', 'deref') or (k == 'unary' and e.get('op') in ('*', '&')):
            return self.ev(e['e'], env)
        if k == 'path':
            if e['p'] in env:
                v = env[e['p']]
                if v is None:
                    raise Undecided('value of `%s`' % e['p'])
                return v
            raise Undecided('name `%s`' % e['p'])
        if k == 'block':
            return self.block(e, env)
        if k == 'mcall':
            m = e['m']
            if m == 'str' and len(e['args']) == 1:
                return self.raw                              # Locate::str(&s): the lexeme
            recv = self.ev(e['recv'], env)
            args = e['args']
            if isinstance(recv, tuple) and recv[0] == 'path':
                if m in ('into', 'clone', 'to_path_buf', 'to_owned', 'as_path', 'as_ref'):
                    return recv
                raise Undecided('`.%s(..)` on a path' % m)
            if not isinstance(recv, str):
                raise Undecided('receiver of `.%s(..)`' % m)
            if m in ('as_str', 'as_ref', 'to_string', 'to_owned', 'clone', 'borrow', 'deref'):
                return recv
            if m == 'into' and not args:
                return recv                                  # String/&str -> String/PathBuf: the same characters
            if m == 'trim' and not args:
                return recv.strip(WS)
            if m == 'trim_start' and not args:
                return recv.lstrip(WS)
            if m == 'trim_end' and not args:
                return recv.rstrip(WS)
            if m in ('trim_matches', 'trim_start_matches', 'trim_end_matches') and len(args) == 1:
                c = self.ev(args[0], env)
                if not isinstance(c, str) or not c:
                    raise Undecided('pattern of `.%s(..)`' % m)
                s = recv
                if m != 'trim_end_matches':
                    while s.startswith(c):
                        s = s[len(c):]
                if m != 'trim_start_matches':
                    while s.endswith(c):
                        s = s[:-len(c)]
                return s
            if m in ('starts_with', 'ends_with') and len(args) == 1:
                c = self.ev(args[0], env)
                if isinstance(c, str):
                    return recv.startswith(c) if m == 'starts_with' else recv.endswith(c)
                raise Undecided('pattern of `.%s(..)`' % m)
            if m == 'is_empty' and not args:
                return recv == ''
            if m == 'replace' and len(args) == 2:
                a, b = self.ev(args[0], env), self.ev(args[1], env)
                if isinstance(a, str) and isinstance(b, str) and a:
                    return recv.replace(a, b)
            raise Undecided('string operation `.%s(..)`' % m)
        if k == 'call' and sx.is_path(e['f']):
            f = e['f']['p']
            last = f.split('::')[-1]
            if f in ('PathBuf::from', 'Path::new', 'String::from', 'std::path::PathBuf::from') and len(e['args']) == 1:
                v = self.ev(e['args'][0], env)
                if isinstance(v, tuple):
                    return v
                return ('path', v) if 'Path' in f else v
            if last in self.pp.fns and '::' not in f and '(String,' in (self.pp.fns[last]['sig'].get('rets') or '').replace(' ', ''):
                return ('expansion',)                        # Option<(text, ..)> of the macro resolver
            if last in self.pp.fns and '::' not in f:
                fn = self.pp.fns[last]
                params = [sx.pat_idents(p['pat'])[0] for p in fn['sig']['params'] if p.get('k') == 'typed']
                if len(params) != len(e['args']):
                    raise Undecided('call of %s' % last)
                self.depth += 1
                if self.depth > 4:
                    raise Undecided('helper nesting')
                env2 = {}
                for p, a in zip(params, e['args']):
                    try:
                        env2[p] = self.ev(a, env)
                    except Undecided:
                        env2[p] = None
                v = self.block(fn['body'], env2)
                self.depth -= 1
                return v
            raise Undecided('call of %s' % f)
        if k == 'if' and e['c'].get('k') != 'let':
            c = self.ev(e['c'], env)
            if not isinstance(c, bool):
                raise Undecided('condition `%s`' % sq(e['c'])[:40])
            if c:
                return self.block(e['t'], env)
            if 'e' not in e:
                raise Undecided('`if` without `else` as a value')
            return self.ev(e['e'], env)
        if k == 'unary' and e.get('op') == '!':
            v = self.ev(e['e'], env)
            if isinstance(v, bool):
                return not v
            raise Undecided('negation of a non-boolean')
        if k == 'binary' and e.get('op') in ('&&', '||'):
            a, b = self.ev(e['l_'], env), self.ev(e['r'], env)
            if isinstance(a, bool) and isinstance(b, bool):
                return (a and b) if e['op'] == '&&' else (a or b)
            raise Undecided('boolean operands')
        if k == 'if' and e['c'].get('k') == 'let':
            # `if let Some((text, ..)) = <expansion>? { .. } else { .. }`: the branch that has the text
            src = e['c']['e']
            inner = src['e'] if src.get('k') == 'try' else src
            ids = sx.pat_idents(e['c']['pat'])
            try:
                scr = self.ev(src, env)
            except Undecided:
                scr = None
            if scr == ('expansion',) and ids and ids[0]:
                if True:
                    env2 = dict(env)
                    env2[ids[0]] = self.raw
                    for x in ids[1:]:
                        if x:
                            env2[x] = None
                    return self.block(e['t'], env2)
            raise Undecided('`if let` over %s' % sq(inner)[:40])
        if k == 'try':
            return self.ev(e['e'], env)
        if k == 'match':
            scr = self.ev(e['e'], env)
            if scr == ('expansion',):
                for arm in e['arms']:
                    pt = arm['pat']
                    if pt.get('k') == 'ts' and pt['p'].split('::')[-1] == 'Some':
                        ids = sx.pat_idents(pt)
                        if ids and ids[0]:
                            env2 = dict(env)
                            env2[ids[0]] = self.raw
                            for x in ids[1:]:
                                if x:
                                    env2[x] = None
                            return self.ev(arm['body'], env2)
            raise Undecided('match inside the derivation')
        raise Undecided('expression kind %s' % k)


FORMS = {
    # form -> (delimiter pairs the operand can have, white space around the operand possible?)
    'DoubleQuote': ((('"', '"'),), False),
    'AngleBracket': ((('<', '>'),), False),
    'TextMacroUsage': ((('"', '"'), ('<', '>')), True),      # the macro's text is either form of file name (22.4)
}
NAMES = ('a.svh', 'dir/b c.vh')


def run(ctx):
    pp = model(ctx)
    r = RuleResult('X21', 'the file name of an `include is the operand without its delimiters (and, for a macro operand, without the white space around them)')
    forms = _forms(pp)
    seen = 0
    for fn, m in forms:
        for arm in m['arms']:
            p = arm['pat']
            if p.get('k') != 'ts' or not p['p'].startswith('IncludeCompilerDirective::'):
                continue
            form = p['p'].split('::')[-1]
            key = 'sv-parser-pp:include-name:%s' % form
            where = pp.where(arm.get('l'))
            seen += 1
            r.inst(key)
            if form not in FORMS:
                r.undecided(key + ':form', where, 'form %s of the include directive is not known to the rule' % form)
                continue
            delims, ws = FORMS[form]
            pads = [('', '')] + ([(' ', ''), ('', ' '), ('', ' \n'), ('\t', '  ')] if ws else [])
            und = False
            for o, c in delims:
                bad = None
                try:
                    for name in NAMES:
                        for a, b in pads:
                            raw = a + o + name + c + b
                            body = arm['body'] if arm['body'].get('k') == 'block' else {'k': 'block', 'stmts': [{'k': 'expr', 'e': arm['body'], 'semi': False}]}
                            v = Interp(pp, raw).block(body, {})
                            got = v[1] if isinstance(v, tuple) else v
                            if got != name and bad is None:
                                bad = (raw, got)
                except Undecided as u:
                    if not und:
                        r.undecided(key + ':derivation', where, '%s form: the derivation of the file name uses %s, which the rule does not interpret' % (form, u))
                    und = True
                    continue
                if bad:
                    dk = 'quoted' if o == '"' else 'angle'
                    r.fail(key + ':name-not-bare' + ('' if len(delims) == 1 or dk == 'quoted' else ':' + dk), where,
                           '%s form: for the operand %r the derived file name is %r, not the name between the delimiters: the directive then looks for a file '
                           'that was not named (the order / kind of the trimming steps is wrong, or this kind of delimiter is not removed)' % (form, bad[0], bad[1]))
    r.counts['forms'] = seen
    r.floor('include_forms', seen, 3)
    return [r]
