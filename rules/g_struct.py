"""G0 helper shapes, G9 nullability, G10 strictness, G11 strict/incomplete siblings,
G12 token layering, G13 memo / recursion bookkeeping."""
import os
import re
from vlib import sx, grammar
from vlib.report import RuleResult
from rules.g_alt import as_pure_lit
from rules.g_cover import entries_of, reachable


def trivia_fn(g):
    """role: the parser that `ws` applies repeatedly after a token (operand of many0 in ws())"""
    wsf = g.fns.get('ws')
    role = None
    if wsf is not None and wsf.ir is not None:
        for node in grammar.iter_ir(wsf.ir):
            if node['op'] == 'many0' and node['p'].get('op') == 'ref':
                role = node['p']['name']
    return role


def lexeme_fn(f):
    return bool(getattr(f, 'lexeme', False))


# ------------------------------------------------------------------------- G0
def helper_shapes(ctx):
    """The grammar IR gives the helper functions of utils.rs a built-in meaning (ws = f then
    trivia, paren = "(" f ")", ..).  Check each helper's body against that meaning."""
    g = ctx.grammar
    r = RuleResult('G0', 'token / bracket helper bodies agree with the model used by the grammar rules')
    def consume_only(ir):
        """what the helper consumes, in order: conversions (`map`) and private sub-helpers (`inline`) are transparent"""
        if isinstance(ir, list):
            return [consume_only(x) for x in ir]
        if not isinstance(ir, dict):
            return ir
        if ir.get('op') in ('map', 'inline'):
            return consume_only(ir['p'])
        return {k: (consume_only(v) if k in ('p', 'q', 'arms', 'parts', 'item', 'sep', 'a', 'b') else v) for k, v in ir.items()}
    sh = lambda f: grammar.show(consume_only(f.ir)) if f and f.ir else None
    want = {
        'ws': ['body($f, many0(white_space))'],
        'no_ws': ['body($f)'],
        'triple': ['body($f, $g, $h)'],
        'symbol': ['body(ws(tag("$t")))'],
        'symbol_exact': ['body(no_ws(tag("$t")))'],
        'paren': ['body(symbol("("), $f, symbol(")"))'],
        'paren_exact': ['body(symbol("("), $f, symbol_exact(")"))'],
        'bracket': ['body(symbol("["), $f, symbol("]"))'],
        'brace': ['body(symbol("{"), $f, symbol("}"))'],
        'apostrophe_brace': ['body(symbol("\'{"), $f, symbol("}"))'],
    }
    for name, forms in want.items():
        f = g.fns.get(name)
        r.inst('shape:' + name, {'helper': name, 'ir': sh(f)})
        if f is None or f.kind != 'helper':
            r.fail('%s:helper-missing:%s' % (g.crate, name), '-', 'helper `%s` not found (role anchor missing: fail closed)' % name)
            continue
        if sh(f) not in forms:
            r.fail('%s:helper-shape:%s' % (g.crate, name), '%s/%s:%d' % (g.crate, f.file, f.line),
                   'helper `%s` is %s; the grammar model assumes %s' % (name, sh(f), ' or '.join(forms)))
    # keyword: consuming literal t, trivia kept (boundary checked by G7c)
    kw = g.fns.get('keyword')
    r.inst('shape:keyword', {'helper': 'keyword', 'ir': sh(kw)})
    if kw is None or not sh(kw).startswith('body(ws(alt(') or '$t' not in sh(kw):
        r.fail('%s:helper-shape:keyword' % g.crate, '-', 'helper `keyword` is %s; expected map(ws(alt(<tag(t) forms>)))' % sh(kw))
    else:
        for node in grammar.iter_ir(kw.ir):
            if node['op'] == 'lit' and (node.get('param') != 't' or node['kind'] != 'tag'):
                r.fail('%s:helper-shape:keyword-lit' % g.crate, '-', 'keyword(): literal other than tag(t) in its body')
    # the map closures of symbol/keyword wrap into Symbol/Keyword{nodes: x} (checked by G1 generic rule)
    r.floor('helpers', r.instances, 11)
    return r


# ------------------------------------------------------------------------- G9
def nullability(g):
    val = {f.name: False for f in g.parsers()}
    unknown = []

    def nl(ir):
        op = ir.get('op')
        if op == 'lit':
            return False
        if op == 'prim':
            return ir['nullable']
        if op in ('opt', 'many0', 'peek', 'not', 'fold_many0'):
            return True
        if op in ('map', 'ws', 'no_ws', 'all_consuming', 'many1', 'inline', 'recognize', 'cut', 'complete', 'consumed',
                  'into', 'value', 'verify', 'map_res', 'map_opt'):
            return nl(ir['p'])
        if op == 'seq':
            return all(nl(p) for p in ir['parts'])
        if op == 'alt':
            return any(nl(p) for p in ir['arms'])
        if op in ('terminated', 'preceded'):
            return nl(ir['p']) and nl(ir['q'])
        if op == 'delimited':
            return nl(ir['a']) and nl(ir['p']) and nl(ir['b'])
        if op == 'many_till':
            return nl(ir['q'])
        if op == 'wrap':
            return False
        if op == 'list':
            return nl(ir['item'])
        if op == 'ref':
            return val[ir['name']]
        if op == 'param':
            return False
        if op == 'closure':
            return nl(ir['ir'])
        unknown.append(ir)
        return False  # unknown: reported as undecided; not used to raise loop alarms

    changed = True
    while changed:
        changed = False
        for f in g.parsers():
            v = nl(f.ir)
            if v and not val[f.name]:
                val[f.name] = True
                changed = True
    return val, nl, unknown


def g9(ctx):
    g = ctx.grammar
    r = RuleResult('G9', 'no repetition over a parser that can succeed without consuming; item parsers are non-nullable')
    val, nl, unknown = nullability(g)
    r.counts['nullable_productions'] = sum(1 for v in val.values() if v)
    # literals are non-empty
    for f in list(g.parsers()) + list(g.helpers()):
        for node in grammar.iter_ir(f.ir):
            if node['op'] == 'lit' and node['text'] == '':
                r.fail('%s:%s:empty-literal' % (g.crate, f.name), '%s/%s:%s' % (g.crate, f.file, node.get('l')),
                       '%s: empty literal terminal' % f.name)
    n = 0
    for f in list(g.parsers()) + list(g.helpers()):
        for node in grammar.iter_ir(f.ir):
            op = node['op']
            operand = None
            if op in ('many0', 'many1', 'fold_many0'):
                operand = node['p']
            elif op == 'many_till':
                operand = node['p']
            elif op == 'list':
                operand = {'op': 'seq', 'kind': 'pair', 'parts': [node['sep'], node['item']]}
            if operand is None:
                continue
            n += 1
            isnull = nl(operand)
            r.inst('%s:%s:%d' % (f.name, op, n), {'fn': f.name, 'loop': op, 'operand': grammar.show(operand)[:80], 'nullable': isnull}
                   if n % 60 == 1 else None)
            if isnull:
                r.fail('%s:%s:nullable-loop:%s:%s' % (g.crate, f.name, op, grammar.show(operand)[:50]),
                       '%s/%s:%s' % (g.crate, f.file, node.get('l')),
                       '%s: %s over %s, which can succeed without consuming input: nom turns that into an error (many0/many1) '
                       'or an endless loop (list), so the production can never succeed there' %
                       (f.name, op, grammar.show(operand)[:80]))
    seen_u = set()
    for u in unknown:
        t_ = grammar.show(u)[:60]
        if t_ in seen_u:
            continue
        seen_u.add(t_)
        r.undecided('%s:unmodelled-nullability:%s' % (g.crate, t_[:40]), '-', 'nullability of `%s` is not decided (assumed non-nullable)' % t_)
    r.floor('repetition_sites', n, 300)
    r.notes.append('nullable productions: ' + ', '.join(sorted(k for k, v in val.items() if v))[:1500])
    return r


# ------------------------------------------------------------------------- G10 / G11
def entry_targets(g):
    """entry fn name -> the grammar function its body applies after init()"""
    out = {}
    for e in entries_of(g):
        f = g.fns[e]
        if f.tail[0] == 'apply' and f.tail[1].get('op') == 'ref':
            out[e] = f.tail[1]['name']
    return out


def relax(ir):
    """many_till(X, eof) -> many0(X), structurally"""
    if isinstance(ir, list):
        return [relax(x) for x in ir]
    if not isinstance(ir, dict):
        return ir
    if ir.get('op') == 'many_till' and ir['q'].get('op') == 'prim' and ir['q']['name'] == 'eof':
        return {'op': 'many0', 'p': relax(ir['p'])}
    return {k: (relax(v) if k in ('p', 'q', 'arms', 'parts', 'sep', 'item', 'a', 'b') else v) for k, v in ir.items()}


def g10_g11(ctx):
    g = ctx.grammar
    r = RuleResult('G10', 'strict entries demand end of input; both delimiters are mandatory; no optional closer')
    r11 = RuleResult('G11', 'incomplete entries are the strict ones with many_till(X, eof) relaxed to many0(X), built from total combinators')
    r21 = RuleResult('G21', 'an entry whose end-of-input check is imposed by its caller is total itself, so the error lies where its repetition stopped')
    tgt = entry_targets(g)
    ents = entries_of(g)
    r.exactly('entries_with_resolved_target', len(tgt), len(ents))
    pairs = [(e, e + '_incomplete') for e in ents if e + '_incomplete' in ents]
    r.floor('strict_incomplete_pairs', len(pairs), 2)
    strict_like = [e for e in ents if not e.endswith('_incomplete')]
    for e in strict_like:
        if e not in tgt:
            continue
        t = g.fns[tgt[e]]
        ir = t.ir
        last = ir['parts'][-1] if ir.get('op') == 'seq' and ir['parts'] else ir
        ok = (last.get('op') == 'many_till' and last['q'].get('op') == 'prim' and last['q']['name'] == 'eof') \
            or last.get('op') == 'all_consuming'
        has_pair = any(p[0] == e for p in pairs)
        r.inst('strict:' + e, {'entry': e, 'grammar_fn': t.name, 'ends_with': grammar.show(last)[:60]})
        if has_pair and not ok:
            r.fail('%s:%s:not-strict' % (g.crate, e), '%s/%s:%d' % (g.crate, t.file, t.line),
                   'strict entry `%s` (-> %s) does not end in many_till(ITEM, eof) / all_consuming: it can succeed before '
                   'the end of the input, silently dropping the rest' % (e, t.name))
        if not has_pair:
            # entry without an incomplete twin (pp_parser): every user must wrap it in all_consuming
            users = 0
            wrapped = 0
            for crate in ctx.syn['crates']:
                if crate == g.crate:
                    continue
                for fl, mp, fn, im in sx.crate_fns(ctx.syn, crate):
                    for n in sx.walk(fn.get('body')):
                        if n.get('k') == 'path' and n['p'].split('::')[-1] == e:
                            users += 1
                    for n in sx.walk(fn.get('body')):
                        if sx.is_call(n, 'all_consuming') and len(n['args']) == 1 and sx.path_last(n['args'][0]) == e:
                            wrapped += 1
            r.inst('strict-by-caller:' + e, {'entry': e, 'uses': users, 'wrapped_in_all_consuming': wrapped})
            if users and users == wrapped:
                # the caller turns "stopped before the end" into the error: its position is the start of the first item that
                # does not parse (never after the fault) only if the entry itself cannot fail
                parts_ = ir['parts'] if ir.get('op') == 'seq' else [ir]
                for p_ in parts_:
                    r21.inst('total:%s:%s' % (t.name, grammar.show(p_)[:30]), {'entry': e, 'grammar_fn': t.name, 'step': grammar.show(p_)[:60]})
                    if p_.get('op') not in ('many0', 'opt'):
                        r21.fail('%s:%s:not-total:%s' % (g.crate, t.name, grammar.show(p_)[:40]), '%s/%s:%s' % (g.crate, t.file, p_.get('l') or t.line),
                                 '`%s` (entry %s, made strict by all_consuming in its caller): top-level step %s can fail, so a lexical fault is reported at the '
                                 'deepest position reached inside the failing item — which can lie after the fault — instead of at the start of the first item '
                                 'that does not parse' % (t.name, e, grammar.show(p_)[:60]))
            if not ok and (users == 0 or users != wrapped):
                r.fail('%s:%s:caller-not-strict' % (g.crate, e), '-',
                       'entry `%s` does not demand end of input itself and %d of its %d uses are not wrapped in '
                       'all_consuming(..)' % (e, users - wrapped, users))
    # (c) no optional closing delimiter / block-closing keyword
    nopt = 0
    for f in list(g.parsers()):
        for node in grammar.iter_ir(f.ir):
            if node['op'] != 'opt':
                continue
            nopt += 1
            pl = as_pure_lit(node['p'], g)
            if pl is None:
                continue
            kind, text = pl
            closer = text in (')', ']', '}') or (kind == 'keyword' and re.match(r'^(end\w*|join\w*)$', text))
            r.inst('opt-lit:%s:%s' % (f.name, text))
            if closer:
                r.fail('%s:%s:optional-closer:%s' % (g.crate, f.name, text), '%s/%s:%s' % (g.crate, f.file, node.get('l')),
                       '%s: closing token "%s" is optional: a source with the closer deleted is still accepted' % (f.name, text))
    r.floor('opt_sites', nopt, 450)

    # G11
    for s_e, i_e in pairs:
        if s_e not in tgt or i_e not in tgt:
            continue
        sf, inf = g.fns[tgt[s_e]], g.fns[tgt[i_e]]
        a = grammar.show(relax(sf.ir))
        b = grammar.show(inf.ir)
        r11.inst('sibling:%s' % s_e, {'strict': sf.name, 'incomplete': inf.name, 'relaxed_strict': a[:100], 'incomplete_ir': b[:100]})
        if a != b:
            r11.fail('%s:%s:sibling-differs' % (g.crate, inf.name), '%s/%s:%d' % (g.crate, inf.file, inf.line),
                     '`%s` is not `%s` with many_till(X, eof) relaxed to many0(X): %s  vs  %s' % (inf.name, sf.name, b[:120], a[:120]))
        # same side effects (calls that are not parser applications): a reset / scope call present in one sibling only
        # makes the two modes start from different state
        eff_s = [sx.render(st[1]).replace(' ', '') for st in sf.stmts if st[0] == 'other']
        eff_i = [sx.render(st[1]).replace(' ', '') for st in inf.stmts if st[0] == 'other']
        r11.inst('sibling-effects:%s' % s_e, {'strict_effects': eff_s, 'incomplete_effects': eff_i})
        if eff_s != eff_i:
            r11.fail('%s:%s:sibling-effects-differ' % (g.crate, inf.name), '%s/%s:%d' % (g.crate, inf.file, inf.line),
                     '`%s` performs %s but its strict sibling `%s` performs %s: the two modes do not parse from the same state, so they '
                     'can return different trees for an input both accept' % (inf.name, eff_i or 'no effect', sf.name, eff_s or 'no effect'))
        # same node construction (modulo the dropped eof output)
        if sf.tail[0] == 'ok' and inf.tail[0] == 'ok':
            if sx.render(sf.tail[2]) != sx.render(inf.tail[2]):
                r11.fail('%s:%s:sibling-node-differs' % (g.crate, inf.name), '%s/%s:%d' % (g.crate, inf.file, inf.line),
                         '`%s` builds %s, `%s` builds %s' % (inf.name, sx.render(inf.tail[2])[:80], sf.name, sx.render(sf.tail[2])[:80]))
        # total combinators only
        parts = inf.ir['parts'] if inf.ir.get('op') == 'seq' else [inf.ir]
        for p in parts:
            r11.inst('total:%s:%s' % (inf.name, grammar.show(p)[:30]))
            if p.get('op') not in ('many0', 'opt'):
                r11.fail('%s:%s:not-total:%s' % (g.crate, inf.name, grammar.show(p)[:40]), '%s/%s:%s' % (g.crate, inf.file, p.get('l')),
                         '`%s`: top-level step %s can fail, so incomplete mode can report a parse error' % (inf.name, grammar.show(p)[:60]))
    # no Failure anywhere (a sub-parser cannot abort many0/opt/alt)
    nf = 0
    for fl, mp, fn, im in sx.crate_fns(ctx.syn, g.crate):
        for n in sx.walk(fn.get('body')):
            if (n.get('k') == 'path' and n['p'].endswith('Err::Failure')) or sx.is_call(n, 'cut'):
                nf += 1
                r11.fail('%s:%s:failure-raised' % (g.crate, fn['name']), '%s/%s:%s' % (g.crate, fl, n.get('l')),
                         '%s raises nom::Err::Failure / cut(): a Failure aborts many0/opt/alt, so incomplete mode can fail' % fn['name'])
    r11.inst('no-failure', {'Err::Failure_or_cut_sites': nf})
    r11.floor('sibling_pairs', len(pairs), 2)
    r21.floor('caller_strict_entries', len({k.split(':')[1] for k in r21.keys}), 1)
    return [r, r11, r21]


# ------------------------------------------------------------------------- G12
# functions allowed to use the no-trivia token family, with the reason
NO_TRIVIA_CONTEXT_OK = {
    'text_macro_name': '`define name: "(" must follow the macro name without blanks (22.5.1)',
    'text_macro_identifier_exact': '`define name chain',
    'identifier_exact': '`define name chain',
    'simple_identifier_exact': '`define name chain',
    'escaped_identifier_exact': '`define name chain',
    'paren_exact': 'helper of the `define formal list',
    'symbol_exact': 'helper',
    'fixed_point_number': 'interior of a real-number token',
    'fixed_point_number_exact': 'interior of a real-number token',
    'real_number_floating': 'interior of a real-number token',
    'unsigned_number_without_ws': 'interior of a real-number token',
    'unsigned_number_exact': 'interior of a number token',
    'time_literal_unsigned': 'number directly followed by its unit',
    'time_literal_fixed_point': 'number directly followed by its unit',
    'text_macro_definition': '`define name chain',
    'sign': 'sign of an exponent: interior of a real-number token',
    'exp': 'exponent letter: interior of a real-number token',
}


def g12(ctx):
    g = ctx.grammar
    r = RuleResult('G12', 'raw lexers only inside lexemes; trivia-less tokens only in the enumerated contexts')
    # (i) raw lexers
    nraw = 0
    ws_role = None
    wsf = g.fns.get('ws')
    if wsf is not None and wsf.ir is not None:
        for node in grammar.iter_ir(wsf.ir):
            if node['op'] == 'many0' and node['p'].get('op') == 'ref':
                ws_role = node['p']['name']
    r.exactly('trivia_function(role: operand of many0 in ws())', 1 if ws_role else 0, 1)
    inline_no_trivia = set()

    # the token vocabulary: literals that some symbol(..) / keyword(..) of the grammar reads as ONE token
    vocab = set()
    for f_ in g.parsers():
        if f_.ir is None:
            continue
        for node_ in grammar.iter_ir(f_.ir):
            if node_.get('op') == 'lit' and node_.get('kind') in ('symbol', 'keyword', 'symbol_exact'):
                vocab.add(node_.get('text'))

    def walk_raw(ir, look, tokdef, f, lex):
        nonlocal nraw
        op = ir.get('op')
        raw = (op == 'prim' and ir['consuming']) or (op == 'lit' and ir['kind'] in ('tag', 'tag_no_case'))
        if raw:
            nraw += 1
            r.inst('raw:%s:%s' % (f.name, grammar.show(ir)[:30]))
            # a raw look-ahead at grammar level sees the first characters of the NEXT token (trivia was consumed by the previous one): a
            # literal of several characters that is not one token of the vocabulary spans two tokens and fails as soon as trivia stands between them
            txt_ = ir.get('text') if op == 'lit' else None
            if look and not (lex or tokdef or f.name == ws_role) and txt_ and len(txt_) >= 2 and txt_ not in vocab and not txt_.startswith('`'):
                r.fail('%s:%s:lookahead-spans-tokens:%s' % (g.crate, f.name, txt_[:12]), '%s/%s:%s' % (g.crate, f.file, ir.get('l')),
                       '%s: the look-ahead %s tests the raw text %r, which is not a token of this grammar but several: with white space or a comment between them the '
                       'look-ahead fails, the alternative is abandoned and the same sentence is classified differently (or rejected) depending on its layout' %
                       (f.name, grammar.show(ir)[:40], txt_))
            if not (lex or look or tokdef or f.name == ws_role):
                r.fail('%s:%s:raw-lexer:%s' % (g.crate, f.name, grammar.show(ir)[:30]), '%s/%s:%s' % (g.crate, f.file, ir.get('l')),
                       '%s: raw lexer %s used at grammar level (outside a lexeme function, an inline token definition '
                       'map(<lexer>, into_locate..) or a look-ahead): the text it consumes is not a token of the tree' %
                       (f.name, grammar.show(ir)[:60]))
            return
        if op in ('peek', 'not'):
            walk_raw(ir['p'], True, tokdef, f, lex)
            return
        if op == 'map':
            fn_ = ir['f']
            is_tok = (fn_.get('k') == 'path' and fn_['p'] == 'into_locate') or \
                     (fn_.get('k') == 'closure' and any(sx.is_call(n, 'into_locate') for n in sx.walk(fn_['body'])))
            if is_tok and fn_.get('k') == 'closure' and any(n.get('k') == 'macro' and n['p'] == 'vec' for n in sx.walk(fn_['body'])):
                inline_no_trivia.add(f.name)
            walk_raw(ir['p'], look, tokdef or is_tok, f, lex)
            return
        for k in ('p', 'q', 'a', 'b', 'sep', 'item', 'ir'):
            if k in ir and isinstance(ir[k], dict):
                walk_raw(ir[k], look, tokdef, f, lex)
        for k in ('arms', 'parts'):
            for x in ir.get(k, []):
                walk_raw(x, look, tokdef, f, lex)

    def token_definition(f):
        """a function that IS a token definition written in bind form: every step is a raw lexer and the result is built from into_locate of what
        the steps returned (`let (s, x) = tag(".")(s)?; Ok((s, Symbol { nodes: (into_locate(x), vec![]) }))`)"""
        if not f.tail or f.tail[0] != 'ok' or not isinstance(f.tail[2], dict):
            return False
        binds_ = [st_ for st_ in f.stmts if st_[0] == 'bind']
        if not binds_ or len(binds_) != len(f.stmts):
            return False
        if not all(st_[3].get('op') in ('prim', 'lit') for st_ in binds_):
            return False
        bound_ = {x_ for st_ in binds_ for x_ in sx.pat_idents(st_[2]) if x_}
        locs_ = [n_ for n_ in sx.walk(f.tail[2]) if sx.is_call(n_, 'into_locate') and len(n_['args']) == 1 and sx.is_path(n_['args'][0]) and n_['args'][0]['p'] in bound_]
        return len(locs_) == len(bound_)
    for f in g.parsers():
        walk_raw(f.ir, False, token_definition(f), f, lexeme_fn(f))
    # (ii) trivia-less junctions: a step that ends in a token without trailing trivia, followed by another step
    ends = {f.name: False for f in g.parsers()}

    def ends_nt(ir):
        op = ir.get('op')
        if op == 'no_ws':
            return True
        if op == 'lit':
            return ir['kind'] in ('symbol_exact', 'tag', 'tag_no_case')
        if op == 'prim':
            return ir['consuming']
        if op == 'wrap':
            return ir['kind'] == 'paren_exact'
        if op == 'ws':
            return False
        if op == 'map':
            fn_ = ir['f']
            if fn_.get('k') == 'closure' and any(sx.is_call(n, 'into_locate') for n in sx.walk(fn_['body'])):
                return any(n.get('k') == 'macro' and n['p'] == 'vec' for n in sx.walk(fn_['body']))
            return ends_nt(ir['p'])
        if op in ('opt', 'many0', 'many1', 'inline', 'all_consuming', 'terminated'):
            return ends_nt(ir['p'])
        if op == 'preceded':
            return ends_nt(ir['p'])
        if op == 'seq':
            for p_ in reversed(ir['parts']):
                if p_.get('op') in ('peek', 'not'):
                    continue
                return ends_nt(p_)
            return False
        if op == 'alt':
            return any(ends_nt(a) for a in ir['arms'])
        if op == 'ref':
            return ends[ir['name']]
        if op == 'list':
            return ends_nt(ir['item'])
        if op == 'many_till':
            return ends_nt(ir['q']) or ends_nt(ir['p'])
        return False

    changed = True
    while changed:
        changed = False
        for f in g.parsers():
            if lexeme_fn(f):
                continue
            v = ends_nt(f.ir) or (f.tail[0] == 'ok' and any(n.get('k') == 'macro' and n['p'] == 'vec' for n in sx.walk(f.tail[2])))
            if v and not ends[f.name]:
                ends[f.name] = True
                changed = True
    junctions = {}
    for f in g.parsers():
        if lexeme_fn(f):
            continue
        for node in grammar.iter_ir(f.ir):
            if node['op'] != 'seq':
                continue
            parts = [p_ for p_ in node['parts'] if p_.get('op') not in ('peek', 'not')]
            for a, b in zip(parts, parts[1:]):
                if ends_nt(a):
                    junctions.setdefault(f.name, []).append('%s | %s' % (grammar.show(a)[:40], grammar.show(b)[:40]))
    fam = sorted(k for k, v in ends.items() if v)
    for name in sorted(junctions):
        f = g.fns[name]
        r.inst('junction:%s' % name, {'fn': name, 'no_trivia_between': junctions[name][:3]})
        if name not in NO_TRIVIA_CONTEXT_OK:
            r.fail('%s:%s:no-trivia-junction' % (g.crate, name), '%s/%s:%d' % (g.crate, f.file, f.line),
                   '%s joins two tokens without trivia in between (%s) outside the enumerated contexts (`define name chain, '
                   'number interiors, time_literal): blanks/comments are no longer accepted there' %
                   (name, '; '.join(junctions[name][:2])))
    # the inverse: where the standard makes two parts ONE token, the junction must be trivia-less.  A.8.4 footnote: "the unsigned number or
    # fixed-point number in time_literal shall not be followed by white space" — otherwise `#1.5 ns;` (a delay, then a call of a task
    # named ns) is swallowed as a time literal and the sentence is rejected.  Role: the functions that build TimeLiteral* nodes.
    for f in g.parsers():
        if lexeme_fn(f) or not f.tail or f.tail[0] != 'ok' or not isinstance(f.tail[2], dict):
            continue
        built = [n_.get('p') for n_ in sx.walk(f.tail[2]) if n_.get('k') == 'struct' and str(n_.get('p', '')).startswith('TimeLiteral')]
        if not built:
            continue
        binds_ = [st_ for st_ in f.stmts if st_[0] == 'bind']
        r.inst('required-junction:%s' % f.name, {'fn': f.name, 'builds': built[0]})
        if len(binds_) >= 2 and not ends_nt(binds_[0][3]):
            r.fail('%s:%s:trivia-inside-compound-token' % (g.crate, f.name), '%s/%s:%d' % (g.crate, f.file, f.line),
                   '%s builds %s from %s followed by the unit, and the number may be followed by white space or a comment: the standard makes the two ONE token (no white space '
                   'after the number), so a delay followed by an identifier named like a unit (`#1.5 ns;`) is now read as a time literal and the sentence is rejected' %
                   (f.name, built[0], grammar.show(binds_[0][3])[:40]))
    r.counts['productions_ending_without_trivia'] = len(fam)
    r.notes.append('productions ending in a trivia-less token: ' + ', '.join(fam))
    r.floor('raw_lexer_sites', nraw, 60)
    r.floor('no_trivia_junction_functions', len(junctions), 5)
    return r


# ------------------------------------------------------------------------- G13
def g13(ctx):
    g = ctx.grammar
    r = RuleResult('G13', 'memo keys (function names) are unique; recursion tracer capacity suffices')
    memo = [f for f in g.fns.values() if f.memo]
    names = {}
    # duplicates anywhere in the crate among free fns (g.fns keeps the last; g.dups lists the clash)
    for name, a, b in g.dups:
        fa = g.fns[name]
        if fa.memo:
            r.fail('%s:memo-key-clash:%s' % (g.crate, name), b, 'two functions named `%s` (%s, %s): #[packrat_parser] keys the memo by '
                   'the bare function name, so their results would be confused' % (name, a, b))
    for f in memo:
        r.inst('memo:' + f.name)
    r.floor('memoised_functions', len(memo), 1090)
    rec = sorted(f.name for f in g.fns.values() if f.recursive)
    cargo = open(os.path.join(ctx.root, g.crate, 'Cargo.toml')).read()
    m = re.search(r'nom-recursive\s*=\s*\{[^}]*features\s*=\s*\[([^\]]*)\]', cargo)
    feats = re.findall(r'"([^"]+)"', m.group(1)) if m else []
    words = 4 if 'tracer256' in feats else (2 if 'tracer128' in feats else 1)
    r.inst('recursive-capacity', {'recursive_parsers': len(rec), 'capacity': 64 * words, 'features': feats})
    r.counts['recursive_parsers'] = len(rec)
    if len(rec) > 64 * words:
        r.fail('%s:recursive-capacity' % g.crate, '%s/Cargo.toml' % g.crate,
               '%d #[recursive_parser] functions but nom-recursive is built with capacity %d: RecursiveIndexes::get panics '
               'once a thread has seen them all' % (len(rec), 64 * words))
    r.floor('recursive_parsers', len(rec), 80)
    return r


def run(ctx):
    return [helper_shapes(ctx), g9(ctx)] + g10_g11(ctx) + [g12(ctx), g13(ctx), g14(ctx), g15(ctx)]


# ------------------------------------------------------------------------- G14
IEEE_WHITE_SPACE = set(' \t\n\r\x0c')      # 1800-2017 5.3: spaces, tabs, newlines, formfeeds (and carriage return of CRLF)
NOM_CLASSES = {'space1': ' \t', 'space0': ' \t', 'multispace1': ' \t\r\n', 'multispace0': ' \t\r\n',
               'digit1': '0123456789', 'digit0': '0123456789', 'line_ending': '\r\n',
               'alpha1': 'abcdefghijklmnopqrstuvwxyzABCDEFGHIJKLMNOPQRSTUVWXYZ',
               'hex_digit1': '0123456789abcdefABCDEF'}


def trivia_alphabet(g):
    """characters the trivia function (the parser repeated by ws()) can consume as blanks, from its raw lexers; None if not derivable"""
    wsf = g.fns.get('ws')
    role = None
    if wsf is not None and wsf.ir is not None:
        for node in grammar.iter_ir(wsf.ir):
            if node['op'] == 'many0' and node['p'].get('op') == 'ref':
                role = node['p']['name']
    if role is None or role not in g.fns:
        return None
    acc = set()
    f = g.fns[role]
    if f.ir is None:
        return None
    for node, look in grammar.iter_ir_ctx(f.ir):
        if look or node['op'] != 'prim' or not node.get('consuming'):
            continue
        nm = node['name']
        if nm in NOM_CLASSES:
            acc |= set(NOM_CLASSES[nm])
        elif nm in ('is_a', 'one_of', 'char') and node['args'] and sx.lit_str(node['args'][0]) is not None:
            acc |= set(sx.lit_str(node['args'][0]))
        elif nm in ('is_a', 'one_of', 'char') and node['args'] and node['args'][0].get('k') == 'lit' and node['args'][0].get('t') == 'char':
            acc |= set(node['args'][0]['v'])
    return acc & set(' \t\n\r\x0c\x0b') or None


def g14(ctx):
    """Character classes of the raw lexers are statically known sets; the trivia function accepts only IEEE white space."""
    g = ctx.grammar
    r = RuleResult('G14', 'lexer character classes are statically known; trivia accepts exactly the IEEE 5.3 white-space characters')
    consts = {}
    for fl, fv in sx.crate_files(ctx.syn, g.crate).items():
        for mp, it in sx.items_rec(fv['items']):
            if it['k'] == 'const' and sx.lit_str(it['e']) is not None:
                consts[it['name']] = sx.lit_str(it['e'])

    def charset(node):
        """(set or None, description) for a prim node"""
        nm = node['name']
        if nm in NOM_CLASSES:
            return set(NOM_CLASSES[nm]), nm
        if nm in ('is_a', 'is_not', 'one_of', 'none_of', 'char'):
            a = node['args'][0] if node['args'] else None
            if a is None:
                return None, nm + '(?)'
            if sx.lit_str(a) is not None:
                return set(sx.lit_str(a)), '%s(%r)' % (nm, sx.lit_str(a))
            if a.get('k') == 'lit' and a.get('t') == 'char':
                return set(a['v']), '%s(%r)' % (nm, a['v'])
            if sx.is_path(a) and a['p'] in consts:
                return set(consts[a['p']]), '%s(%s)' % (nm, a['p'])
            return None, '%s(%s)' % (nm, sx.render(a)[:30])
        if nm in ('take', 'anychar', 'eof', 'success', 'rest'):
            return set(), nm
        return None, '%s(%s)' % (nm, sx.render(node['args'])[:30])
    n = 0
    for f in g.parsers():
        for node in grammar.iter_ir(f.ir):
            if node['op'] != 'prim':
                continue
            n += 1
            cs, desc = charset(node)
            r.inst('class:%s:%s' % (f.name, desc), {'fn': f.name, 'lexer': desc} if n % 25 == 1 else None)
            if cs is None:
                r.fail('%s:%s:unknown-char-class:%s' % (g.crate, f.name, node['name']), '%s/%s:%s' % (g.crate, f.file, node.get('l')),
                       '%s: the character class of %s is a predicate or expression, not a literal/constant set: which characters the lexer '
                       'accepts is not statically known (fail closed; e.g. char::is_whitespace also accepts U+000B, U+0085, U+00A0, U+2028)'
                       % (f.name, desc))
    # digit runs: a lexeme of the form  CLASS { "_" | CLASS' }  (numbers: A.8.7 "octal_digit { _ | octal_digit }") must continue with at least
    # the characters it may start with — a narrower continuation class ends the value in the middle of a literal, after an underscore
    for f in g.parsers():
        if not lexeme_fn(f) or f.ir is None or f.ir.get('op') != 'seq':
            continue
        parts_ = f.ir.get('parts', [])
        if len(parts_) != 2 or parts_[0].get('op') != 'prim' or parts_[1].get('op') not in ('many0', 'fold_many0', 'many1'):
            continue
        c0, d0 = charset(parts_[0])
        inner_ = parts_[1].get('p', {})
        arms_ = inner_.get('arms', []) if inner_.get('op') == 'alt' else [inner_]
        has_us = any((a_.get('op') == 'lit' and a_.get('text') == '_') or (a_.get('op') == 'prim' and a_['name'] == 'tag' and a_['args'] and sx.lit_str(a_['args'][0]) == '_') for a_ in arms_)
        cls_arms = [a_ for a_ in arms_ if a_.get('op') == 'prim' and a_['name'] not in ('tag',)]
        if not has_us or len(cls_arms) != 1 or parts_[0]['name'] in ('is_not', 'none_of') or cls_arms[0]['name'] in ('is_not', 'none_of'):
            continue
        c1, d1 = charset(cls_arms[0])
        if c0 is None or c1 is None:
            continue
        r.inst('digit-run:%s' % f.name, {'fn': f.name, 'first': d0, 'then': d1})
        lost = sorted(c0 - c1 - {'_'})
        if lost:
            r.fail('%s:%s:digit-run-continuation' % (g.crate, f.name), '%s/%s:%d' % (g.crate, f.file, f.line),
                   '%s starts a value with %s but continues it (after an underscore or the first run) only with %s: %s can begin the value and cannot continue it, so a literal such as '
                   '`%s_%s` ends after the underscore and the sentence is rejected' % (f.name, d0, d1, ''.join(lost)[:12], sorted(c0)[0], lost[-1]))
    # trivia role: what white_space itself (and the span-returning helpers it uses) accepts as blanks
    ws_role = None
    wsf = g.fns.get('ws')
    if wsf is not None and wsf.ir is not None:
        for node in grammar.iter_ir(wsf.ir):
            if node['op'] == 'many0' and node['p'].get('op') == 'ref':
                ws_role = node['p']['name']
    r.exactly('trivia_function', 1 if ws_role else 0, 1)
    if ws_role:
        seen = set()
        todo = [ws_role]
        accepted = set()
        unknown = []
        while todo:
            fn_ = todo.pop()
            if fn_ in seen:
                continue
            seen.add(fn_)
            f = g.fns[fn_]
            for node, look in grammar.iter_ir_ctx(f.ir):
                if look:
                    continue
                if node['op'] == 'prim' and node['consuming']:
                    cs, desc = charset(node)
                    if cs is None:
                        unknown.append(desc)
                    elif node['name'] in ('is_not', 'none_of'):
                        unknown.append(desc + ' (complement set)')
                    else:
                        accepted |= cs
                elif node['op'] == 'ref':
                    t = g.fns[node['name']]
                    out = t.out_ty
                    if out is not None and out.get('k') == 'path' and out['p'] in ('Span', 'Locate'):
                        todo.append(node['name'])
        r.inst('trivia-alphabet', {'function': ws_role, 'blank_characters': sorted(accepted), 'unknown': unknown})
        extra = sorted(accepted - IEEE_WHITE_SPACE)
        if extra or unknown:
            r.fail('%s:%s:trivia-alphabet' % (g.crate, ws_role), '%s/%s:%d' % (g.crate, g.fns[ws_role].file, g.fns[ws_role].line),
                   '%s accepts %s as blanks; IEEE 1800-2017 5.3 white space is space, tab, newline, formfeed: a byte that cannot start any '
                   'token would be swallowed as trivia instead of making the source be rejected' %
                   (ws_role, (['%r' % c for c in extra] + unknown)))
        # lower bound, per context: in either branch of the trivia function (inside / outside a directive) each of blank, tab, line feed
        # and carriage return must be consumable ON ITS OWN.  (`line_ending` takes "\n" and "\r\n" but not a lone "\r": a source with CR
        # line ends, or "\r\r\n" left by a doubled conversion, would then be rejected although only its trivia differs.)
        wf = g.fns[ws_role]
        branches = [('', wf.ir)]
        if wf.tail and wf.tail[0] == 'ifelse':
            branches = [('then-branch of `%s`' % sx.render(wf.tail[1])[:30], wf.tail[2]), ('else-branch of `%s`' % sx.render(wf.tail[1])[:30], wf.tail[3])]
        for bname, bir in branches:
            if not isinstance(bir, dict):
                continue
            alone = set()
            unk = False
            for node, look in grammar.iter_ir_ctx(bir):
                if look or node['op'] != 'prim' or not node['consuming']:
                    continue
                if node['name'] == 'line_ending':
                    alone.add('\n')
                    continue
                if node['name'] == 'tag':
                    a_ = node['args'][0] if node['args'] else None
                    if a_ is not None and sx.lit_str(a_) is not None and len(sx.lit_str(a_)) == 1:
                        alone.add(sx.lit_str(a_))
                    continue
                cs, desc = charset(node)
                if cs is None or node['name'] in ('is_not', 'none_of'):
                    unk = True
                else:
                    alone |= cs
            miss = sorted(set(' \t\n\r') - alone)
            r.inst('trivia-lower-bound:%s' % (bname or 'body'), {'context': bname, 'consumable_alone': sorted(alone)})
            if miss and not unk:
                r.fail('%s:%s:trivia-alphabet-incomplete:%s' % (g.crate, ws_role, '+'.join('%02x' % ord(c) for c in miss)),
                       '%s/%s:%d' % (g.crate, wf.file, wf.line),
                       '%s (%s) cannot consume %s on its own: white space that only differs in its line-end convention (CR, or CR CR LF after a doubled conversion) '
                       'or blank kind then changes whether the source is accepted' % (ws_role, bname or 'body', ['%r' % c for c in miss]))
    # complete input only: nom's `streaming` parsers answer Err::Incomplete at the end of the text, which alt / opt / many0 hand on instead of
    # treating as "no match" — a truncated text then fails (in incomplete mode: Error::Parse(None)) where the `complete` variant simply stops
    for fl_, fv_ in sx.crate_files(ctx.syn, g.crate).items():
        for mp_, it_ in sx.items_rec(fv_['items']):
            if it_['k'] == 'use' and '::streaming' in str(it_.get('tree', '')).replace(' ', ''):
                r.fail('%s:streaming-parser:%s' % (g.crate, fl_), '%s/%s:%s' % (g.crate, fl_, it_.get('l')),
                       '`use %s` brings streaming parsers into %s: at the end of the input they return Err::Incomplete, which the choice and repetition combinators do not absorb — '
                       'a text that ends inside such a token is an error in both modes' % (str(it_.get('tree'))[:60], fl_))
    for f in g.parsers():
        for n_ in sx.walk(f.item.get('body')):
            if n_.get('k') == 'path' and '::streaming::' in n_['p']:
                r.fail('%s:streaming-parser:%s' % (g.crate, f.name), '%s/%s:%s' % (g.crate, f.file, n_.get('l') or f.line),
                       '%s uses the streaming parser `%s` (Err::Incomplete at the end of the input is not absorbed by alt / opt / many0)' % (f.name, n_['p']))
    r.floor('raw_lexers', n, 45)
    return r


# ------------------------------------------------------------------------- G15
def g15(ctx):
    """In token-level code a boundary test written `peek(none_of(S))` requires a character to be present, so the token
    fails when it is the last thing in the input; it must stand beside an end-of-input alternative (all_consuming / eof)
    or be written `peek(not(one_of(S)))`.  (keyword() and directive_word() are the instances on the tree.)"""
    g = ctx.grammar
    r = RuleResult('G15', 'token-level negative look-ahead also succeeds at end of input')

    def presence_lookahead(q):
        """q = peek(<consuming single-char class test>) : fails at end of input"""
        return q.get('op') == 'peek' and q['p'].get('op') == 'prim' and q['p']['name'] in ('none_of', 'is_not', 'anychar', 'take')

    def scan(ir, f, eof_sibling):
        op = ir.get('op')
        if op == 'alt':
            has_eof = any(a.get('op') == 'all_consuming' or
                          (a.get('op') in ('terminated', 'seq') and any(x.get('op') == 'prim' and x['name'] == 'eof' for x in grammar.iter_ir(a)))
                          for a in ir['arms'])
            for a in ir['arms']:
                scan(a, f, has_eof)
            return
        if op == 'terminated' and presence_lookahead(ir['q']):
            r.inst('%s:%s' % (f.name, grammar.show(ir)[:50]), {'fn': f.name, 'token_then': grammar.show(ir['q'])[:40], 'eof_alternative': eof_sibling})
            if not eof_sibling:
                r.fail('%s:%s:lookahead-fails-at-eof:%s' % (g.crate, f.name, grammar.show(ir['p'])[:24]), '%s/%s:%s' % (g.crate, f.file, ir.get('l')),
                       '%s: %s followed by %s needs a next character: when the token is the last thing in the text (end of file, end of a '
                       'macro body) it fails although nothing forbidden follows; pair it with an end-of-input alternative or use '
                       'peek(not(one_of(..)))' % (f.name, grammar.show(ir['p'])[:40], grammar.show(ir['q'])[:40]))
        for k in ('p', 'q', 'a', 'b', 'sep', 'item', 'ir'):
            if k in ir and isinstance(ir[k], dict):
                scan(ir[k], f, False)
        for k in ('parts',):
            for x in ir.get(k, []):
                scan(x, f, False)
    n = 0
    for f in list(g.parsers()) + list(g.helpers()):
        if f.kind == 'helper' or lexeme_fn(f):
            n += 1
            if f.ir:
                scan(f.ir, f, False)
    r.floor('token_level_functions', n, 30)
    r.floor('boundary_lookaheads', r.instances, 2)
    return r
