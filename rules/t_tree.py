"""T1 RefNodes conversions, T2 derive-generated glue (on the macro-expanded crate), T3 Iter construction,
G4c merged Locate."""
from vlib import sx
from vlib.report import RuleResult

CRATE = 'sv-parser-syntaxtree'


def squash(s):
    return s.replace(' ', '')


def impls(items):
    for mp, it in sx.items_rec(items):
        if it['k'] == 'impl':
            yield it


def impl_fn(im, name):
    for f in im['items']:
        if f.get('k') == 'fn' and f['name'] == name:
            return f
    return None


# --------------------------------------------------------------------------- T1
def _append_order(fbody):
    """variables whose conversion is appended to / extended onto the result vector, in statement order; None if a
    statement touches the result in an unrecognised way"""
    appended = []
    for st in fbody['stmts']:
        for n in sx.walk(st):
            if n.get('k') == 'mcall' and n['m'] in ('append', 'extend') and len(n['args']) == 1:
                a = sx.strip_ref(n['args'][0])
                base = a
                while base.get('k') in ('field', 'mcall'):
                    base = base['e'] if base['k'] == 'field' else base['recv']
                base = sx.strip_ref(base)
                appended.append(sx.render(base))
    return appended


def judge_conversion(f, fns, depth=0):
    """(verdict, why) for a `from(x: &(..)|&Wrapper<..>) -> RefNodes` body whose argument has several fields:
    the fields must be destructured by name and appended each once in destructuring order (directly or through a private
    helper that does that)."""
    body = f['body']
    stmts = body['stmts']
    # delegation to a helper: a single call whose argument is x / &x.nodes
    if len(stmts) == 1 and stmts[0]['k'] == 'expr' and sx.is_call(stmts[0]['e']) and depth < 2:
        callee = stmts[0]['e']['f']['p'].split('::')[-1]
        h = fns.get(callee)
        if h is not None and len(stmts[0]['e']['args']) == 1 and squash(sx.render(stmts[0]['e']['args'][0])) in ('x', '&x.nodes'):
            return judge_conversion(h, fns, depth + 1)
    destruct = None
    for s_ in stmts:
        if s_['k'] == 'let' and s_['pat'].get('k') == 'tuple' and 'init' in s_:
            destruct = sx.pat_idents(s_['pat'])
    appended = _append_order(body)
    if destruct is None or None in (destruct or [None]):
        return 'undecided', 'fields are not destructured by name', destruct, appended
    if not appended:
        return 'undecided', 'no append/extend of the converted fields found', destruct, appended
    if appended == destruct:
        return 'ok', '', destruct, appended
    if sorted(appended) == sorted(destruct) or set(appended) <= set(destruct):
        return 'wrong', 'children are appended as %s; field order is %s' % (appended, destruct), destruct, appended
    return 'undecided', 'appended values %s are not the destructured fields %s' % (appended, destruct), destruct, appended


def t1(ctx):
    r = RuleResult('T1', 'RefNodes conversions enumerate children completely and in field order')
    files = sx.crate_files(ctx.syn, CRATE)
    an = files.get('src/any_node.rs')
    if an is None:
        r.fail('anchor:any_node.rs', '-', 'src/any_node.rs not found (fail closed)')
        return r
    free_fns = {it['name']: it for mp, it in sx.items_rec(an['items']) if it['k'] == 'fn'}
    n_tuple = 0
    seen_kinds = set()
    for im in impls(an['items']):
        if im.get('trait_path') != 'From' or not im['self_tys'].startswith('RefNodes'):
            continue
        f = impl_fn(im, 'from')
        if f is None:
            continue
        pty = f['sig']['params'][0]['ty']
        src = sx.render_ty(pty)
        where = '%s/src/any_node.rs:%d' % (CRATE, f['l'])
        body = f['body']['stmts']
        txt = [squash(sx.render(s)) for s in body]
        inner = pty['e'] if pty.get('k') == 'ref' else pty
        key = 'conv:' + src
        if inner.get('k') == 'tuple' or (inner.get('k') == 'path' and inner['p'] in ('Paren', 'Brace', 'Bracket', 'ApostropheBrace', 'List')):
            arity = len(inner['e']) if inner.get('k') == 'tuple' else (3 if inner['p'] != 'List' else 2)
            n_tuple += 1
            seen_kinds.add(inner['p'] if inner.get('k') == 'path' else 'tuple%d' % arity)
            verdict, why, destruct, appended = judge_conversion(f, free_fns)
            r.inst(key, {'conversion': src, 'verdict': verdict, 'fields': destruct, 'appended': appended})
            if verdict == 'ok' and len(destruct) != arity:
                verdict, why = 'wrong', '%d of the %d fields are converted' % (len(destruct), arity)
            if verdict == 'wrong':
                r.fail('%s:%s:order' % (CRATE, src), where,
                       'From<%s> for RefNodes: %s — iteration would visit children out of source order / drop or repeat one' % (src, why))
            elif verdict == 'undecided':
                r.undecided('%s:%s:shape' % (CRATE, src), where, 'From<%s> for RefNodes: %s' % (src, why))
        elif inner.get('k') == 'path' and inner['p'] == 'Vec' and inner.get('args') and inner['args'][0].get('k') == 'path' \
                and inner['args'][0]['p'] == 'RefNode':
            continue  # Vec<RefNode> -> RefNodes wrapper
        elif inner.get('k') == 'path' and inner['p'] == 'Vec':
            seen_kinds.add('Vec')
            loops = [n for n in sx.walk(f['body']) if n.get('k') == 'for']
            r.inst(key, {'conversion': src, 'loop_over': sx.render(loops[0]['e']) if loops else None})
            if len(loops) == 1 and '.rev()' in squash(sx.render(loops[0]['e'])):
                r.fail('%s:%s:vec' % (CRATE, src), where, 'From<&Vec<T>> for RefNodes iterates the vector in reverse')
            elif not (len(loops) == 1 and squash(sx.render(loops[0]['e'])) in ('x', 'x.iter()', '&x') and
                      _append_order(loops[0]['body']) == sx.pat_idents(loops[0]['pat'])):
                r.undecided('%s:%s:vec' % (CRATE, src), where, 'From<&Vec<T>> for RefNodes: %s' % ' '.join(txt)[:120])
        elif inner.get('k') == 'path' and inner['p'] == 'Option':
            seen_kinds.add('Option')
            r.inst(key, {'conversion': src})
            t_ = ' '.join(txt)
            ok = ('ifletSome(' in t_ or 'Some(' in t_) and '.into()' in t_
            if not ok:
                r.undecided('%s:%s:option' % (CRATE, src), where, 'From<&Option<T>> for RefNodes: %s' % t_[:120])
        elif inner.get('k') == 'path' and inner['p'] == 'Box':
            seen_kinds.add('Box')
            r.inst(key, {'conversion': src})
            t_ = ' '.join(txt)
            if '&**x' not in t_ or '.into()' not in t_:
                r.undecided('%s:%s:box' % (CRATE, src), where, 'From<&Box<T>> for RefNodes: %s' % t_[:120])
        elif inner.get('k') == 'path' and inner['p'] == 'Locate':
            seen_kinds.add('Locate')
            r.inst(key, {'conversion': src})
            if 'RefNode::Locate(x)' not in ' '.join(txt):
                r.undecided('%s:%s:locate' % (CRATE, src), where, 'From<&Locate> for RefNodes: %s' % ' '.join(txt)[:120])
        else:
            r.undecided('%s:%s:unknown-conversion' % (CRATE, src), where, 'From<%s> for RefNodes: conversion of an unmodelled shape' % src)
    need = {'Paren', 'Brace', 'Bracket', 'ApostropheBrace', 'List', 'Vec', 'Option', 'Box', 'Locate'}
    missing = sorted(k for k in need if k not in seen_kinds)
    for k in missing:
        r.fail('%s:conversion-missing:%s' % (CRATE, k), '-', 'no From<&%s> for RefNodes conversion found (fail closed)' % k)
    r.floor('tuple_and_wrapper_conversions', n_tuple, 14)
    return r


def iter_built(f, reversed_times, from_self):
    """The function returns Iter{next: V} where V is a child list (from self.into() when from_self, else the
    parameter) on which `.0.reverse()` is called exactly `reversed_times` times and nothing else is done."""
    lits = [n for n in sx.walk(f['body']) if n.get('k') == 'struct' and n['p'] == 'Iter']
    if len(lits) != 1 or len(lits[0]['fields']) != 1 or lits[0]['fields'][0]['n'] != 'next':
        return False
    v = lits[0]['fields'][0]['e']
    if not sx.is_path(v):
        return False
    v = v['p']
    revs = [n for n in sx.walk(f['body']) if n.get('k') == 'mcall' and n['m'] == 'reverse']
    if len(revs) != reversed_times:
        return False
    for n in revs:
        if squash(sx.render(n['recv'])) != v + '.0':
            return False
    stmts = f['body']['stmts']
    others = [s for s in stmts if not (s['k'] == 'expr' and (s['e'] in revs or s['e'] is lits[0]))]
    if from_self:
        if len(others) != 1 or others[0]['k'] != 'let' or sx.pat_idents(others[0]['pat']) != [v] \
                or squash(sx.render(others[0].get('init'))) != 'self.into()':
            return False
    else:
        if others:
            return False
    # order: reverse before construction
    return stmts[-1]['k'] == 'expr' and stmts[-1]['e'] is lits[0]


# --------------------------------------------------------------------------- T2 / T3 / G4c
def t2(ctx):
    nt = ctx.types
    r = RuleResult('T2', 'derive-generated glue is uniform for every node type (macro-expanded source)')
    r3 = RuleResult('T3', 'Iter is constructed reversed exactly at the known sites')
    r4 = RuleResult('G4c', 'Locate merged over a node keeps the first leaf offset/line and sums lengths')
    exp = ctx.exp
    node_names = set(nt.node_structs()) | set(nt.node_enums())
    by = {}  # (trait, selfty) -> impl
    iter_sites = []
    for im in impls(exp['items']):
        tp = (im.get('trait_path') or '').split('::')[-1]
        by.setdefault((tp, squash(im['self_tys'])), []).append(im)
        for f in im['items']:
            if f.get('k') != 'fn':
                continue
            for n in sx.walk(f['body']):
                if n.get('k') == 'struct' and n['p'] == 'Iter':
                    iter_sites.append((im, f, n))
    n_ok = 0
    for name in sorted(node_names):
        is_enum = name in nt.enums
        rec = nt.enums[name] if is_enum else nt.structs[name]
        where = '%s:%d' % (rec['file'], rec['line'])
        # --- Node::next
        im = by.get(('Node', name), [])
        r.inst('next:' + name, {'type': name, 'kind': 'enum' if is_enum else 'struct'} if n_ok % 300 == 0 else None)
        if len(im) != 1:
            r.fail('%s:%s:node-impl' % (CRATE, name), where, 'expected exactly one `impl Node for %s` in the expansion, found %d' % (name, len(im)))
            continue
        f = impl_fn(im[0], 'next')
        body = f['body']['stmts']
        txt = squash(sx.render(body[0])) if len(body) == 1 else None
        if not is_enum:
            if txt != '&self.nodes.into()' and txt != '(&self.nodes).into()' and txt != '&(self.nodes).into()':
                # render() drops parentheses: (&(self.nodes)).into() renders as "&self.nodes.into()"
                r.fail('%s:%s:next' % (CRATE, name), where, 'Node::next of struct %s must be (&self.nodes).into(); found %s' % (name, txt))
            else:
                e = body[0]['e']
                if not (e.get('k') == 'mcall' and e['m'] == 'into' and e['recv'].get('k') == 'ref'):
                    r.fail('%s:%s:next' % (CRATE, name), where, 'Node::next of struct %s must convert a reference to the whole `nodes` tuple' % name)
        else:
            m = body[0]['e'] if len(body) == 1 and body[0]['k'] == 'expr' else None
            if m is None or m.get('k') != 'match' or not sx.is_path(m['e'], 'self'):
                r.fail('%s:%s:next' % (CRATE, name), where, 'Node::next of enum %s must be a match on self' % name)
            else:
                arms = {}
                for a in m['arms']:
                    p = a['pat']
                    if p.get('k') == 'ts' and len(p['e']) == 1 and p['e'][0].get('k') == 'ident':
                        v = p['p'].split('::')[-1]
                        b = squash(sx.render(a['body']))
                        arms[v] = (p['e'][0]['n'], b)
                    else:
                        arms[sx.render(p)] = (None, None)
                want = [v for v, _ in rec['variants']]
                if sorted(arms) != sorted(want):
                    r.fail('%s:%s:next-arms' % (CRATE, name), where,
                           'Node::next of enum %s has arms %s, variants are %s' % (name, sorted(arms)[:6], sorted(want)[:6]))
                for v, (x, b) in arms.items():
                    if x is not None and b not in ('{%s.into()}' % x, '%s.into()' % x):
                        r.fail('%s:%s:next-arm:%s' % (CRATE, name, v), where, 'Node::next of %s::%s must be x.into(); found %s' % (name, v, b))
        # --- From<&N> for RefNodes : the node itself, once
        ims = [i for i in by.get(('From', "RefNodes<'a>"), []) if squash(sx.render_ty(i['items'][-1]['sig']['params'][0]['ty'])) == "&" + name] \
            if False else None
        n_ok += 1
    # From<&'a N> for RefNodes / RefNode, IntoIterator for &N, TryFrom<&N> for Locate — index by parameter type
    conv = {}
    for (tp, st), lst in by.items():
        for im in lst:
            for f in im['items']:
                if f.get('k') != 'fn' or not f['sig']['params'] or f['sig']['params'][0].get('k') != 'typed':
                    continue
                pty = squash(sx.render_ty(f['sig']['params'][0]['ty']))
                conv.setdefault((tp, st, f['name'], pty), []).append(f)
    for name in sorted(node_names):
        rec = nt.enums.get(name) or nt.structs[name]
        where = '%s:%d' % (rec['file'], rec['line'])
        # From<&N> for RefNodes
        fs = conv.get(('From', "RefNodes<'a>", 'from', '&' + name), [])
        r.inst('refnodes:' + name)
        if len(fs) != 1:
            r.fail('%s:%s:into-refnodes' % (CRATE, name), where, 'expected one From<&%s> for RefNodes, found %d' % (name, len(fs)))
        else:
            vs = [n['f']['p'] for n in sx.walk(fs[0]['body']) if n.get('k') == 'call' and sx.is_path(n['f']) and n['f']['p'].startswith('RefNode::')]
            arr = [n for n in sx.walk(fs[0]['body']) if n.get('k') == 'array']
            if vs != ['RefNode::' + name] or len(arr) != 1 or len(arr[0]['e']) != 1:
                r.fail('%s:%s:into-refnodes' % (CRATE, name), where, 'From<&%s> for RefNodes must be the one-element list [RefNode::%s(x)]; found %s' % (name, name, vs))
        # From<&N> for RefNode
        fs = conv.get(('From', "RefNode<'a>", 'from', '&' + name), [])
        r.inst('refnode:' + name)
        if len(fs) != 1 or squash(sx.render(fs[0]['body']['stmts'][0])) != 'RefNode::%s(x)' % name:
            r.fail('%s:%s:into-refnode' % (CRATE, name), where, 'From<&%s> for RefNode must be RefNode::%s(x)' % (name, name))
        # From<N> for AnyNode
        fs = conv.get(('From', 'AnyNode', 'from', name), [])
        r.inst('anynode:' + name)
        if len(fs) != 1 or squash(sx.render(fs[0]['body']['stmts'][0])) != 'AnyNode::%s(x)' % name:
            r.fail('%s:%s:into-anynode' % (CRATE, name), where, 'From<%s> for AnyNode must be AnyNode::%s(x)' % (name, name))
    # IntoIterator for &N and TryFrom<&N> for Locate  (three verdicts; one finding per distinct generated shape)
    iter_new = None
    for im in impls(exp['items']):
        if not im.get('trait_path') and squash(sx.render_ty(im['self_ty'])).startswith('Iter'):
            for it_ in im['items']:
                if it_['k'] == 'fn' and it_['name'] == 'new':
                    iter_new = it_

    def judge_into_iter(f):
        if iter_built(f, reversed_times=1, from_self=True):
            return 'ok', ''
        st_ = f['body']['stmts']
        if len(st_) == 1 and st_[0]['k'] == 'expr' and not st_[0].get('semi') and squash(sx.render(st_[0]['e'])) == 'Iter::new(self.into())':
            if iter_new is not None and iter_built(iter_new, reversed_times=1, from_self=False):
                return 'ok', ''
            return 'undecided', 'Iter::new(self.into()) with an Iter::new the rule cannot vouch for'
        lits_ = [n for n in sx.walk(f['body']) if n.get('k') == 'struct' and n['p'] == 'Iter']
        revs_ = [n for n in sx.walk(f['body']) if n.get('k') == 'mcall' and n['m'] in ('reverse', 'rev')]
        if len(lits_) == 1 and len(revs_) != 1 and 'self.into()' in squash(sx.render(f['body'])):
            return 'wrong', 'the child list is reversed %d times before it becomes the stack of Iter (children are then visited back to front)' % len(revs_)
        return 'undecided', 'found %s' % [squash(sx.render(s_))[:60] for s_ in st_][:3]

    def judge_locate_merge(f):
        body_ = f['body']
        pname = sx.pat_idents(f['sig']['params'][0]['pat'])[0]
        fors_ = [n for n in sx.walk(body_) if n.get('k') == 'for']
        if len(fors_) != 1:
            return 'undecided', 'expected one loop over the leaves'
        it_ = squash(sx.render(fors_[0]['e']))
        if '.rev()' in it_:
            return 'wrong', 'the leaves are visited back to front'
        if it_ not in (pname, pname + '.into_iter()'):
            return 'undecided', 'iteration over `%s`' % it_[:40]
        lits_ = [n for n in sx.walk(body_) if n.get('k') == 'struct' and n['p'] == 'Locate']
        if len(lits_) != 1:
            return 'undecided', '%d Locate literals' % len(lits_)
        flds_ = {x['n']: x['e'] for x in lits_[0]['fields']}
        if set(flds_) != {'offset', 'line', 'len'}:
            return 'undecided', 'Locate literal with fields %s' % sorted(flds_)
        off, lin, ln = flds_['offset'], flds_['line'], flds_['len']
        if not (off.get('k') == 'field' and off['m'] == 'offset' and sx.is_path(off['e']) and lin.get('k') == 'field' and lin['m'] == 'line' and sx.is_path(lin['e'])):
            return 'undecided', 'offset/line not taken from a variable'
        acc = off['e']['p']
        if lin['e']['p'] != acc:
            return 'wrong', 'offset and line of the merged span come from different values'
        # the leaf variable: bound by a RefNode::Locate(..) pattern
        leaf = None
        for n in sx.walk(body_):
            if n.get('k') == 'ts' and n['p'] == 'RefNode::Locate' and n['e'] and n['e'][0].get('k') == 'ident':
                leaf = n['e'][0]['n']
        if leaf is None:
            return 'undecided', 'no RefNode::Locate(..) binding'
        if acc == leaf:
            return 'wrong', 'the merged span takes offset and line from the CURRENT leaf instead of the first one'
        lt = squash(sx.render(ln))
        if lt not in ('(%s.len+%s.len)' % (acc, leaf), '(%s.len+%s.len)' % (leaf, acc)):
            if lt in ('%s.len' % leaf, '%s.len' % acc) or '+' not in lt:
                return 'wrong', 'the merged length is `%s`, not the sum of the accumulated and the current leaf length' % lt
            return 'undecided', 'merged length `%s`' % lt
        first = any(squash(sx.render(n)) == 'Some(*%s)' % leaf for n in sx.walk(body_) if n.get('k') == 'call')
        if not first:
            return 'undecided', 'initialisation from the first leaf not recognised'
        return 'ok', ''

    n_iter = 0
    groups3, groups4 = {}, {}
    for (tp, st), lst in by.items():
        if tp == 'IntoIterator' and st.startswith("&'a") and st[3:] in node_names:
            name = st[3:]
            f = impl_fn(lst[0], 'into_iter')
            n_iter += 1
            r3.inst('derive-into_iter:' + name)
            groups3.setdefault(judge_into_iter(f), []).append(name)
        if tp == 'TryFrom' and st == 'Locate':
            for im in lst:
                f = impl_fn(im, 'try_from')
                pty = squash(sx.render_ty(f['sig']['params'][0]['ty']))
                if not pty.startswith('&'):
                    continue
                name = pty[1:].replace("'a", '')
                if name not in node_names:
                    continue
                r4.inst('locate-merge:' + name)
                groups4.setdefault(judge_locate_merge(f), []).append(name)
    for rr, groups, what, keyname in ((r3, groups3, 'IntoIterator for &%s must build the child list, reverse it once, and wrap it in Iter', 'into_iter'),
                                      (r4, groups4, 'TryFrom<&%s> for Locate must start from the first leaf and extend with {offset, line of the first leaf; len: accumulated + leaf} over a forward iteration', 'locate-merge')):
        for (verdict, why), names in sorted(groups.items()):
            if verdict == 'ok':
                continue
            names.sort()
            rec = nt.enums.get(names[0]) or nt.structs[names[0]]
            scope = 'derive(Node)' if len(names) > 50 else names[0]
            where_ = '%s:%d' % (rec['file'], rec['line'])
            msg = (what % (names[0] + (' (and %d more node types: generated code)' % (len(names) - 1) if len(names) > 1 else ''))) + ': ' + why
            if verdict == 'wrong':
                rr.fail('%s:%s:%s' % (CRATE, scope, keyname), where_, msg)
            else:
                rr.undecided('%s:%s:%s' % (CRATE, scope, keyname), where_, msg)
    r3.floor('derived_into_iter', n_iter, 1110)
    r4.floor('derived_locate_merges', r4.instances, 1110)
    # RefNode::next / into_iter / From<&AnyNode>
    ref_enum = None
    any_enum = None
    for mp, it in sx.items_rec(exp['items']):
        if it['k'] == 'enum' and it['name'] == 'RefNode':
            ref_enum = it
        if it['k'] == 'enum' and it['name'] == 'AnyNode':
            any_enum = it
    r.exactly('RefNode_enum', 1 if ref_enum else 0, 1)
    r.exactly('AnyNode_enum', 1 if any_enum else 0, 1)
    if ref_enum and any_enum:
        rv = [v['name'] for v in ref_enum['variants']]
        av = [v['name'] for v in any_enum['variants']]
        want = sorted(node_names | {'Locate'})
        r.inst('RefNode-variants', {'variants': len(rv)})
        if sorted(rv) != want:
            d = sorted(set(want) ^ set(rv))
            r.fail('%s:RefNode:variants' % CRATE, '-', 'RefNode variants differ from the derive(Node) types: %s' % d[:8])
        if sorted(av) != want:
            d = sorted(set(want) ^ set(av))
            r.fail('%s:AnyNode:variants' % CRATE, '-', 'AnyNode variants differ from the derive(Node) types: %s' % d[:8])
        # payload types
        for v in ref_enum['variants']:
            t = squash(sx.render_ty(v['fields'][0]['ty'])) if v['fields'] else None
            if t != "&" + v['name']:
                r.fail('%s:RefNode:payload:%s' % (CRATE, v['name']), '-', 'RefNode::%s holds %s' % (v['name'], t))
        for which, method, form in (('next', 'next', '%s.next()'), ('into_iter', 'into_iter', '%s.into_iter()')):
            found = None
            for im in impls(exp['items']):
                if squash(im['self_tys']) == "RefNode<'a>" and impl_fn(im, method) is not None:
                    if method == 'next' and im.get('trait_path') is not None:
                        continue
                    found = impl_fn(im, method)
            if found is None:
                r.fail('%s:RefNode:%s' % (CRATE, method), '-', 'RefNode::%s not found in the expansion' % method)
                continue
            m = found['body']['stmts'][0]['e']
            arms = {}
            for a in m.get('arms', []):
                p = a['pat']
                if p.get('k') == 'ts' and len(p['e']) == 1:
                    arms[p['p'].split('::')[-1]] = squash(sx.render(a['body'])) == squash(form % p['e'][0]['n'])
            r.inst('RefNode::%s' % method, {'arms': len(arms)})
            bad = sorted(k for k, v in arms.items() if not v)
            if sorted(arms) != want or bad:
                r.fail('%s:RefNode:%s:arms' % (CRATE, method), '-',
                       'RefNode::%s must dispatch every variant to the payload\'s own %s (missing %s, wrong %s)' %
                       (method, method, sorted(set(want) - set(arms))[:5], bad[:5]))
        fs = conv.get(('From', "RefNode<'a>", 'from', "&'aAnyNode"), []) + conv.get(('From', "RefNode<'a>", 'from', "&AnyNode"), [])
        if len(fs) != 1:
            r.fail('%s:AnyNode:to-refnode' % CRATE, '-', 'From<&AnyNode> for RefNode not found in the expansion')
        else:
            m = fs[0]['body']['stmts'][0]['e']
            arms = {}
            for a in m.get('arms', []):
                p = a['pat']
                if p.get('k') == 'ts' and len(p['e']) == 1:
                    v = p['p'].split('::')[-1]
                    arms[v] = squash(sx.render(a['body'])) == 'RefNode::%s(&%s)' % (v, p['e'][0]['n'])
            r.inst('AnyNode->RefNode', {'arms': len(arms)})
            bad = sorted(k for k, v in arms.items() if not v)
            if sorted(arms) != want or bad:
                r.fail('%s:AnyNode:to-refnode:arms' % CRATE, '-', 'From<&AnyNode> for RefNode must map every variant to the RefNode variant of the same name (wrong: %s)' % bad[:5])
    r.floor('node_types', len(node_names), 1110)

    # ---- T3: all Iter{..} construction sites
    for im, f, n in iter_sites:
        st = squash(im['self_tys'])
        tp = (im.get('trait_path') or '').split('::')[-1]
        if tp == 'IntoIterator' and st.startswith("&'a") and st[3:] in node_names:
            continue  # counted above
        key = '%s::%s' % (st, f['name'])
        body = [squash(sx.render(s)) for s in f['body']['stmts']]
        r3.inst('iter-site:' + key, {'site': key, 'body': body})
        if st == "Iter<'a>" and f['name'] == 'new':
            if not iter_built(f, reversed_times=1, from_self=False):
                # other spellings (the list destructured first, `.rev().collect()`): decided by the number of reversals — none is WRONG (children
                # would be visited last-to-first), exactly one with a single Iter{..} literal is an unrecognised but plausible form
                revs_ = [n_ for n_ in sx.walk(f['body']) if n_.get('k') == 'mcall' and n_['m'] in ('reverse', 'rev')]
                lits_ = [n_ for n_ in sx.walk(f['body']) if n_.get('k') == 'struct' and n_['p'] == 'Iter']
                extra_ = [n_ for n_ in sx.walk(f['body']) if n_.get('k') == 'mcall' and n_['m'] in ('push', 'pop', 'insert', 'remove', 'truncate', 'sort', 'swap', 'drain', 'retain', 'clear')]
                if len(revs_) == 1 and len(lits_) == 1 and not extra_ and len(lits_[0]['fields']) == 1:
                    r3.undecided('%s:Iter::new' % CRATE, '%s/src/any_node.rs' % CRATE, 'Iter::new reverses once but is not in the recognised form: %s' % body)
                else:
                    r3.fail('%s:Iter::new' % CRATE, '%s/src/any_node.rs' % CRATE, 'Iter::new must reverse the list once before storing it; found %s' % body)
        elif st == "&'aLocate" and f['name'] == 'into_iter':
            if not iter_built(f, reversed_times=0, from_self=True):
                r3.fail('%s:Locate::into_iter' % CRATE, '%s/src/lib.rs' % CRATE, '&Locate::into_iter: single-leaf list expected; found %s' % body)
        else:
            r3.fail('%s:iter-site:%s' % (CRATE, key), '-', 'unexpected construction site of Iter{..}: %s (fail closed)' % key)
    return [r, r3, r4]


def _assign_loop_form(t):
    """macro body (blanks removed) of the form `letmutV=None;forxin$n{..V=Some(..);..}V`: -> (V, number of assignments not directly followed by `break;` / a return)"""
    import re as _re
    m = _re.search(r'letmut(\w+)(?::[^=;]+)?=None;forxin\$n\{', t)
    if not m:
        return None
    v = m.group(1)
    if not _re.search(r'\}%s\}*\)*;?\}*$' % _re.escape(v), t) and not t.rstrip('})').endswith(v):
        return None
    missing = 0
    i = 0
    pat = v + '=Some('
    found = False
    while True:
        i = t.find(pat, i)
        if i < 0:
            break
        found = True
        depth, j = 0, i + len(pat) - 1
        while j < len(t):
            if t[j] == '(':
                depth += 1
            elif t[j] == ')':
                depth -= 1
                if depth == 0:
                    break
            j += 1
        rest = t[j + 1:j + 12]
        if not (rest.startswith(';break;') or rest.startswith(';break}')):
            missing += 1
        i = j
    if not found:
        return None
    return v, missing


def run(ctx):
    return [t1(ctx)] + t2(ctx) + [t4(ctx)]


# --------------------------------------------------------------------------- T4
def t4(ctx):
    """The two iterator stack machines and the first-match macros: small functions inspected against an enumerated
    set of equivalent forms (DESIGN 8: one of the places where a single small body is inspected)."""
    r = RuleResult('T4', 'Iter::next / EventIter::next: pop, expand children reversed once onto the same stack; Leave pushed before children')
    files = sx.crate_files(ctx.syn, CRATE)
    an = files.get('src/any_node.rs')
    its = {}
    for im in impls(an['items']):
        if (im.get('trait_path') or '').split('::')[-1] == 'Iterator':
            f = impl_fn(im, 'next')
            if f is not None:
                its[squash(im['self_tys'])] = f
    r.exactly('iterator_impls', len(its), 2)

    def analyse(f, event):
        body = f['body']
        stmts = body['stmts']
        facts = {}
        pops = [n for n in sx.walk(body) if n.get('k') == 'mcall' and n['m'] == 'pop']
        facts['pops'] = [squash(sx.render(p)) for p in pops]
        if facts['pops'] != ['self.next.0.pop()']:
            if len(pops) > 1:
                return 'wrong', 'more than one pop per step', facts
            return 'undecided', 'the pop from the pending stack was not recognised', facts
        # the popped value: let V = pop() | let V = pop()?
        ret_var = None
        opt = True
        for st_ in stmts:
            if st_['k'] == 'let' and 'init' in st_:
                init = st_['init']
                if init in pops:
                    ret_var = sx.pat_idents(st_['pat'])[0]
                elif init.get('k') == 'try' and init['e'] in pops:
                    ret_var = sx.pat_idents(st_['pat'])[0]
                    opt = False
        last = stmts[-1]
        tail = squash(sx.render(last)) if last['k'] == 'expr' and not last.get('semi') else None
        facts['returns'] = tail
        if ret_var is None:
            return 'undecided', 'the popped value is not bound to a local', facts
        if tail not in ((ret_var,) if opt else ('Some(%s)' % ret_var,)):
            if tail is not None and ret_var not in tail:
                return 'wrong', 'the step does not return the popped item (returns %s)' % tail, facts
            return 'undecided', 'return expression %s' % tail, facts
        # children: exactly one `.next()` on (a binding of) the popped node; pushed reversed once onto self.next.0
        nexts = [n for n in sx.walk(body) if n.get('k') == 'mcall' and n['m'] == 'next' and not n['args']]
        if len(nexts) != 1:
            return 'undecided', '%d calls of .next()' % len(nexts), facts
        revs = [n for n in sx.walk(body) if n.get('k') == 'mcall' and n['m'] in ('reverse', 'rev')]
        apps = [n for n in sx.walk(body) if n.get('k') == 'mcall' and n['m'] in ('append', 'extend') and squash(sx.render(n['recv'])) == 'self.next.0']
        facts['reversals'] = len(revs)
        facts['pushes_of_children'] = len(apps)
        if len(apps) != 1:
            # several expansion paths (a fast path for some node kinds): each one that puts SEVERAL children on the stack must reverse them —
            # the stack pops from the end, so children pushed in source order are visited last-to-first
            for ap_ in apps:
                arg_ = ap_['args'][0] if ap_['args'] else {}
                has_rev = any(z.get('k') == 'mcall' and z['m'] in ('rev', 'reverse') for z in sx.walk(arg_))
                root_ = sx.strip_ref(arg_)
                while isinstance(root_, dict) and root_.get('k') in ('field', 'mcall', 'ref'):
                    root_ = root_.get('e') or root_.get('recv')
                if not has_rev and isinstance(root_, dict) and sx.is_path(root_):
                    has_rev = any(z.get('k') == 'mcall' and z['m'] == 'reverse' and root_['p'] in squash(sx.render(z['recv'])) for z in revs)
                if not has_rev:
                    return 'wrong', ('one expansion path puts several children on the stack in source order (`%s`, no reversal): the stack pops from the end, so for those nodes '
                                     'the children — e.g. the trivia behind a token — are visited last-to-first' % squash(sx.render(ap_))[:60]), facts
            return 'undecided', '%d append/extend onto the stack' % len(apps), facts
        if len(revs) == 0:
            return 'wrong', 'the children are put on the stack without being reversed: they would be visited last-to-first', facts
        if len(revs) > 1:
            return 'wrong', 'the children are reversed %d times' % len(revs), facts
        # the reversal happens before / inside the push
        rpos = (revs[0].get('l'), revs[0].get('col'))
        apos = (apps[0].get('l'), apps[0].get('col'))
        inside = any(x is revs[0] for x in sx.walk(apps[0]))
        if not inside and not rpos < apos:
            return 'wrong', 'the children are reversed after they were pushed', facts
        if event:
            # must-pass-through: on every control path on which the popped item is an Enter(x), a Leave(..) is pushed
            from vlib import paths as _paths
            try:
                allp = _paths.enumerate_paths(body, loops=True)
            except _paths.Unmodelled:
                allp = None
            if allp is not None:
                def is_enter_path(p_):
                    for c_, pol in p_.conds:
                        if c_.get('k') == 'let' and pol and 'NodeEvent::Enter(' in squash(sx.render(c_['pat'])):
                            return True
                        if c_.get('k') == 'arm' and 'NodeEvent::Enter(' in squash(sx.render(c_['pat'])):
                            return True
                    return False
                enter_paths = [p_ for p_ in allp if is_enter_path(p_)]
                facts['enter_paths'] = len(enter_paths)
                for p_ in enter_paths:
                    def is_leave(a_):
                        t_ = squash(sx.render(a_))
                        if 'Leave' in t_:
                            return True
                        if sx.is_path(a_):
                            return any('Leave' in squash(sx.render(st_['init'])) for st_ in sx.walk(body)
                                       if st_.get('k') == 'let' and 'init' in st_ and a_['p'] in sx.pat_idents(st_['pat']))
                        return False
                    leave = [n for n in p_.calls if n.get('k') == 'mcall' and n['m'] == 'push' and squash(sx.render(n['recv'])) == 'self.next.0'
                             and is_leave(n['args'][0])]
                    if not leave:
                        conds_ = [('' if pol else 'not ') + squash(sx.render(c_))[:40] for c_, pol in p_.conds if c_.get('k') not in ('arm',)][-2:]
                        return 'wrong', 'on a path on which the popped item is an Enter (%s) no Leave is pushed: that node gets an Enter without a matching Leave' % ' and '.join(conds_), facts
            pushes = [n for n in sx.walk(body) if n.get('k') == 'mcall' and n['m'] == 'push' and squash(sx.render(n['recv'])) == 'self.next.0']
            facts['leave_pushes'] = [squash(sx.render(p)) for p in pushes]
            if len(pushes) != 1:
                return ('wrong', 'no Leave event is pushed', facts) if not pushes else ('undecided', '%d pushes' % len(pushes), facts)
            arg = pushes[0]['args'][0]
            argt = squash(sx.render(arg))
            if not argt.startswith('NodeEvent::Leave('):
                # a local bound to the Leave event
                if sx.is_path(arg):
                    lets = [st_ for st_ in sx.walk(body) if st_.get('k') == 'let' and 'pat' in st_ and arg['p'] in sx.pat_idents(st_['pat'])]
                    if not (lets and 'init' in lets[-1] and squash(sx.render(lets[-1]['init'])).startswith('NodeEvent::Leave(')):
                        return 'undecided', 'pushed value %s' % argt, facts
                else:
                    return 'undecided', 'pushed value %s' % argt, facts
            if not (pushes[0].get('l'), pushes[0].get('col')) < apos:
                return 'wrong', 'Leave is pushed after the children: it would be delivered before them', facts
            # only for Enter events
            guarded = any((n.get('k') == 'if' and n['c'].get('k') == 'let' and 'NodeEvent::Enter(' in squash(sx.render(n['c']['pat'])) and any(x is pushes[0] for x in sx.walk(n['t'])))
                          for n in sx.walk(body)) or \
                any(n.get('k') == 'match' and any('NodeEvent::Enter(' in squash(sx.render(a_['pat'])) and any(x is pushes[0] for x in sx.walk(a_['body'])) for a_ in n['arms'])
                    for n in sx.walk(body))
            if not guarded:
                return 'undecided', 'the Leave push is not visibly restricted to Enter events', facts
        return 'ok', '', facts
    for st, f in its.items():
        event = st.startswith('EventIter')
        verdict, why, facts = analyse(f, event)
        r.inst('next:' + st, {'impl': st, 'verdict': verdict, **facts})
        if verdict == 'wrong':
            r.fail('%s:%s:next' % (CRATE, st), '%s/src/any_node.rs:%s' % (CRATE, f['l']),
                   '%s::next must pop the top, %sexpand the popped node\'s children reversed exactly once onto the same stack and return the '
                   'popped item: %s' % (st, 'push Leave(x) for an Enter(x) before its children, ' if event else '', why))
        elif verdict == 'undecided':
            r.undecided('%s:%s:next' % (CRATE, st), '%s/src/any_node.rs:%s' % (CRATE, f['l']), '%s::next: %s' % (st, why))
    # conversions used by event(): Iter -> EventIter and RefNodes -> NodeEvents keep order and wrap in Enter
    n_conv = 0
    for im in impls(an['items']):
        if im.get('trait_path') == 'From' and squash(im['self_tys']) in ("EventIter<'a>", "NodeEvents<'a>"):
            f = impl_fn(im, 'from')
            fors = [n for n in sx.walk(f['body']) if n.get('k') == 'for']
            n_conv += 1
            t_ = squash(sx.render(f['body']))
            r.inst('event-conversion:' + squash(im['self_tys']))
            if '.rev()' in t_ or '.reverse()' in t_ or 'NodeEvent::Leave' in t_:
                r.fail('%s:%s:event-conversion' % (CRATE, squash(im['self_tys'])), '%s/src/any_node.rs:%s' % (CRATE, f['l']),
                       'conversion into %s must wrap every node in Enter, in the same order' % squash(im['self_tys']))
            elif not ('NodeEvent::Enter' in t_ or '.event()' in t_):
                r.undecided('%s:%s:event-conversion' % (CRATE, squash(im['self_tys'])), '%s/src/any_node.rs:%s' % (CRATE, f['l']),
                            'conversion into %s: %s' % (squash(im['self_tys']), t_[:100]))
    r.floor('event_conversions', n_conv, 2)
    # unwrap_node! / unwrap_locate!: first match wins (return inside the for, None after it)
    api = sx.crate_files(ctx.syn, 'sv-parser')['src/lib.rs']
    macs = [it for mp, it in sx.items_rec(api['items']) if it['k'] == 'item_macro' and it.get('name') in ('unwrap_node', 'unwrap_locate')]
    r.exactly('first_match_macros', len(macs), 2)
    for mc in macs:
        t = mc['tokens'].replace(' ', '')
        r.inst('macro:' + mc['name'])
        # repetition groups of the transcriber: `$( ... )*` / `)+` / `),*`
        groups = []
        i_ = 0
        while True:
            i_ = t.find('$(', i_)
            if i_ < 0:
                break
            depth, j_ = 0, i_ + 1
            while j_ < len(t):
                if t[j_] == '(':
                    depth += 1
                elif t[j_] == ')':
                    depth -= 1
                    if depth == 0:
                        break
                j_ += 1
            groups.append(t[i_ + 2:j_])
            i_ = j_
        per_kind_search = [g_ for g_ in groups if any(w in g_ for w in ('.find(', '.position(', '.filter(', '.find_map(', 'forxin', 'whilelet', '.any(', '.skip_while('))]
        if '.rev()' in t or '.last()' in t:
            r.fail('sv-parser:%s:first-match' % mc['name'], 'sv-parser/src/lib.rs:%s' % mc['l'],
                   '%s! must iterate forward and return the FIRST node of the requested kinds' % mc['name'])
        elif per_kind_search:
            r.fail('sv-parser:%s:first-match' % mc['name'], 'sv-parser/src/lib.rs:%s' % mc['l'],
                   '%s! searches the nodes once PER requested kind (`%s` inside the `$(..)*` repetition) instead of testing every kind at each node of one pass: the '
                   'result is the first-listed kind that occurs, not the first node in iteration order (and a shared iterator is used up by the first search)'
                   % (mc['name'], per_kind_search[0][:50]))
        elif _assign_loop_form(t) is not None:
            # second form: `let mut ret = None; for x in $n { .. ret = Some(..); break; .. } ret` — every assignment must leave the loop at once
            v_, missing_ = _assign_loop_form(t)
            if missing_:
                r.fail('sv-parser:%s:first-match' % mc['name'], 'sv-parser/src/lib.rs:%s' % mc['l'],
                       '%s! stores a match in `%s` and goes on iterating (no `break` after `%s = Some(..)`): every later match overwrites it, so the LAST node of the kind in iteration '
                       'order is returned, not the first' % (mc['name'], v_, v_))
        elif not ('forxin$n{' in t and 'returnSome(' in t and 'None' in t and t.index('returnSome(') < t.rindex('None')):
            r.undecided('sv-parser:%s:first-match' % mc['name'], 'sv-parser/src/lib.rs:%s' % mc['l'], '%s!: body not in the recognised for/return form' % mc['name'])
    return r


def run(ctx):
    return [t1(ctx)] + t2(ctx) + [t4(ctx)]
