"""G1 / G3 — linear span threading, faithful node construction, dropped output.

Abstract domain: every value produced by a *consuming* parser application is a
"chunk" of consumed text; chunks are numbered in consumption order.  The node a
production returns is evaluated to the sequence of chunks it contains, in field
order (which is enumeration order by T1/T2).  Obligation: that sequence is
exactly 0,1,..,n-1 — nothing consumed is dropped, duplicated or reordered, and
the result is built by construction only.
"""
from vlib import sx, grammar
from vlib.report import RuleResult

IDENTITY_FNS = {'into_locate'}          # value-preserving conversions (chunk in = chunk out)
CONSTRUCT_WRAPPERS = {'Box::new', 'Some', 'Ok'}


class Bad(Exception):
    pass


class Unknown(Bad):
    """a form the construction evaluator does not model (UNDECIDED), as opposed to a visibly wrong construction (Bad)"""
    pass


_G = [None]      # the grammar of the current run (for private construction helpers)


def _helper_construct(p, args_seq):
    """a private function that only builds a node from its parameters: evaluate its body on the arguments' chunk sequences"""
    g = _G[0]
    f = g.fns.get(p) if g is not None else None
    if f is None or f.kind != 'other' or not f.item.get('body'):
        return None
    ps = []
    for q in f.item['sig']['params']:
        if q.get('k') != 'typed' or q['pat'].get('k') != 'ident':
            return None
        ps.append(q['pat']['n'])
    if len(ps) != len(args_seq):
        return None
    env = dict(zip(ps, args_seq))
    stmts = f.item['body']['stmts']
    for st in stmts[:-1]:
        if st['k'] == 'let' and 'init' in st and st['pat'].get('k') == 'ident':
            sq_ = chunk_seq(st['init'], env, set())
            for n in sx.walk(st['init']):
                if n.get('k') == 'path' and n['p'] in env:
                    env[n['p']] = None
            env[st['pat']['n']] = sq_
        else:
            return None
    last = stmts[-1]
    if last['k'] != 'expr' or last.get('semi'):
        return None
    return chunk_seq(last['e'], env, set())


def is_ctor_path(p):
    last = p.split('::')[-1]
    return last[:1].isupper()


def chunk_seq(e, env, span_names):
    """Sequence of chunk ids contained in expression e (construction only)."""
    k = e.get('k')
    if k == 'path':
        n = e['p']
        if n in env:
            v = env[n]
            if v is None:
                raise Bad('value `%s` used after it was moved into another value' % n)
            return list(v)
        if n in span_names:
            raise Bad('span variable `%s` used as a value' % n)
        if n == 'None':
            return []
        if is_ctor_path(n) and '::' in n:
            return []  # unit-like variant
        raise Unknown('foreign value `%s` in node construction' % n)
    if k == 'tuple':
        out = []
        for x in e['e']:
            out += chunk_seq(x, env, span_names)
        return out
    if k == 'struct':
        if 'rest' in e:
            raise Bad('struct update syntax in node construction')
        out = []
        for f in e['fields']:
            out += chunk_seq(f['e'], env, span_names)
        return out
    if k == 'call' and sx.is_path(e['f']):
        p = e['f']['p']
        if p in CONSTRUCT_WRAPPERS or is_ctor_path(p) or p in IDENTITY_FNS:
            out = []
            for a in e['args']:
                out += chunk_seq(a, env, span_names)
            return out
        try:
            hs = _helper_construct(p, [chunk_seq(a, env, span_names) for a in e['args']])
        except Unknown:
            hs = None
        if hs is not None:
            return hs
        raise Unknown('call of `%s` in node construction' % p)
    if k == 'macro' and e['p'] == 'vec' and not e.get('args') and e['tokens'].strip() == '':
        return []
    if k == 'mcall':
        if e['m'] in ('rev', 'reverse', 'pop', 'swap_remove', 'sort'):
            raise Bad('method call `.%s()` in node construction: the order of consumed outputs is changed' % e['m'])
        raise Unknown('method call `.%s()` in node construction' % e['m'])
    if k == 'block' and len(e['stmts']) == 1 and e['stmts'][0]['k'] == 'expr' and not e['stmts'][0].get('semi'):
        return chunk_seq(e['stmts'][0]['e'], env, span_names)
    raise Unknown('non-construction expression `%s`' % sx.render(e)[:60])


def consuming(ir, g, seen=None):
    """May this parser consume input when it succeeds?  (False only for look-ahead.)"""
    op = ir.get('op')
    if op in ('peek', 'not'):
        return False
    if op == 'prim':
        return ir['consuming']
    if op in ('map', 'value', 'verify', 'map_res', 'map_opt', 'opt', 'many0', 'many1', 'ws', 'no_ws',
              'all_consuming', 'recognize', 'cut', 'complete', 'consumed', 'into', 'fold_many0'):
        return consuming(ir['p'], g, seen)
    if op == 'ref':
        seen = seen or set()
        if ir['name'] in seen:
            return False
        seen.add(ir['name'])
        return consuming(g.fns[ir['name']].ir, g, seen)
    if op in ('alt',):
        return any(consuming(a, g, seen) for a in ir['arms'])
    if op == 'seq':
        return any(consuming(a, g, seen) for a in ir['parts'])
    if op in ('terminated', 'preceded', 'many_till'):
        return consuming(ir['p'], g, seen) or consuming(ir['q'], g, seen)
    return True  # lit, wrap, list, param, closure, unmodelled, delimited: assume consuming


def components(pe):
    """Output components of a parser whose output is a tuple."""
    op = pe.get('op')
    if op == 'seq':
        return pe['parts']
    if op == 'many_till':
        return [{'op': 'many0', 'p': pe['p'], 'l': pe.get('l')}, pe['q']]
    return None


def wild_parsers(pat, pe):
    """For each `_` in pattern `pat` matched against the output of `pe`: the
    component parser whose output it discards (None when it cannot be resolved)."""
    k = pat.get('k')
    if k == 'wild':
        return [pe]
    if k == 'tuple':
        comps = components(pe) if pe is not None else None
        out = []
        for i, sub in enumerate(pat['e']):
            c = comps[i] if comps is not None and len(comps) == len(pat['e']) else None
            out += wild_parsers(sub, c)
        return out
    return []


def effect_stmt(st, g, span_names, env):
    """`foo();` / `foo("lit");` where foo is a non-parser function of the crate and no
    argument mentions a span or a consumed value."""
    if st['k'] != 'expr' or not st.get('semi'):
        return None
    e = st['e']
    if e.get('k') == 'macro' and e['p'] == 'nom_packrat::init' and e['tokens'].strip() == '':
        return 'nom_packrat::init!'
    if not sx.is_call(e):
        return None
    name = e['f']['p']
    fn = g.fns.get(name)
    if fn is None or fn.kind != 'other':
        return None
    for a in e['args']:
        for n in sx.walk(a):
            if n.get('k') == 'path' and (n['p'] in span_names or n['p'] in env):
                return None
    return name


def check_map_closure(res, g, fn, m, tag, under_look=False):
    """(d) closures given to map: each parameter used exactly once, in order, in a construction."""
    f = m['f']
    where = '%s/%s:%s' % (g.crate, fn.file, m.get('l'))
    if f.get('k') == 'path':
        if f['p'] in IDENTITY_FNS:
            res.inst()
            return
        if is_ctor_path(f['p']):
            res.inst()
            return
        res.fail('%s:%s:mapfn:%s' % (g.crate, fn.name, f['p']), where,
                 '%s: map applies `%s`, which is not a known value-preserving conversion' % (fn.name, f['p']))
        return
    if f.get('k') != 'closure':
        res.fail('%s:%s:mapfn' % (g.crate, fn.name), where, '%s: map with a non-closure function' % fn.name)
        return
    env = {}
    n = 0
    wild = 0
    for p in f['params']:
        for idn in sx.pat_idents(p):
            if idn is None:
                wild += 1
            else:
                env[idn] = [n]
                n += 1
    body = f['body']
    effects = []
    if body.get('k') == 'block':
        stmts = body['stmts']
        for st in stmts[:-1]:
            eff = effect_stmt(st, g, set(), env)
            if eff is None:
                res.fail('%s:%s:map-closure-stmt:%s' % (g.crate, fn.name, tag), where,
                         '%s: statement `%s` inside a map closure is not a plain effect call' %
                         (fn.name, sx.render(st)[:60]))
                return
            effects.append(eff)
        last = stmts[-1] if stmts else None
        if last is None or last['k'] != 'expr' or last.get('semi'):
            res.fail('%s:%s:map-closure-tail:%s' % (g.crate, fn.name, tag), where,
                     '%s: map closure has no tail value' % fn.name)
            return
        body = last['e']
    if wild:
        # handled by G3 (operand must be non-consuming)
        if consuming(m['p'], g) and not under_look:
            res3 = res.g3
            res3.fail('%s:%s:map-ignores-output:%s' % (g.crate, fn.name, tag), where,
                      '%s: map closure ignores (`_`) the output of consuming parser %s' %
                      (fn.name, grammar.show(m['p'])[:80]))
        res.g3.inst('%s:map_' % fn.name, {'fn': fn.name, 'site': 'map(|_| ..)', 'operand': grammar.show(m['p'])[:80],
                                           'consuming': consuming(m['p'], g), 'under_lookahead': under_look})
    try:
        seq = chunk_seq(body, env, set())
    except Unknown as b:
        res.undecided('%s:%s:map-closure:%s' % (g.crate, fn.name, tag), where, '%s: map closure: %s' % (fn.name, b))
        return
    except Bad as b:
        res.fail('%s:%s:map-closure:%s' % (g.crate, fn.name, tag), where, '%s: map closure: %s' % (fn.name, b))
        return
    res.inst('%s:map:%s' % (fn.name, tag))
    res.counts['map_closures'] = res.counts.get('map_closures', 0) + 1
    if seq != list(range(n)):
        res.fail('%s:%s:map-closure-order:%s' % (g.crate, fn.name, tag), where,
                 '%s: map closure uses its parameters as %s, expected each exactly once in order %s' %
                 (fn.name, seq, list(range(n))))
    return effects


def check_list_helper(res, g, fn):
    """The `list` helper has a hand-written loop; check its shape:
       a = g(s)?;  loop { (t,b) = f(s) ok?  (u,c) = g(t) ok? -> s = u; ret.push((b,c))  else break }
       Ok((s, List{nodes:(a, ret)}))"""
    where = '%s/%s:%d' % (g.crate, fn.file, fn.line)
    key = '%s:list-helper' % g.crate
    cl = fn.item['body']['stmts'][0]['e']['body']
    st = cl['stmts']
    txt = [sx.render(x) for x in st]
    problems = []
    if len(fn.params) != 2:
        problems.append('expected two parser parameters')
    else:
        sep, item = fn.params  # list(f = separator, g = item)
        sp = fn.span_param
        expect0 = 'let (%s, a) = %s(%s)?;' % (sp, item, sp)
        if not txt or txt[0].replace(' ', '') != expect0.replace(' ', ''):
            problems.append('first statement must parse one item from the input span (found `%s`)' % (txt[0] if txt else ''))
        loops = [x for x in st if x['k'] == 'expr' and x['e'].get('k') == 'while']
        if len(loops) != 1:
            problems.append('expected exactly one while-let loop')
        else:
            w = loops[0]['e']
            c = w['c']
            ok = (c.get('k') == 'let' and c['pat'].get('k') == 'ts' and c['pat']['p'] == 'Ok'
                  and sx.is_call(c['e'], sep) and len(c['e']['args']) == 1 and sx.is_path(c['e']['args'][0]))
            if not ok:
                problems.append('loop condition must be `while let Ok((t, b)) = %s(span)`' % sep)
            else:
                ids = sx.pat_idents(c['pat'])
                loop_span_in = c['e']['args'][0]['p']
                t, b = ids[0], ids[1]
                body = w['body']['stmts']
                if len(body) != 1 or body[0]['e'].get('k') != 'if' or body[0]['e']['c'].get('k') != 'let':
                    problems.append('loop body must be a single `if let Ok((u, c)) = %s(t) {..} else { break }`' % item)
                else:
                    iff = body[0]['e']
                    c2 = iff['c']
                    if not (c2['pat'].get('k') == 'ts' and c2['pat']['p'] == 'Ok' and sx.is_call(c2['e'], item)
                            and len(c2['e']['args']) == 1 and sx.is_path(c2['e']['args'][0], t)):
                        problems.append('the item parser must be applied to the span returned by the separator')
                    else:
                        u, cc = sx.pat_idents(c2['pat'])[:2]
                        then = [sx.render(x).replace(' ', '') for x in iff['t']['stmts']]
                        want = sorted(['%s=%s;' % (loop_span_in, u), 'ret.push((%s,%s));' % (b, cc)])
                        if sorted(then) != want:
                            problems.append('success branch must be exactly `%s = %s; ret.push((%s, %s));` (found %s)'
                                            % (loop_span_in, u, b, cc, then))
                        els = iff.get('e')
                        if els is None or sx.render(els).replace(' ', '') not in ('{break;}', '{break}'):
                            problems.append('failure of the item parser after a separator must `break` (else the loop never ends)')
            tail = fn.tail
            if tail[0] != 'ok' or sx.render(tail[2]).replace(' ', '') != 'List{nodes:(a,ret)}':
                problems.append('result must be List{nodes:(a, ret)}')
            elif not sx.is_path(tail[1], loops and c.get('e', {}).get('args', [{}])[0].get('p')):
                problems.append('returned span must be the loop span variable')
    res.inst(key, {'fn': 'list', 'shape': 'item (sep item)* with the span advanced only after sep+item both succeed'})
    recognised = len([x for x in st if x['k'] == 'expr' and x['e'].get('k') == 'while']) == 1 and len(fn.params) == 2 and \
        (txt and txt[0].replace(' ', '').startswith('let(%s,a)=' % fn.span_param))
    for p in problems:
        if recognised:
            res.fail(key + ':' + str(problems.index(p)), where, 'list helper: ' + p)
        else:
            res.undecided(key + ':shape', where, 'list helper is not in the while-let form the rule understands (%s)' % p)
            break


def run(ctx):
    g = ctx.grammar
    _G[0] = g
    res = RuleResult('G1', 'linear span threading and faithful node construction')
    res3 = RuleResult('G3', 'dropped output only from non-consuming parsers')
    res.g3 = res3
    n_fn = 0
    n_seq = 0
    skipped_lexemes = []
    bodies = [(f, f) for f in g.parsers()] + [(f, f) for f in g.helpers()]
    # inline closures used as parsers
    for f in list(g.parsers()) + list(g.helpers()):
        for node in grammar.iter_ir(f.ir) if f.ir else []:
            if node['op'] == 'closure':
                bodies.append((node['fn'], f))
    # parse results are never modified: outside the lexeme joins (G2) and the helpers of utils.rs, a parser function neither binds an output
    # mutably / by `ref mut` nor calls a shrinking or reordering method — a node edited after it was parsed (trivia `.clear()`ed, an element
    # removed) no longer covers what the parser consumed, so bytes of the text end up in no leaf
    MUT_M = ('clear', 'truncate', 'retain', 'pop', 'remove', 'drain', 'swap', 'reverse', 'sort', 'sort_by', 'dedup', 'split_off', 'swap_remove', 'take')
    n_mut = 0
    for f_ in g.parsers():
        if getattr(f_, 'lexeme', False) or not f_.item.get('body'):
            continue
        n_mut += 1

        def _mut_pat(p_):
            if not isinstance(p_, dict):
                return False
            if p_.get('k') == 'ident' and (p_.get('mut') or (p_.get('ref') and p_.get('mut'))):
                return True
            return any(_mut_pat(v_) if isinstance(v_, dict) else any(_mut_pat(x_) for x_ in v_ if isinstance(x_, dict)) if isinstance(v_, list) else False for v_ in p_.values())
        for n_ in sx.walk(f_.item['body']):
            if n_.get('k') == 'let' and 'pat' in n_ and n_['pat'].get('k') == 'tuple' and 'init' in n_ and n_['init'].get('k') in ('try', 'field') and _mut_pat(n_['pat']):
                res.fail('%s:%s:parse-result-mutable' % (g.crate, f_.name), '%s/%s:%s' % (g.crate, f_.file, n_.get('l') or f_.line),
                         '%s binds a parse result mutably (`%s`): a node is what its parser built from the text it consumed; editing it afterwards leaves consumed bytes '
                         'outside every leaf (or invents leaves)' % (f_.name, sx.render(n_['pat'])[:50]))
            if n_.get('k') == 'mcall' and n_['m'] in MUT_M and not n_['args'][1:] and n_['recv'].get('k') in ('path', 'field', 'index'):
                res.fail('%s:%s:parse-result-edited:%s' % (g.crate, f_.name, n_['m']), '%s/%s:%s' % (g.crate, f_.file, n_.get('l') or f_.line),
                         '%s calls `%s`: part of a parsed node is removed or reordered after parsing, so the tree no longer covers exactly the text that was consumed' %
                         (f_.name, sx.render(n_)[:50]))
    res.counts['functions_scanned_for_result_mutation'] = n_mut
    for fn, owner in bodies:
        where = '%s/%s:%d' % (g.crate, fn.file, fn.line)
        if fn.kind == 'helper' and fn.name == 'list':
            check_list_helper(res, g, fn)
            n_fn += 1
            continue
        if getattr(owner, 'lexeme', False) or getattr(fn, 'lexeme', False):
            skipped_lexemes.append(fn.name)   # G2's domain
            # G3 still applies to terminated/preceded inside them (below)
            lexeme = True
        else:
            lexeme = False
        n_fn += 1
        # ---------------- (a) threading + (b)/(c) construction
        span_names = {fn.span_param}
        cur = fn.span_param
        env = {}
        nchunk = 0
        ok = True
        unm = False
        mapi = 0
        if not lexeme:
            for st in fn.stmts:
                if st[0] == 'bind':
                    _, news, pat, pe, arg, ln = st
                    if not sx.is_path(arg, cur):
                        res.fail('%s:%s:thread:%d' % (g.crate, fn.name, nchunk), '%s/%s:%s' % (g.crate, fn.file, ln),
                                 '%s: parser %s is applied to `%s`, not to the span left by the previous step (`%s`)'
                                 % (fn.name, grammar.show(pe)[:60], sx.render(arg), cur))
                        ok = False
                    cur = news
                    span_names.add(news)
                    ids = sx.pat_idents(pat)
                    for wp in wild_parsers(pat, pe):
                        cons = True if wp is None else consuming(wp, g)
                        res3.inst('%s:let_' % fn.name, {'fn': fn.name, 'site': 'let (s, .. _ ..) = ..',
                                                       'discarded': grammar.show(wp)[:80] if wp else '?', 'consuming': cons})
                        if cons:
                            res3.fail('%s:%s:let-ignores-output:%s' % (g.crate, fn.name, grammar.show(wp or pe)[:40]),
                                      '%s/%s:%s' % (g.crate, fn.file, ln),
                                      '%s: a `_` pattern discards the output of consuming parser %s — the text it consumed '
                                      'is in no leaf' % (fn.name, grammar.show(wp or pe)[:80]))
                    for idn in ids:
                        if idn is not None:
                            env[idn] = [nchunk]
                            nchunk += 1
                    n_seq += 1
                elif st[0] == 'applylet':
                    pass
                else:
                    s = st[1]
                    eff = effect_stmt(s, g, span_names, env)
                    if eff is not None:
                        res.counts['effect_stmts'] = res.counts.get('effect_stmts', 0) + 1
                        continue
                    # let x = CONSTRUCTION;
                    if s['k'] == 'let' and 'init' in s and s['pat'].get('k') == 'ident' and 'else' not in s:
                        try:
                            init_ = s['init']
                            folded = None
                            if init_.get('k') == 'mcall' and init_['m'] == 'fold' and len(init_['args']) == 2 and init_['args'][1].get('k') == 'closure':
                                root_ = init_['recv']
                                while root_.get('k') == 'mcall' and root_['m'] in ('into_iter', 'iter', 'drain') :
                                    root_ = root_['recv']
                                cl_ = init_['args'][1]
                                if sx.is_path(root_) and root_['p'] in env and env[root_['p']] is not None and len(cl_['params']) == 2:
                                    v_ = root_['p']
                                    acc0 = chunk_seq(init_['args'][0], env, span_names)
                                    accn = sx.pat_idents(cl_['params'][0])
                                    ids_ = [i_ for i_ in sx.pat_idents(cl_['params'][1])]
                                    if len(accn) == 1:
                                        lenv_ = {accn[0]: [('A', 0)]}
                                        for j_, idn_ in enumerate(ids_):
                                            lenv_[idn_] = [('L', j_)]
                                        got = chunk_seq(cl_['body'], lenv_, span_names)
                                        want_ = [('A', 0)] + [('L', j_) for j_ in range(len(ids_))]
                                        if got != want_:
                                            raise Bad('fold builds its result from (accumulator, %s) as %s; expected accumulator first, then the element\'s parts once each in order' % (ids_, got))
                                        folded = acc0 + list(env[v_])
                                        for n in sx.walk(init_['args'][0]):
                                            if n.get('k') == 'path' and n['p'] in env:
                                                env[n['p']] = None
                                        env[v_] = None
                                        res.counts['fold_loops'] = res.counts.get('fold_loops', 0) + 1
                            if folded is not None:
                                env[s['pat']['n']] = folded
                                continue
                            seq = chunk_seq(s['init'], env, span_names)
                            for n in sx.walk(s['init']):
                                if n.get('k') == 'path' and n['p'] in env:
                                    env[n['p']] = None
                            env[s['pat']['n']] = seq
                            continue
                        except Unknown as b:
                            res.undecided('%s:%s:stmt:%s' % (g.crate, fn.name, s['pat']['n']),
                                          '%s/%s:%s' % (g.crate, fn.file, s.get('l')), '%s: %s' % (fn.name, b))
                            ok = False
                            unm = True
                            continue
                        except Bad as b:
                            res.fail('%s:%s:stmt:%s' % (g.crate, fn.name, s['pat']['n']),
                                     '%s/%s:%s' % (g.crate, fn.file, s.get('l')), '%s: %s' % (fn.name, b))
                            ok = False
                            continue
                    # for PAT in V { lets; ACC = CONSTRUCTION(ACC, pat vars..) }
                    if s['k'] == 'expr' and s['e'].get('k') == 'for' and sx.is_path(s['e']['e']) and s['e']['e']['p'] in env:
                        fo = s['e']
                        v = fo['e']['p']
                        ids = [i for i in sx.pat_idents(fo['pat'])]
                        lenv = dict(env)
                        acc_names = [n for n in env if env[n] is not None and n != v]
                        for j, idn in enumerate(ids):
                            lenv[idn] = [('L', j)]
                        good = True
                        assigned = None
                        try:
                            for bs in fo['body']['stmts']:
                                if bs['k'] == 'let' and bs['pat'].get('k') == 'ident' and 'init' in bs:
                                    sq = chunk_seq(bs['init'], lenv, span_names)
                                    for n in sx.walk(bs['init']):
                                        if n.get('k') == 'path' and n['p'] in lenv:
                                            lenv[n['p']] = None
                                    lenv[bs['pat']['n']] = sq
                                elif bs['k'] == 'expr' and bs['e'].get('k') == 'assign' and sx.is_path(bs['e']['l_']):
                                    tgt = bs['e']['l_']['p']
                                    sq = chunk_seq(bs['e']['r'], lenv, span_names)
                                    lenv[tgt] = sq
                                    assigned = tgt
                                else:
                                    raise Unknown('statement `%s` in a fold loop' % sx.render(bs)[:60])
                            if assigned is None or assigned not in env or env[assigned] is None:
                                raise Bad('fold loop does not update an accumulator bound before the loop')
                            want = list(env[assigned]) + [('L', j) for j in range(len(ids))]
                            if lenv[assigned] != want:
                                raise Bad('fold loop builds %s from (accumulator, %s) as %s; expected accumulator first, '
                                          'then the loop variables once each in order' % (assigned, ids, lenv[assigned]))
                            env[assigned] = list(env[assigned]) + list(env[v])
                            env[v] = None
                            res.counts['fold_loops'] = res.counts.get('fold_loops', 0) + 1
                            continue
                        except Unknown as b:
                            res.undecided('%s:%s:fold-loop' % (g.crate, fn.name), '%s/%s:%s' % (g.crate, fn.file, s.get('l')), '%s: %s' % (fn.name, b))
                            ok = False
                            unm = True
                            continue
                        except Bad as b:
                            res.fail('%s:%s:fold-loop' % (g.crate, fn.name), '%s/%s:%s' % (g.crate, fn.file, s.get('l')),
                                     '%s: %s' % (fn.name, b))
                            ok = False
                            continue
                    res.undecided('%s:%s:unmodelled-stmt:%s' % (g.crate, fn.name, sx.render(s)[:50]),
                                  '%s/%s:%s' % (g.crate, fn.file, s.get('l')),
                                  '%s: statement `%s` is outside the forms G1 understands' % (fn.name, sx.render(s)[:80]))
                    ok = False
                    unm = True
            # tail
            t = fn.tail
            if t[0] == 'ok':
                if not sx.is_path(t[1], cur):
                    res.fail('%s:%s:thread:tail' % (g.crate, fn.name), where,
                             '%s: returns span `%s`, not the span left by the last step (`%s`)' % (fn.name, sx.render(t[1]), cur))
                try:
                    seq = chunk_seq(t[2], env, span_names)
                    if ok and seq != list(range(nchunk)):
                        missing = [i for i in range(nchunk) if i not in seq]
                        res.fail('%s:%s:construct' % (g.crate, fn.name), where,
                                 '%s: the returned node contains consumed outputs %s; expected each of the %d outputs exactly '
                                 'once in consumption order%s' % (fn.name, seq, nchunk,
                                                                   (' (dropped: #%s)' % missing) if missing else ''),
                                 {'bound': [sx.render(s[2]) for s in fn.stmts if s[0] == 'bind'], 'result': sx.render(t[2])[:200]})
                except Bad as b:
                    if unm or isinstance(b, Unknown):
                        res.undecided('%s:%s:construct' % (g.crate, fn.name), where, '%s: %s%s' % (fn.name, b, ' (after a statement G1 does not model)' if unm else ''))
                    else:
                        res.fail('%s:%s:construct' % (g.crate, fn.name), where, '%s: %s' % (fn.name, b))
                res.inst('%s:body' % fn.name, {'fn': fn.name, 'outputs': nchunk, 'result': sx.render(t[2])[:100]} if nchunk >= 4 else None)
            elif t[0] == 'apply':
                if fn.kind == 'helper' and t[2] is None:
                    pass        # helper written as a combinator expression: nothing is applied inside it
                elif not sx.is_path(t[2], cur):
                    res.fail('%s:%s:thread:tail' % (g.crate, fn.name), where,
                             '%s: final parser applied to `%s`, not to `%s`' % (fn.name, sx.render(t[2]), cur))
                if nchunk:
                    res.fail('%s:%s:construct' % (g.crate, fn.name), where,
                             '%s: outputs bound before the final combinator are dropped' % fn.name)
                res.inst('%s:body' % fn.name)
            elif t[0] == 'var':
                res.inst('%s:body' % fn.name)
                # let ret = P(s); effects; ret  — only effect statements may stand in between (checked above)
            elif t[0] == 'ifelse':
                res.inst('%s:body' % fn.name)
            else:
                res.undecided('%s:%s:unmodelled-tail' % (g.crate, fn.name), where,
                              '%s: result expression `%s` is outside the forms G1 understands' %
                              (fn.name, sx.render(t[1])[:80] if len(t) > 1 and isinstance(t[1], dict) else t[0]))
        # ---------------- (d) map closures, G3 terminated/preceded — in every pexpr of the body
        irs = [s[3] for s in fn.stmts if s[0] == 'bind'] + [s[2] for s in fn.stmts if s[0] == 'applylet']
        if fn.tail and fn.tail[0] == 'apply':
            irs.append(fn.tail[1])
        if fn.tail and fn.tail[0] == 'ifelse':
            irs += [fn.tail[2], fn.tail[3]]
        for ir in irs:
            for node, look in grammar.iter_ir_ctx(ir):
                if node['op'] == 'closure':
                    continue
                if node['op'] == 'map':
                    mapi += 1
                    if lexeme and node['f'].get('k') == 'closure':
                        # lexeme internals: value computations on spans are G2's domain
                        continue
                    check_map_closure(res, g, owner if fn is not owner else fn, node, str(mapi), look)
                elif node['op'] in ('terminated', 'preceded'):
                    q = node['q']
                    c = consuming(q, g)
                    res3.inst('%s:%s:%d' % (fn.name, node['op'], node.get('l') or 0),
                              {'fn': fn.name, 'site': node['op'], 'dropped': grammar.show(q)[:80], 'consuming': c})
                    res3.counts[node['op']] = res3.counts.get(node['op'], 0) + 1
                    if c:
                        res3.fail('%s:%s:%s-drops:%s' % (g.crate, fn.name, node['op'], grammar.show(q)[:40]),
                                  '%s/%s:%s' % (g.crate, fn.file, node.get('l')),
                                  '%s: %s(..) discards the output of consuming parser %s — the text it consumed is in no leaf'
                                  % (fn.name, node['op'], grammar.show(q)[:80]))
                elif node['op'] in ('value', 'recognize', 'consumed', 'delimited', 'map_res', 'map_opt', 'verify', 'into'):
                    if not lexeme:
                        res.fail('%s:%s:value-combinator:%s' % (g.crate, fn.name, node['op']),
                                 '%s/%s:%s' % (g.crate, fn.file, node.get('l')),
                                 '%s: combinator `%s` replaces or drops parser output; not an accepted construction form'
                                 % (fn.name, node['op']))
                elif node['op'] == 'unmodelled':
                    res.undecided('%s:%s:unmodelled:%s' % (g.crate, fn.name, node['text'][:40]),
                                  '%s/%s:%s' % (g.crate, fn.file, node.get('l')),
                                  '%s: parser expression `%s` is outside the modelled combinator vocabulary' % (fn.name, node['text'][:80]))
    res.floor('parser_and_helper_bodies', n_fn, 1180)
    res.floor('map_closures', res.counts.get('map_closures', 0), 690)
    res.counts['sequence_steps'] = n_seq
    res.counts['lexeme_functions_left_to_G2'] = len(skipped_lexemes)
    res3.floor('drop_sites', res3.instances, 55)
    return [res, res3]
