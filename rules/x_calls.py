"""X8 recursion ranking, X9 named-parameter threading, X10 adoption of nested results, X11 no file access under
ignore_include, X12 include search shape, P2 io error mapping (E1 over sv-parser-pp and sv-parser)."""
from vlib import sx
from vlib.report import RuleResult
from rules.x_pp import model, sq, arm_of_line, stmts_with_scope, resolve_let, table_var

PP = 'sv-parser-pp'
API = 'sv-parser'

TRACKED = ('strip_comments', 'ignore_include', 'include_paths', 'allow_incomplete', 'path', 'pre_defines', 'defines',
           'resolve_depth', 'include_depth', 's', 'text')
DEPTH = ('resolve_depth', 'include_depth')
# parameter -> caller-side variables that legitimately stand for it
ALIASES = {
    'pre_defines': ('defines', 'pre_defines'),   # the live table is handed to nested runs
    'defines': ('defines', 'pre_defines'),
    's': ('s', 'replaced'),                       # the text to preprocess: the caller's own text or the expansion
}
# (callee, parameter) -> (constant, set of callers allowed to pass it, reason)
CONSTANTS = {
    ('preprocess', 'strip_comments'): ('false', {'parse_sv', 'parse_lib'}, 'C20: the parse_* family preprocesses with strip_comments off'),
    ('preprocess_str', 'strip_comments'): ('false', {'parse_sv_str', 'parse_lib_str'}, 'C20: the parse_* family preprocesses with strip_comments off'),
    ('preprocess_str', 'resolve_depth'): ('0', {'parse_sv_str', 'parse_lib_str'}, 'public entry starts the macro-depth counter at 0'),
    ('preprocess_str', 'include_depth'): ('0', {'parse_sv_str', 'parse_lib_str'}, 'public entry starts the include-depth counter at 0'),
    ('preprocess_inner', 'include_depth'): ('0', {'preprocess'}, 'public entry starts the include-depth counter at 0'),
    ('preprocess_inner', 'resolve_depth'): ('0', {'preprocess'}, 'public entry starts the macro-depth counter at 0'),
    ('preprocess_inner', 'ignore_include'): ('false', {'preprocess_str'}, 'an included file is read because includes are not ignored'),
    ('preprocess_str', 'ignore_include'): ('false', {'resolve_text_macro_usage'}, 'includes inside a macro expansion are followed'),
}


def fn_table(ctx):
    """name -> (crate, file, fn item, param names) for free functions of sv-parser-pp and sv-parser"""
    out = {}
    for crate in (PP, API):
        for fl, mp, fn, im in sx.crate_fns(ctx.syn, crate):
            if im is not None:
                continue
            names = []
            for p in fn['sig']['params']:
                if p.get('k') == 'typed':
                    ids = sx.pat_idents(p['pat'])
                    names.append(ids[0] if ids else None)
            out[fn['name']] = (crate, fl, fn, names)
    return out


def call_sites(ctx, tab):
    """(caller, callee, call node) for every call between the functions of the table"""
    out = []
    for name, (crate, fl, fn, names) in tab.items():
        for n in sx.walk(fn['body']):
            if n.get('k') == 'call' and sx.is_path(n['f']):
                cal = n['f']['p'].split('::')[-1]
                if cal in tab and len(n['args']) == len(tab[cal][3]):
                    out.append((name, cal, n))
    return out


def arg_base(e):
    """strip &, .as_ref(), .clone(), *"""
    while True:
        if e.get('k') == 'ref' or (e.get('k') == 'unary' and e['op'] == '*'):
            e = e['e']
        elif e.get('k') == 'mcall' and e['m'] in ('as_ref', 'clone', 'as_str', 'text') and not e['args']:
            e = e['recv']
        else:
            return e


_LOCAL_ARITH = [{}]      # caller -> {local: init expr}, set per caller by x9/x8


def simple_arith_locals(fn):
    """locals bound exactly once (immutably) to parameter arithmetic: `let next = depth + 1;`"""
    cnt, init = {}, {}
    for n in sx.walk(fn['body']):
        if n.get('k') == 'let' and n.get('pat', {}).get('k') == 'ident':
            nm = n['pat']['n']
            cnt[nm] = cnt.get(nm, 0) + 1
            if 'init' in n and not n['pat'].get('mut'):
                e = n['init']
                if all(x.get('k') in ('path', 'lit', 'binary') for x in sx.walk(e) if isinstance(x, dict) and 'k' in x):
                    init[nm] = e
        if n.get('k') == 'assign' and sx.is_path(n['l_']):
            cnt[n['l_']['p']] = cnt.get(n['l_']['p'], 0) + 2
    return {k: v for k, v in init.items() if cnt.get(k) == 1}


def transfer(arg, param):
    """classify an argument against the parameter it is bound to"""
    b = arg_base(arg)
    if sx.is_path(b) and b['p'] in _LOCAL_ARITH[0] and b['p'] != param:
        b = arg_base(_LOCAL_ARITH[0][b['p']])
    if sx.is_path(b):
        if b['p'] == param:
            return 'same', b['p']
        if b['p'] in ALIASES.get(param, ()):
            return 'alias', b['p']
        return 'other-var', b['p']
    if b.get('k') == 'lit':
        return 'const', str(b['v']).lower() if isinstance(b['v'], bool) else str(b['v'])
    if b.get('k') == 'binary' and b['op'] == '+' and sx.is_path(b['l_']) and sx.lit_int(b['r']) is not None:
        return ('inc%d' % sx.lit_int(b['r'])), b['l_']['p']
    if b.get('k') == 'binary' and b['op'] == '+' and sx.is_path(b['r']) and sx.lit_int(b['l_']) is not None:
        return ('inc%d' % sx.lit_int(b['l_'])), b['r']['p']
    return 'expr', sx.render(arg)[:40]


_CONSTS = {}


def x9(ctx, tab, sites, scc=()):
    _CONSTS.clear()
    r = RuleResult('X9', 'flags, paths, tables and depth counters are forwarded to the parameter of the same name')
    n = 0
    inlined = {}
    rebinds = {}
    for caller, callee, call in sites:
        crate, fl, fn, names = tab[caller]
        # locals bound once to a literal stand for that literal
        if caller not in inlined:
            lits = {}
            cnt = {}
            for nn in sx.walk(fn['body']):
                if nn.get('k') == 'let' and 'pat' in nn and nn['pat'].get('k') == 'ident':
                    cnt[nn['pat']['n']] = cnt.get(nn['pat']['n'], 0) + 1
                    if 'init' in nn and nn['init'].get('k') == 'lit':
                        lits[nn['pat']['n']] = nn['init']
            inlined[caller] = {k: v for k, v in lits.items() if cnt.get(k) == 1 and k not in names}
        call = dict(call)
        # crate-level constants with a literal value stand for that literal too (`const STRIP_COMMENTS: bool = false;`)
        if crate not in _CONSTS:
            cl_ = {}
            for fl_, fv_ in sx.crate_files(ctx.syn, crate).items():
                for mp_, it_ in sx.items_rec(fv_['items']):
                    if it_['k'] == 'const' and isinstance(it_.get('e'), dict) and it_['e'].get('k') == 'lit':
                        cl_[it_['name']] = it_['e']
            _CONSTS[crate] = cl_
        call['args'] = [inlined[caller].get(a_['p'], _CONSTS[crate].get(a_['p'], a_) if a_['p'] not in names else a_) if sx.is_path(a_) else a_ for a_ in call['args']]
        pnames = tab[callee][3]
        for i, (arg, pn) in enumerate(zip(call['args'], pnames)):
            if pn not in TRACKED:
                continue
            if len(pnames) < 2 and pn not in DEPTH:
                continue   # single-argument helpers: the parameter's name says nothing about threading there
            n += 1
            _LOCAL_ARITH[0] = simple_arith_locals(fn)
            kind, what = transfer(arg, pn)
            key = '%s:%s->%s:%s' % (crate, caller, callee, pn)
            where = '%s/%s:%s' % (crate, fl, arg.get('l') or call.get('l'))
            r.inst(key, {'call': '%s -> %s' % (caller, callee), 'param': pn, 'argument': sx.render(arg)[:40], 'class': kind}
                   if n % 7 == 1 else None)
            if kind in ('alias', 'same') and pn in ('pre_defines', 'defines'):
                # inside the event-loop function the table in force is the live one (the local that `define / `undef write and nested runs
                # replace); the parameter it was seeded from is the table as it was when the run STARTED — handing that to a nested run
                # makes the included file / the expansion see none of the definitions and undefinitions made so far in this text
                try:
                    pp_ = model(ctx)
                    loop_name_, live_ = pp_.loop_fn['name'], table_var(pp_)
                except Exception:
                    loop_name_, live_ = None, None
                if loop_name_ is not None and caller == loop_name_ and live_ and what != live_ and what in names:
                    r.fail(key + ':stale-table', where,
                           '%s hands its parameter `%s` to %s as `%s`: that is the define table the run started with, not the live table `%s` — the nested run (included file, '
                           'macro expansion) does not see what was defined or undefined earlier in this text, and its result then replaces the live table' %
                           (caller, what, callee, pn, live_), {'caller': caller, 'callee': callee, 'param': pn})
                    continue
            if kind == 'same' and (what in DEPTH or what in ('strip_comments', 'ignore_include', 'allow_incomplete')) and what in names:
                # ... nor if the parameter is changed in place (`include_depth += 1;`): a counter bumped in place is never restored when the nested
                # run returns, so it counts the directives seen so far instead of the nesting depth; a flag assigned in place is no longer the caller's
                muts_ = [nn for nn in sx.walk(fn['body']) if nn.get('k') in ('assign', 'binary') and str(nn.get('op', '=')).endswith('=')
                         and nn.get('op') not in ('==', '<=', '>=', '!=') and sx.is_path(nn.get('l_', {}), what) and (nn.get('l') or 0) <= (call.get('l') or 0)]
                if muts_:
                    r.fail(key + ':mutated', '%s/%s:%s' % (crate, fl, muts_[0].get('l')),
                           '%s changes its parameter `%s` in place (`%s`) and hands it to %s: %s' %
                           (caller, what, sx.render(muts_[0])[:40], callee,
                            'the counter is not restored when the nested run returns, so it counts the directives processed so far, not the nesting depth — a flat file with many '
                            'includes / usages hits the limit' if what in DEPTH else 'the callee does not receive the value the caller was given'),
                           {'caller': caller, 'callee': callee, 'param': pn})
                    continue
            if kind == 'same':
                # the caller's own value: not if the name was re-bound to something else before the call
                if caller not in rebinds:
                    rb = {}
                    for nn in fn['body']['stmts']:      # top-level statements only: a shadowing inside a nested block has its own scope
                        if nn.get('k') == 'let' and 'pat' in nn and 'init' in nn:
                            for idn in [x_ for x_ in sx.pat_idents(nn['pat']) if x_]:
                                if idn in names and idn in TRACKED:
                                    b_ = arg_base(nn['init'])
                                    while isinstance(b_, dict) and b_.get('k') == 'mcall' and b_['m'] in ('as_ref', 'clone', 'to_owned', 'into', 'as_str', 'borrow', 'to_path_buf', 'as_path', 'iter') and not b_['args']:
                                        b_ = arg_base(b_['recv'])
                                    if not sx.is_path(b_, idn):
                                        rb[idn] = nn
                    rebinds[caller] = rb
                rb_ = rebinds[caller].get(what)
                if rb_ is not None and (rb_.get('l') or 0) <= (call.get('l') or 0):
                    r.fail(key + ':rebound', '%s/%s:%s' % (crate, fl, rb_.get('l')),
                           '%s re-binds its parameter `%s` (`%s`) before handing it to %s: the callee does not receive the value the caller was given' %
                           (caller, what, sx.render(rb_)[:70], callee), {'caller': caller, 'callee': callee, 'param': pn})
                continue
            if kind == 'alias':
                continue
            if kind == 'const':
                c = CONSTANTS.get((callee, pn))
                if c and c[0] == what and caller in c[1]:
                    continue
                # the same constant handed in by another function that plays the entry role: outside the recursion, without a parameter
                # of that name of its own (so nothing of the caller is dropped), in the façade crate or private to it
                if c and c[0] == what and pn not in names and caller not in scc and crate == 'sv-parser' and any(x_ in c[1] for x_ in tab if tab[x_][0] == 'sv-parser'):
                    continue
                if pn in DEPTH:
                    # a reset of a ranking counter inside the recursion is X8's finding; a wrong constant elsewhere is ours
                    if caller in scc and callee in scc:
                        continue
                    if c is None or caller not in c[1]:
                        r.fail(key + ':const', where,
                               '%s passes the constant %s for `%s` of %s: the counter is reset instead of being carried' % (caller, what, pn, callee),
                               {'caller': caller, 'callee': callee, 'param': pn, 'arg': what})
                    continue
                r.fail(key + ':const', where,
                       '%s passes the constant %s for `%s` of %s%s' % (caller, what, pn, callee,
                                                                        ('; expected %s (%s)' % (c[0], c[2])) if c else ': the caller\'s own value is not forwarded'))
                continue
            if kind.startswith('inc'):
                if pn in DEPTH and what == pn and kind == 'inc1':
                    # a level is counted where the directive is met — in the event-loop function; the wrappers around it (the file entry, the
                    # macro resolver) hand their counters on unchanged, otherwise the file entry and the string entry start at different depths
                    try:
                        loop_name_ = model(ctx).loop_fn['name']
                    except Exception:
                        loop_name_ = None
                    if loop_name_ is not None and caller != loop_name_ and callee == loop_name_:
                        r.fail(key + ':inc-in-wrapper', where,
                               '%s passes `%s` for `%s` of %s: a nesting level is counted by the function that meets the directive, not by the wrapper that re-enters it — here the same '
                               'text is processed one level deeper through this entry than through the string entry, so the two entries disagree at the limit' % (caller, sx.render(arg), pn, callee),
                               {'caller': caller, 'callee': callee, 'param': pn})
                    continue
                r.fail(key + ':inc', where, '%s passes `%s` for `%s` of %s' % (caller, sx.render(arg), pn, callee))
                continue
            if kind == 'other-var':
                # positional mix-up: another tracked variable lands in this parameter
                if what in TRACKED or what in ('strip_comments', 'ignore_include', 'allow_incomplete'):
                    r.fail(key + ':swapped', where,
                           '%s passes its `%s` as `%s` of %s (positional arguments swapped)' % (caller, what, pn, callee),
                           {'caller': caller, 'callee': callee, 'param': pn, 'arg': what})
                    continue
                # a local that holds the value (e.g. `text`, `defines` from a previous step) — accept locals of
                # the same type role only for `path` (the resolved include path) and `text`
                if pn == 'path' and what not in names:
                    continue   # a local holding a path (the resolved include file): X12 decides that it is the searched one
                if pn in ('text', 'defines'):
                    continue
                if pn == 's' and what not in names:
                    continue   # a local holding the text to preprocess (file contents, expansion): W6 / X13 decide which
                r.fail(key + ':other-var', where, '%s passes `%s` for `%s` of %s' % (caller, what, pn, callee))
                continue
            if pn in DEPTH or pn in ('strip_comments', 'ignore_include', 'allow_incomplete', 'incomplete'):
                r.fail(key + ':expr', where, '%s passes the expression `%s` for `%s` of %s: a flag or counter must be forwarded as it was received' % (caller, what, pn, callee))
            else:
                r.undecided(key + ':expr', where, '%s passes the expression `%s` for `%s` of %s: not a form whose value the rule can name' % (caller, what, pn, callee))
    r.floor('tracked_argument_bindings', n, 60)
    return r


def x8(ctx, tab, sites, pp):
    r = RuleResult('X8', 'recursion through the preprocessor is ranked: no cycle without a guarded, never-reset counter')
    # SCC containing the loop function
    g = {}
    for caller, callee, call in sites:
        g.setdefault(caller, set()).add(callee)
    loopf = pp.loop_fn['name']

    def reach(a):
        seen, todo = set(), [a]
        while todo:
            x = todo.pop()
            for y in g.get(x, ()):
                if y not in seen:
                    seen.add(y)
                    todo.append(y)
        return seen
    scc = {f for f in reach(loopf) if loopf in reach(f)} | ({loopf} if loopf in reach(loopf) else set())
    r.inst('scc', {'recursive_component': sorted(scc)})
    if len(scc) < 2:
        r.fail('%s:scc' % PP, pp.where(pp.loop_fn['l']), 'the recursive component around %s was not found (fail closed)' % loopf)
        return r
    # counters: usize parameters compared with RECURSIVE_LIMIT
    limit_name = None
    limit_val = None
    for name, c in pp.consts.items():
        if c['tys'] == 'usize' and sx.lit_int(c['e']) is not None and 'LIMIT' in name:
            limit_name, limit_val = name, sx.lit_int(c['e'])
    r.exactly('limit_constant', 1 if limit_name else 0, 1)
    guards = {}   # counter -> (function, op)
    FLIP = {'<': '>', '<=': '>=', '>': '<', '>=': '<=', '==': '==', '!=': '!='}

    def cmp_with_limit(e_):
        """(counter expression, operator) of a comparison with the limit constant, normalised to `counter OP LIMIT`"""
        if e_.get('k') == 'paren':
            e_ = e_['e']
        if e_.get('k') != 'binary' or e_.get('op') not in FLIP:
            return None
        if sx.is_path(e_['r'], limit_name) and sx.is_path(e_['l_']):
            return e_['l_']['p'], e_['op']
        if sx.is_path(e_['l_'], limit_name) and sx.is_path(e_['r']):
            return e_['r']['p'], FLIP[e_['op']]
        return None
    for f in scc:
        fn = tab[f][2]
        for n in sx.walk(fn['body']):
            cw = cmp_with_limit(n['c']) if n.get('k') == 'if' and isinstance(n.get('c'), dict) else None
            if cw:
                ctr = cw[0]
                rets = [x for x in sx.walk(n['t']) if x.get('k') == 'return' and 'ExceedRecursiveLimit' in sq(x)]
                if rets:
                    guards[ctr] = (f, cw[1], n.get('l'))
            # the comparison may live in a one-expression private predicate: `if exceeds(counter) { return Err(ExceedRecursiveLimit) }`
            if n.get('k') == 'if' and sx.is_call(n['c']) and n['c']['f']['p'] in pp.fns and len(n['c']['args']) == 1 and sx.is_path(n['c']['args'][0]):
                h = pp.fns[n['c']['f']['p']]
                hs = h['body']['stmts']
                hp = [sx.pat_idents(q['pat'])[0] for q in h['sig']['params'] if q.get('k') == 'typed']
                if len(hs) == 1 and hs[0]['k'] == 'expr' and not hs[0].get('semi') and len(hp) == 1:
                    e_ = hs[0]['e']
                    cw = cmp_with_limit(e_)
                    if cw and cw[0] == hp[0]:
                        rets = [x for x in sx.walk(n['t']) if x.get('k') == 'return' and 'ExceedRecursiveLimit' in sq(x)]
                        if rets:
                            guards[n['c']['args'][0]['p']] = (f, cw[1], n.get('l'))
    counters = sorted(guards)
    r.inst('guards', {'guards': {k: '%s: %s %s %s' % (v[0], k, v[1], limit_name) for k, v in guards.items()}})
    if not counters:
        r.fail('%s:no-guard' % PP, pp.where(1), 'no `counter > %s => ExceedRecursiveLimit` guard in %s' % (limit_name, sorted(scc)))
        return r
    # edges inside the SCC with per-counter transfer
    edges = []
    for caller, callee, call in sites:
        if caller in scc and callee in scc:
            pn = tab[callee][3]
            tr = {}
            for c in counters:
                if c in pn:
                    _LOCAL_ARITH[0] = simple_arith_locals(tab[caller][2])
                    kind, what = transfer(call['args'][pn.index(c)], c)
                    if kind == 'same':
                        tr[c] = 'same'
                    elif kind == 'inc1' and what == c:
                        tr[c] = '+1'
                    elif kind == 'const':
                        tr[c] = 'reset(%s)' % what
                    else:
                        tr[c] = 'other(%s)' % what
                else:
                    tr[c] = 'dropped'
            edges.append((caller, callee, call, tr))
    for caller, callee, call, tr in edges:
        for c, t in tr.items():
            key = '%s:%s->%s:%s' % (PP, caller, callee, c)
            r.inst(key, {'edge': '%s -> %s' % (caller, callee), 'counter': c, 'transfer': t})
            if t not in ('same', '+1'):
                # a counter the caller does not have cannot be carried; it is then a drop on the caller's side
                r.fail(key + ':reset', '%s/%s:%s' % (PP, tab[caller][1], call.get('l')),
                       'recursive edge %s -> %s: ranking counter `%s` is %s — alternating the two cycles (macro expanding to an '
                       '`include of the file that uses it) never reaches the limit: unbounded recursion / stack overflow' %
                       (caller, callee, c, 'not carried (the callee has no such parameter, so its own calls start again from a constant)'
                        if t == 'dropped' else t),
                       {'edge': [caller, callee], 'counter': c, 'transfer': t})
    # ranking counters are never modified inside a function: the value a callee receives is a pure function of the
    # value the caller received (an in-place `counter += 1` makes siblings, not only nested levels, count)
    for f in sorted(scc):
        fn = tab[f][2]
        for p_ in fn['sig']['params']:
            if p_.get('k') == 'typed' and p_['pat'].get('k') == 'ident' and p_['pat']['n'] in counters:
                r.inst('immutable:%s:%s' % (f, p_['pat']['n']))
                if p_['pat'].get('mut'):
                    r.fail('%s:%s:counter-mutable:%s' % (PP, f, p_['pat']['n']), '%s/%s:%s' % (PP, tab[f][1], fn['l']),
                           '%s declares the ranking counter `%s` as `mut`' % (f, p_['pat']['n']))
        for n in sx.walk(fn['body']):
            tgt = None
            if n.get('k') == 'assign' and sx.is_path(n['l_']):
                tgt = n['l_']['p']
            if n.get('k') == 'binary' and n['op'] in ('+=', '-=', '*=', '/=') and sx.is_path(n['l_']):
                tgt = n['l_']['p']
            if n.get('k') == 'let' and 'pat' in n and any(x in counters for x in sx.pat_idents(n['pat']) if x) and 'init' in n:
                tgt = [x for x in sx.pat_idents(n['pat']) if x in counters][0]
            if tgt in counters:
                r.fail('%s:%s:counter-modified:%s' % (PP, f, tgt), '%s/%s:%s' % (PP, tab[f][1], n.get('l')),
                       '%s modifies the ranking counter `%s` in place (%s): the depth then also counts siblings already processed, so legal '
                       'inputs hit the limit (or, if decremented, recursion is no longer bounded)' % (f, tgt, sx.render(n)[:50]))
    # every simple cycle increments a guarded counter and passes through its guard
    cycles = []

    def dfs(path):
        last = path[-1]
        for e in edges:
            if e[0] != last:
                continue
            if e[1] == path[0]:
                cycles.append(path + [e[1]])
            elif e[1] not in path:
                dfs(path + [e[1]])
    for f in sorted(scc):
        dfs([f])
    seen = set()
    for cyc in cycles:
        canon = tuple(sorted(cyc[:-1]))
        if canon in seen:
            continue
        seen.add(canon)
        incs = set()
        for a, b in zip(cyc, cyc[1:]):
            for e in edges:
                if e[0] == a and e[1] == b:
                    incs |= {c for c, t in e[3].items() if t == '+1'}
        guarded = {c for c in incs if guards[c][0] in cyc}
        r.inst('cycle:' + '>'.join(cyc), {'cycle': cyc, 'incremented': sorted(incs), 'guarded_on_cycle': sorted(guarded)})
        # each level of one kind of nesting costs exactly one unit of exactly one budget: otherwise nestings that are legal
        # (each kind <= LIMIT) fail early with ExceedRecursiveLimit
        import itertools as _it
        per_hop = []
        for a, b in zip(cyc, cyc[1:]):
            per_hop.append([e for e in edges if e[0] == a and e[1] == b])
        _rep = set()
        for combo in _it.product(*per_hop):
            tot = {c: sum(1 for e in combo if e[3].get(c) == '+1') for c in counters}
            spent = {c: n_ for c, n_ in tot.items() if n_}
            if len(spent) > 1 and 'couple' not in _rep:
                _rep.add('couple')
                ln_ = [e[2].get('l') for e in combo if any(t == '+1' for t in e[3].values())]
                r.fail('%s:cycle-couples-budgets:%s' % (PP, '>'.join(cyc)), pp.where(ln_[-1] if ln_ else tab[cyc[0]][2]['l']),
                       'one round of the call cycle %s increments %s: every level of this kind of nesting also uses up the other budget, so nestings '
                       'within both limits (for example a macro chain inside a deep include chain) end in ExceedRecursiveLimit' %
                       (' -> '.join(cyc), ' and '.join('`%s`' % c for c in sorted(spent))))
            elif len(spent) <= 1 and any(n_ > 1 for n_ in spent.values()) and 'twice' not in _rep:
                _rep.add('twice')
                c_ = [c for c, n_ in spent.items() if n_ > 1][0]
                r.fail('%s:cycle-counts-twice:%s' % (PP, '>'.join(cyc)), pp.where(tab[cyc[0]][2]['l']),
                       'one round of the call cycle %s increments `%s` %d times: only %s/%d levels succeed' % (' -> '.join(cyc), c_, spent[c_], limit_name, spent[c_]))
        if not guarded:
            r.fail('%s:cycle-unranked:%s' % (PP, '>'.join(cyc)), pp.where(tab[cyc[0]][2]['l']),
                   'call cycle %s has no counter that is both incremented and tested against %s on the cycle' % (' -> '.join(cyc), limit_name))
    # arithmetic: public wrappers start at 0; `>` => LIMIT nested levels succeed
    for c, (f, op, ln) in guards.items():
        r.inst('arith:' + c, {'counter': c, 'guard': '%s %s %s' % (c, op, limit_name), 'limit': limit_val})
        if op != '>':
            r.fail('%s:guard-op:%s' % (PP, c), pp.where(ln), 'guard on `%s` uses `%s`; with a counter starting at 0, `>` is what lets exactly %s nested levels succeed' % (c, op, limit_name))
    r.inst('limit-value', {'RECURSIVE_LIMIT': limit_val})
    if limit_val != 64:
        r.fail('%s:limit-value' % PP, pp.where(pp.consts[limit_name]['l']), '%s is %s; the documented limit is 64' % (limit_name, limit_val))
    if limit_val is not None and limit_val < 15:
        r.fail('%s:limit-floor' % PP, pp.where(pp.consts[limit_name]['l']), '%s is %s; IEEE 1800-2017 22.4 requires at least 15 include levels' % (limit_name, limit_val))
    # entries start the counters at 0
    for caller, callee, call in sites:
        if caller in scc or callee not in scc:
            continue
        pn = tab[callee][3]
        for c in counters:
            if c in pn:
                _LOCAL_ARITH[0] = simple_arith_locals(tab[caller][2])
                kind, what = transfer(call['args'][pn.index(c)], c)
                r.inst('entry:%s->%s:%s' % (caller, callee, c), {'entry': caller, 'counter': c, 'start': what})
                if not ((kind == 'const' and what == '0') or (kind == 'same')):
                    r.fail('%s:entry-start:%s->%s:%s' % (PP, caller, callee, c), '%s/%s:%s' % (tab[caller][0], tab[caller][1], call.get('l')),
                           'entry %s starts `%s` at %s instead of 0' % (caller, c, what))
    return r


def _include_path_var(pp, arm):
    """the local of the `include handler that holds the file to include: the one initialised from the match over the forms of the
    directive (directly or through a private helper that contains that match)"""
    def has_forms(e):
        return any(n.get('k') == 'match' and any(a['pat'].get('k') == 'ts' and a['pat']['p'].startswith('IncludeCompilerDirective::') for a in n['arms'])
                   for n in sx.walk(e))
    for st in arm.body.get('stmts', []):
        if st['k'] == 'let' and 'init' in st and st['pat'].get('k') == 'ident':
            if has_forms(st['init']):
                return st['pat']['n']
            for n in sx.walk(st['init']):
                if sx.is_call(n) and n['f']['p'] in pp.fns and has_forms(pp.fns[n['f']['p']]['body']):
                    return st['pat']['n']
    return None


def _tuple_components(ty):
    """components of the first (outermost) tuple type in a type string without blanks"""
    a = ty.find('(')
    if a < 0:
        return []
    depth, cur, out = 0, '', []
    for ch in ty[a + 1:]:
        if ch in '(<[':
            depth += 1
        elif ch in ')>]':
            if depth == 0:
                out.append(cur)
                return [c for c in out if c]
            depth -= 1
        if ch == ',' and depth == 0:
            out.append(cur)
            cur = ''
        else:
            cur += ch
    return []


def x10_x12_p2(ctx, tab, sites, pp):
    r10 = RuleResult('X10', 'results of nested runs are adopted (defines, text) and include errors are wrapped')
    r11 = RuleResult('X11', 'no file is opened under ignore_include')
    r12 = RuleResult('X12', 'include search: literal path first, then include paths in order, first hit wins')
    p2 = RuleResult('P2', 'io errors are mapped to Error::File / Error::ReadUtf8 naming the path tried; none is dropped')
    loopf = pp.loop_fn['name']
    # ---------- X10
    for chain, stmts, i, st in stmts_with_scope(pp.loop_fn['body']):
        # let (include, new_defines) = preprocess_inner(..).map_err(..)?;
        if st['k'] == 'let' and 'init' in st:
            init = st['init']
            calls = [n for n in sx.walk(init) if n.get('k') == 'call' and sx.is_path(n['f']) and n['f']['p'] in tab
                     and n['f']['p'] != loopf and tab[n['f']['p']][0] == PP and n['f']['p'] in ('preprocess_inner',) + tuple(
                         f for f in tab if f != loopf and any(c == f and cal == loopf for c, cal, _ in sites))]
            calls = [c for c in calls if any(cc == c['f']['p'] and cal == loopf for cc, cal, _ in sites) or c['f']['p'] == 'preprocess_inner']
            if not calls:
                continue
            callee = calls[0]['f']['p']
            ids = [x for x in sx.pat_idents(st['pat']) if x]
            rest = stmts[i + 1:]
            rest_txt = [sq(x) for x in rest]
            r10.inst('adopt:%s' % callee, {'call': callee, 'binds': ids, 'then': rest_txt[:3]})
            tabv = table_var(pp)
            if len(ids) == 2:
                txt_v, def_v = ids
                if '%s=%s;' % (tabv, def_v) not in rest_txt:
                    r10.fail('%s:%s:defines-not-adopted' % (PP, callee), pp.where(st.get('l')),
                             'the define table returned by %s (`%s`) does not replace the live table (`defines = %s`): definitions — or, if it is merely merged, undefinitions — made in the included file do not remain in force' % (callee, def_v, def_v))
                if '%s.merge(%s);' % (pp.out_var, txt_v) not in rest_txt:
                    r10.fail('%s:%s:text-not-merged' % (PP, callee), pp.where(st.get('l')),
                             'the text returned by %s (`%s`) is not merged into the output' % (callee, txt_v))
                wraps = [n for n in sx.walk(init) if n.get('k') == 'mcall' and n['m'] == 'map_err']
                # the wrapper may be a closure or a private function handed to map_err by name: read the function as the closure
                if len(wraps) == 1 and wraps[0]['args'] and sx.is_path(wraps[0]['args'][0]) and wraps[0]['args'][0]['p'] in pp.fns:
                    wf = pp.fns[wraps[0]['args'][0]['p']]
                    wps = [q for q in wf['sig']['params'] if q.get('k') == 'typed']
                    if len(wps) == 1:
                        wraps = [dict(wraps[0], args=[{'k': 'closure', 'params': [wps[0]['pat']], 'body': wf['body'], 'l': wf.get('l')}])]
                okw = len(wraps) == 1 and 'Error::Include' in sq(wraps[0]['args'][0]) and init.get('k') == 'try'
                r10.inst('wrap:%s' % callee)
                if not okw:
                    r10.fail('%s:%s:error-not-wrapped' % (PP, callee), pp.where(st.get('l')),
                             'an error of the included run must be wrapped once in Error::Include{source} and propagated with `?`')
                else:
                    cl = wraps[0]['args'][0]
                    ids_c = sx.pat_idents(cl['params'][0]) if cl.get('k') == 'closure' else []
                    if not ids_c or 'Box::new(%s)' % ids_c[0] not in sq(cl['body']):
                        r10.fail('%s:%s:error-wrap-source' % (PP, callee), pp.where(st.get('l')), 'Error::Include must carry the inner error as its source')
    # macro expansions: if let Some((text, origin, new_defines)) = resolver(..)? { push; defines = new_defines }
    n_res = 0
    for n in sx.walk(pp.loop_fn['body']):
        if n.get('k') == 'if' and n['c'].get('k') == 'let':
            src = n['c']['e']
            inner = src['e'] if src.get('k') == 'try' else src
            if sx.is_call(inner) and inner['f']['p'] in tab and inner['f']['p'] != loopf and tab[inner['f']['p']][0] == PP \
                    and any(c == inner['f']['p'] and cal == loopf for c, cal, _ in sites):
                ids = [x for x in sx.pat_idents(n['c']['pat']) if x]
                arm = arm_of_line(pp, n.get('l'))
                body = [sq(x) for x in n['t']['stmts']]
                n_res += 1
                r10.inst('resolver-result:%s:%d' % (arm.key if arm else '-', n_res), {'arm': arm.key if arm else '-', 'binds': ids, 'then': body[:3]})
                if src.get('k') != 'try':
                    r10.fail('%s:%s:resolver-error-dropped' % (PP, arm.key if arm else '-'), pp.where(n.get('l')), 'errors of the macro resolver must be propagated with `?`')
                # which component of the returned tuple is the define table?  (from the callee's return type)
                rets = (tab[inner['f']['p']][2]['sig'].get('rets') or '').replace(' ', '')
                comps = _tuple_components(rets)
                tpos = [j for j, c in enumerate(comps) if c.startswith('Defines')]
                all_ids = sx.pat_idents(n['c']['pat'])
                emitted = any(b.startswith('%s.push(' % pp.out_var) or b.startswith('%s.merge(' % pp.out_var) for b in body) or \
                    any(n2.get('k') == 'mcall' and n2['m'] in ('push', 'merge') and sx.is_path(n2['recv'], pp.out_var) for n2 in sx.walk(n['t']))
                if len(tpos) == 1 and len(all_ids) == len(comps):
                    tv = all_ids[tpos[0]]
                    if tv is None:
                        if emitted:
                            r10.fail('%s:%s:expansion-defines-not-adopted' % (PP, arm.key if arm else '-'), pp.where(n.get('l')),
                                     'the define table returned by the expansion is matched by `_` although the expanded text is emitted: a `define / `undef that becomes '
                                     'active through the expansion does not reach the enclosing table, so later `ifdef / `ifndef / `elsif test a stale table')
                    elif '%s=%s;' % (table_var(pp), tv) not in body:
                        if emitted:
                            r10.fail('%s:%s:expansion-defines-not-adopted' % (PP, arm.key if arm else '-'), pp.where(n.get('l')),
                                     'the define table returned by the expansion (`%s`) is not adopted' % tv)
                        else:
                            r10.undecided('%s:%s:expansion-defines' % (PP, arm.key if arm else '-'), pp.where(n.get('l')),
                                          'the define table returned by the expansion (`%s`) is bound but neither adopted nor is the text emitted' % tv)
                elif len(ids) == 3:
                    if '%s=%s;' % (table_var(pp), ids[2]) not in body:
                        r10.fail('%s:%s:expansion-defines-not-adopted' % (PP, arm.key if arm else '-'), pp.where(n.get('l')),
                                 'the define table returned by the expansion (`%s`) is not adopted' % ids[2])
    r10.floor('nested_run_sites', r10.instances, 3)

    # ---------- X11: calls that reach File::open from the loop are control dependent on !ignore_include
    direct_opens = {f for f, (cr, fl, fn, _) in tab.items() if cr == PP and any(sx.is_call(n) and n['f']['p'].endswith('File::open') for n in sx.walk(fn['body']))}
    # functions from which a file open is reachable (through helper functions), excluding the loop function itself
    opens = set(direct_opens)
    changed = True
    while changed:
        changed = False
        for caller, callee, call in sites:
            if callee in opens and caller not in opens and caller != loopf and tab[caller][0] == PP:
                opens.add(caller)
                changed = True
    r11.floor('functions_opening_files', len(direct_opens), 1)
    for n in sx.walk(pp.loop_fn['body']):
        if n.get('k') == 'call' and sx.is_path(n['f']) and n['f']['p'] in opens:
            arm = arm_of_line(pp, n.get('l'))
            g = sq(arm.guard) if arm and arm.guard else None
            r11.inst('open-site:%s' % (arm.key if arm else '-'), {'arm': arm.key if arm else '-', 'guard': g, 'callee': n['f']['p']})
            if g != '!ignore_include':
                r11.fail('%s:%s:open-unguarded' % (PP, arm.key if arm else '-'), pp.where(n.get('l')),
                         'call of %s (opens a file) is not under an arm guarded by `!ignore_include` (guard: %s)' % (n['f']['p'], g))
    # nothing else touches the file system
    fs_calls = []
    for f, (cr, fl, fn, _) in tab.items():
        if cr != PP:
            continue
        for n in sx.walk(fn['body']):
            if n.get('k') == 'mcall' and n['m'] in ('exists', 'is_file', 'is_dir', 'metadata', 'canonicalize', 'read_dir'):
                fs_calls.append((f, n))
    for f, n in fs_calls:
        arm = arm_of_line(pp, n.get('l')) if f == loopf else None
        g = sq(arm.guard) if arm and arm.guard else None
        r11.inst('fs-probe:%s:%s' % (f, n['m']), {'fn': f, 'probe': n['m'], 'guard': g})
        if f == loopf and g != '!ignore_include':
            r11.fail('%s:%s:fs-probe-unguarded:%s' % (PP, f, n['m']), pp.where(n.get('l')), 'file-system probe `.%s()` outside the `!ignore_include` arm' % n['m'])

    # ---------- X12
    inc = [a for a in pp.arms if a.event == 'Enter' and a.kind == 'IncludeCompilerDirective']
    r12.exactly('include_arm', len(inc), 1)
    if inc:
        arm = inc[0]
        # the search: a loop over the include paths, in the arm itself or in a private helper the arm hands `include_paths` to
        host_body, host_name, pathv, ipv = arm.body, loopf, _include_path_var(pp, arm) or 'path', 'include_paths'
        arm_pathv = pathv
        fors = [n for n in sx.walk(arm.body) if n.get('k') == 'for' and 'include_path' in sq(n['e'])]
        if not fors:
            for n in sx.walk(arm.body):
                if sx.is_call(n) and n['f']['p'] in pp.fns and n['f']['p'] != loopf and any(sq(sx.strip_ref(a_)) == 'include_paths' for a_ in n['args']):
                    h = pp.fns[n['f']['p']]
                    hps = [sx.pat_idents(q['pat'])[0] for q in h['sig']['params'] if q.get('k') == 'typed']
                    if len(hps) != len(n['args']):
                        continue
                    amap = {sq(sx.strip_ref(a_)): p_ for a_, p_ in zip(n['args'], hps)}
                    hf = [m for m in sx.walk(h['body']) if m.get('k') == 'for' and amap.get('include_paths', '\0') in sq(m['e'])]
                    if hf:
                        fors, host_body, host_name = hf, h['body'], h['name']
                        ipv = amap['include_paths']
                        pathv = amap.get(arm_pathv, amap.get('&' + arm_pathv, 'path'))
                        break
        r12.inst('search_loop', {'host': host_name, 'loops': len(fors)})
        if len(fors) != 1:
            r12.undecided('%s:search-loop' % PP, pp.where(arm.line), 'no single loop over the include paths found in the `include handler or in a helper it calls (%d candidates)' % len(fors))
        else:
            lp = fors[0]
            it = sq(lp['e'])
            r12.inst('iteration', {'over': it})
            if '.rev()' in it:
                r12.fail('%s:search-order' % PP, pp.where(lp.get('l')), 'include paths must be tried in the given order; the loop iterates `%s`' % it)
            elif it not in (ipv, ipv + '.iter()', '&' + ipv, ipv + '.into_iter()'):
                r12.undecided('%s:search-order' % PP, pp.where(lp.get('l')), 'the loop iterates `%s`' % it)
            # enclosing condition(s): literal path first
            conds = []

            def enclosing(node, acc):
                if node is lp:
                    conds.extend(acc)
                    return True
                if isinstance(node, dict):
                    if node.get('k') == 'if':
                        def conj(c_):
                            if c_.get('k') == 'binary' and c_['op'] == '&&':
                                return conj(c_['l_']) + conj(c_['r'])
                            return [sq(c_)]
                        if enclosing(node['t'], acc + conj(node['c'])):
                            return True
                        if 'e' in node and enclosing(node['e'], acc + ['!(' + sq(node['c']) + ')']):
                            return True
                        return False
                    for v_ in node.values():
                        if isinstance(v_, (dict, list)) and enclosing(v_, acc):
                            return True
                elif isinstance(node, list):
                    for v_ in node:
                        if enclosing(v_, acc):
                            return True
                return False
            enclosing(host_body, [])
            cj = set(conds)
            r12.inst('precondition', {'conditions': sorted(cj)})
            need = {'%s.is_relative()' % pathv, '!%s.exists()' % pathv}
            if need <= cj:
                pass
            elif cj and cj <= need | {x_ for x_ in cj if 'is_relative' in x_ or 'exists' in x_ or 'is_absolute' in x_}:
                miss = sorted(need - cj)
                if '!%s.is_absolute()' % pathv in cj:
                    miss = [m_ for m_ in miss if 'is_relative' not in m_]
                if miss:
                    r12.fail('%s:search-precondition' % PP, pp.where(lp.get('l')),
                             'the include paths are consulted only for a relative path that does not exist as given; the search runs under %s (missing: %s)' % (sorted(cj), miss))
            elif not cj:
                r12.fail('%s:search-precondition' % PP, pp.where(lp.get('l')), 'the include paths are searched unconditionally: the path as written must be tried first')
            else:
                r12.undecided('%s:search-precondition' % PP, pp.where(lp.get('l')), 'search precondition %s not recognised' % sorted(cj))
            # first hit wins: `if CAND.exists()` whose then-branch leaves the loop, CAND = V.join(path)
            v = sx.pat_idents(lp['pat'])[0]
            exists_ifs = [n for n in sx.walk(lp['body']) if n.get('k') == 'if' and sq(n['c']).endswith('.exists()') and not sq(n['c']).startswith('!')]
            r12.inst('first-hit', {'body': [sq(x)[:60] for x in lp['body']['stmts']]})
            if len(exists_ifs) != 1:
                r12.undecided('%s:search-first-hit' % PP, pp.where(lp.get('l')), 'no single `if <candidate>.exists()` in the search loop')
            else:
                iff = exists_ifs[0]
                cand = sq(iff['c'])[:-len('.exists()')]
                leaves = any(z.get('k') in ('break', 'return') for z in sx.walk(iff['t']))
                cl = [n for n in sx.walk(lp['body']) if n.get('k') == 'let' and n.get('pat', {}).get('k') == 'ident' and n['pat']['n'] == cand and 'init' in n]
                join_ok = None
                if cl:
                    j = sq(cl[-1]['init'])
                    join_ok = j in ('%s.as_ref().join(&%s)' % (v, pathv), '%s.join(&%s)' % (v, pathv), '%s.as_ref().join(%s)' % (v, pathv), '%s.join(%s)' % (v, pathv))
                    if not join_ok and '.join(' in j and (v not in j or pathv not in j):
                        join_ok = False
                    elif not join_ok:
                        join_ok = None
                if not leaves:
                    r12.fail('%s:search-first-hit' % PP, pp.where(iff.get('l')),
                             'the search goes on after an existing candidate was found (no break / return in `if %s.exists()`): the LAST include path that holds the file wins, not the first' % cand)
                elif join_ok is False:
                    r12.fail('%s:search-candidate' % PP, pp.where(iff.get('l')), 'the candidate `%s` is not the include path joined with the literal path' % (sq(cl[-1]['init'])[:50]))
                elif join_ok is None:
                    r12.undecided('%s:search-candidate' % PP, pp.where(iff.get('l')), 'how the candidate `%s` is built is not recognised' % cand)
        # the path handed to the nested run is the searched one
        calls = [n for n in sx.walk(arm.body) if sx.is_call(n) and n['f']['p'] in opens]
        for cll in calls:
            a0 = sq(cll['args'][0])
            r12.inst('path-used', {'callee': cll['f']['p'], 'path_argument': a0})
            if a0 not in (arm_pathv, '&' + arm_pathv, arm_pathv + '.as_path()'):
                r12.fail('%s:searched-path-not-used' % PP, pp.where(cll.get('l')), 'the file opened must be the path resulting from the search; found `%s`' % a0)

    # ---------- P2   (semantic, tri-state)
    def same_path(a_, b_):
        na = sq(a_).replace('.as_ref()', '').lstrip('&')
        nb = sq(b_).replace('.as_ref()', '').lstrip('&')
        return na == nb
    for f in sorted(direct_opens):
        cr, fl, fn, names = tab[f]
        where = '%s/%s:%d' % (cr, fl, fn['l'])
        body = fn['body']
        o = [n for n in sx.walk(body) if sx.is_call(n) and n['f']['p'].endswith('File::open') and len(n['args']) == 1]
        for c in o:
            p2.inst('open:%s' % f, {'fn': f, 'opens': sq(c['args'][0])})
        files_ = [n for n in sx.walk(body) if n.get('k') == 'struct' and n['p'].endswith('Error::File')]
        p2.inst('open-mapped:%s' % f, {'Error::File_sites': len(files_)})
        if not files_:
            p2.fail('%s:%s:open-error-unmapped' % (cr, f), where, 'a failing File::open in %s is not turned into Error::File{source, path}' % f)
        else:
            for lit in files_:
                flds = {x['n']: x['e'] for x in lit['fields']}
                pth = flds.get('path')
                inner = pth['args'][0] if pth is not None and sx.is_call(pth) and pth['args'] else pth
                if pth is None or 'source' not in flds:
                    p2.undecided('%s:%s:open-error-path' % (cr, f), where, 'Error::File literal without explicit source/path fields')
                elif not any(same_path(inner, c['args'][0]) for c in o):
                    p2.fail('%s:%s:open-error-path' % (cr, f), where,
                            'Error::File must name the very path that was opened (%s); it names `%s`' % (sq(o[0]['args'][0]), sq(pth)))
        rd = [n for n in sx.walk(body) if n.get('k') == 'mcall' and n['m'] in ('read_to_string', 'read_to_end', 'read')]
        if rd:
            p2.inst('read:%s' % f)
            utf = [n for n in sx.walk(body) if sx.is_call(n) and n['f']['p'].endswith('Error::ReadUtf8') and len(n['args']) == 1]
            if not utf:
                p2.fail('%s:%s:read-error' % (cr, f), where, 'a failing read must yield Error::ReadUtf8 naming the file that was opened')
            for u in utf:
                a0 = u['args'][0]
                inner = a0['args'][0] if sx.is_call(a0) and a0['args'] else a0
                if not (o and same_path(inner, o[0]['args'][0])):
                    p2.fail('%s:%s:read-error' % (cr, f), where,
                            'Error::ReadUtf8 must name the file that was opened (%s); it names `%s`' % (sq(o[0]['args'][0]) if o else '?', sq(a0)))
    # no io result discarded with `let _ =` / `.ok()` / `.unwrap_or*` in the preprocessor
    for f, (cr, fl, fn, _) in tab.items():
        if cr != PP:
            continue
        for n in sx.walk(fn['body']):
            if n.get('k') == 'mcall' and n['m'] in ('ok', 'unwrap_or_default', 'unwrap_or', 'unwrap_or_else') and \
                    any(x.get('k') == 'mcall' and x['m'] in ('read_to_string', 'read_to_end') or (sx.is_call(x) and x['f']['p'].endswith('File::open')) for x in sx.walk(n['recv'])):
                p2.fail('%s:%s:io-result-discarded' % (cr, f), '%s/%s:%s' % (cr, fl, n.get('l')), 'an io result is discarded with .%s()' % n['m'])
    p2.floor('io_sites', p2.instances, 2)
    return [r10, r11, r12, p2]


def run(ctx):
    pp = model(ctx)
    tab = fn_table(ctx)
    sites = call_sites(ctx, tab)
    g = {}
    for caller, callee, call in sites:
        g.setdefault(caller, set()).add(callee)

    def reach(a):
        seen, todo = set(), [a]
        while todo:
            x = todo.pop()
            for y in g.get(x, ()):
                if y not in seen:
                    seen.add(y)
                    todo.append(y)
        return seen
    loopf = pp.loop_fn['name'] if pp.loop_fn else None
    scc = {f for f in reach(loopf) if loopf in reach(f)} if loopf else set()
    return [x9(ctx, tab, sites, scc), x8(ctx, tab, sites, pp)] + x10_x12_p2(ctx, tab, sites, pp)
