//! E3 — compile-fail witnesses (run with `cargo +nightly test --doc`; the error codes are only
//! checked on nightly).  Every witness has a compiling twin that differs by the offending line
//! only, so that a witness whose path is merely wrong cannot pass by failing for another reason.

/// C07 — the grammar cannot be entered from outside except through the entry points (which call init()).
///
/// witness: a grammar function is not nameable from another crate
/// ```compile_fail,E0603
/// let s = sv_parser_parser::Span::new_extra("module m; endmodule", sv_parser_parser::SpanInfo::default());
/// let _ = sv_parser_parser::source_text::system_verilog_source_text::source_text(s);
/// ```
/// twin: the entry point is
/// ```
/// let s = sv_parser_parser::Span::new_extra("module m; endmodule", sv_parser_parser::SpanInfo::default());
/// let _ = sv_parser_parser::sv_parser(s);
/// ```
/// witness: the reset function itself is private, nobody can skip or reorder it
/// ```compile_fail,E0603
/// sv_parser_parser::init();
/// ```
/// witness: the scope primitives are not reachable from outside
/// ```compile_fail,E0603
/// sv_parser_parser::utils::begin_keywords("1364-2001");
/// ```
pub struct C07EntryIsTheOnlyDoor;

/// C01 — a SyntaxTree cannot be built or have its text replaced from outside: tree and text stay coupled.
///
/// witness: private field `text`
/// ```compile_fail,E0616
/// use std::collections::HashMap;
/// let d: sv_parser::Defines = HashMap::new();
/// let (t, _) = sv_parser::parse_sv_str("module m; endmodule", "t.sv", &d, &["."], false, false).unwrap();
/// let _ = &t.text;
/// ```
/// witness: private field `node`
/// ```compile_fail,E0616
/// use std::collections::HashMap;
/// let d: sv_parser::Defines = HashMap::new();
/// let (t, _) = sv_parser::parse_sv_str("module m; endmodule", "t.sv", &d, &["."], false, false).unwrap();
/// let _ = &t.node;
/// ```
/// twin: the public accessors compile
/// ```
/// use std::collections::HashMap;
/// let d: sv_parser::Defines = HashMap::new();
/// let (t, _) = sv_parser::parse_sv_str("module m; endmodule", "t.sv", &d, &["."], false, false).unwrap();
/// let _ = (&t).into_iter().count();
/// ```
pub struct C01TreeAndTextAreCoupled;

/// C03 — only the preprocessor writes the output text and its origin map.
///
/// witness: `push` is private
/// ```compile_fail,E0624
/// use std::collections::HashMap;
/// let d: sv_parser::Defines = HashMap::new();
/// let (mut t, _) = sv_parser::preprocess_str("a", "t.sv", &d, &["."], false, false, 0, 0).unwrap();
/// t.push::<&str>("x", None);
/// ```
/// witness: `merge` is private
/// ```compile_fail,E0624
/// use std::collections::HashMap;
/// let d: sv_parser::Defines = HashMap::new();
/// let (mut t, _) = sv_parser::preprocess_str("a", "t.sv", &d, &["."], false, false, 0, 0).unwrap();
/// let (u, _) = sv_parser::preprocess_str("b", "t.sv", &d, &["."], false, false, 0, 0).unwrap();
/// t.merge(u);
/// ```
/// witness: the origin map is a private field
/// ```compile_fail,E0616
/// use std::collections::HashMap;
/// let d: sv_parser::Defines = HashMap::new();
/// let (t, _) = sv_parser::preprocess_str("a", "t.sv", &d, &["."], false, false, 0, 0).unwrap();
/// let _ = &t.origins;
/// ```
/// twin: reading is public
/// ```
/// use std::collections::HashMap;
/// let d: sv_parser::Defines = HashMap::new();
/// let (t, _) = sv_parser::preprocess_str("a", "t.sv", &d, &["."], false, false, 0, 0).unwrap();
/// let _ = (t.text(), t.origin(0));
/// ```
pub struct C03OnlyThePreprocessorWritesOrigins;
