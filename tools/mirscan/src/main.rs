//! mirscan — E2 of /verif: a rustc_private driver used as RUSTC_WORKSPACE_WRAPPER (or RUSTC_WRAPPER).
//! After analysis it walks the MIR of every body of the crate being compiled and writes one
//! JSON fact file `$MIRSCAN_OUT/<crate>.json` (one write per process):
//!   fns:      table of every function mentioned (callers and callees), by path string
//!   bodies:   per body: kind, span, visibility, compact CFG, calls (resolved callee, line, const
//!             string args, generic args), fn/closure references that are not calls, statics
//!             touched, assert terminators, unsafe-ness
//!   statics:  every static of the crate: type, mut, Freeze, thread-local
//! No rule logic lives here.
#![feature(rustc_private)]

extern crate rustc_driver;
extern crate rustc_hir;
extern crate rustc_interface;
extern crate rustc_middle;
extern crate rustc_span;

use rustc_driver::{Callbacks, Compilation};
use rustc_hir::def::DefKind;
use rustc_hir::def_id::{DefId, LocalDefId};
use rustc_interface::interface::Compiler;
use rustc_middle::mir::{self, AssertKind, Operand, Rvalue, StatementKind, TerminatorKind};
use rustc_middle::ty::{self, Instance, TyCtxt, TypingEnv};
use std::collections::HashMap;
use std::fmt::Write as _;

struct Cb;

fn esc(s: &str) -> String {
    let mut o = String::with_capacity(s.len() + 2);
    o.push('"');
    for c in s.chars() {
        match c {
            '"' => o.push_str("\\\""),
            '\\' => o.push_str("\\\\"),
            '\n' => o.push_str("\\n"),
            '\r' => o.push_str("\\r"),
            '\t' => o.push_str("\\t"),
            c if (c as u32) < 0x20 => {
                let _ = write!(o, "\\u{:04x}", c as u32);
            }
            c => o.push(c),
        }
    }
    o.push('"');
    o
}

struct Tab {
    idx: HashMap<String, usize>,
    names: Vec<String>,
}
impl Tab {
    fn new() -> Self {
        Tab { idx: HashMap::new(), names: Vec::new() }
    }
    fn get(&mut self, s: String) -> usize {
        if let Some(i) = self.idx.get(&s) {
            return *i;
        }
        let i = self.names.len();
        self.idx.insert(s.clone(), i);
        self.names.push(s);
        i
    }
}

fn path_of<'tcx>(tcx: TyCtxt<'tcx>, did: DefId) -> String {
    // crate-qualified, generic-free path: stable across runs
    let krate = tcx.crate_name(did.krate);
    format!("{}{}", krate, tcx.def_path(did).to_string_no_crate_verbose())
}

fn pretty<'tcx>(tcx: TyCtxt<'tcx>, did: DefId) -> String {
    let s = tcx.def_path_str(did);
    if did.is_local() {
        format!("{}::{}", tcx.crate_name(did.krate), s)
    } else {
        s
    }
}

fn span_str<'tcx>(tcx: TyCtxt<'tcx>, sp: rustc_span::Span) -> (String, usize, bool) {
    let sm = tcx.sess.source_map();
    let exp = sp.from_expansion();
    let sp = sp.source_callsite();
    let lo = sm.lookup_char_pos(sp.lo());
    let file = match &lo.file.name {
        rustc_span::FileName::Real(r) => match r.local_path() {
            Some(p) => p.to_string_lossy().to_string(),
            None => format!("{:?}", r),
        },
        other => format!("{:?}", other),
    };
    (file, lo.line, exp)
}

fn macro_names(sp: rustc_span::Span) -> String {
    // names of the macros in the expansion backtrace of a span, outermost last (e.g. "assert_eq,debug_assert_eq")
    let mut v: Vec<String> = Vec::new();
    for ed in sp.macro_backtrace() {
        if let rustc_span::ExpnKind::Macro(_, name) = ed.kind {
            v.push(name.to_string());
        }
    }
    v.join(",")
}

fn const_str<'tcx>(tcx: TyCtxt<'tcx>, op: &Operand<'tcx>) -> Option<String> {
    if let Operand::Constant(c) = op {
        let ty = c.const_.ty();
        if let ty::Ref(_, inner, _) = ty.kind() {
            if inner.is_str() {
                if let mir::Const::Val(val, _) = c.const_ {
                    if let Some(bytes) = val.try_get_slice_bytes_for_diagnostics(tcx) {
                        return Some(String::from_utf8_lossy(bytes).to_string());
                    }
                }
            }
        }
    }
    None
}

impl Callbacks for Cb {
    fn after_analysis<'tcx>(&mut self, _compiler: &Compiler, tcx: TyCtxt<'tcx>) -> Compilation {
        let out_dir = match std::env::var("MIRSCAN_OUT") {
            Ok(d) => d,
            Err(_) => return Compilation::Continue,
        };
        let krate = tcx.crate_name(rustc_hir::def_id::LOCAL_CRATE).to_string();
        if let Ok(only) = std::env::var("MIRSCAN_ONLY") {
            if !only.split(',').any(|c| c == krate) {
                return Compilation::Continue;
            }
        }
        let with_cfg = std::env::var("MIRSCAN_CFG")
            .map(|v| v.split(',').any(|c| c == krate || c == "*"))
            .unwrap_or(true);
        let mut fns = Tab::new();
        let mut statics_tab = Tab::new();
        let mut out = String::new();
        out.push_str("{\"crate\":");
        out.push_str(&esc(&krate));
        out.push_str(",\"bodies\":[");
        let ev = tcx.effective_visibilities(());
        let mut first = true;
        let mut nbodies = 0usize;
        for ldid in tcx.mir_keys(()).iter().copied() {
            let did: DefId = ldid.to_def_id();
            let kind = tcx.def_kind(did);
            let kstr = match kind {
                DefKind::Fn => "fn",
                DefKind::AssocFn => "assoc",
                DefKind::Closure => "closure",
                _ => continue,
            };
            if tcx.is_constructor(did) {
                continue;
            }
            let body = tcx.optimized_mir(did);
            nbodies += 1;
            if !first {
                out.push(',');
            }
            first = false;
            let (file, line, from_exp) = span_str(tcx, tcx.def_span(did));
            let self_idx = fns.get(path_of(tcx, did));
            let exported = match kind {
                DefKind::Fn | DefKind::AssocFn => ev.is_reachable(ldid),
                _ => false,
            };
            let vis = match kind {
                DefKind::Fn | DefKind::AssocFn => format!("{:?}", tcx.visibility(did)),
                _ => String::new(),
            };
            let parent = tcx.opt_parent(did).map(|p| path_of(tcx, p)).unwrap_or_default();
            let _ = write!(
                out,
                "{{\"id\":{},\"pretty\":{},\"kind\":\"{}\",\"file\":{},\"line\":{},\"from_expansion\":{},\"exported\":{},\"vis\":{},\"parent\":{}",
                self_idx,
                esc(&pretty(tcx, did)),
                kstr,
                esc(&file),
                line,
                from_exp,
                exported,
                esc(&vis),
                esc(&parent)
            );
            let tenv = TypingEnv::post_analysis(tcx, did);
            // ---- blocks
            let mut blocks = String::new();
            let mut calls = String::new();
            let mut refs: Vec<usize> = Vec::new();
            let mut statics: Vec<usize> = Vec::new();
            let mut consts: Vec<String> = Vec::new();
            let mut asserts = String::new();
            let mut ncalls = 0;
            let mut nasserts = 0;
            // const items (e.g. thread_local! keys) referenced directly or through promoted constants
            let mut scan_consts = |b: &mir::Body<'tcx>, consts: &mut Vec<String>| {
                for bb in b.basic_blocks.iter() {
                    let mut ops: Vec<&Operand<'tcx>> = Vec::new();
                    for st in &bb.statements {
                        if let StatementKind::Assign(bx) = &st.kind {
                            match &bx.1 {
                                Rvalue::Use(op, ..) | Rvalue::Repeat(op, _) | Rvalue::Cast(_, op, _) | Rvalue::UnaryOp(_, op) => ops.push(op),
                                Rvalue::BinaryOp(_, o) => {
                                    ops.push(&o.0);
                                    ops.push(&o.1);
                                }
                                Rvalue::Aggregate(_, os) => {
                                    for o in os.iter() {
                                        ops.push(o);
                                    }
                                }
                                _ => {}
                            }
                        }
                    }
                    if let Some(t) = &bb.terminator {
                        if let TerminatorKind::Call { func, args, .. } = &t.kind {
                            ops.push(func);
                            for a in args.iter() {
                                ops.push(&a.node);
                            }
                        }
                    }
                    for op in ops {
                        if let Operand::Constant(c) = op {
                            if let mir::Const::Unevaluated(uv, _) = c.const_ {
                                if uv.promoted.is_none() {
                                    consts.push(path_of(tcx, uv.def));
                                }
                            }
                        }
                    }
                }
            };
            scan_consts(body, &mut consts);
            for pb in tcx.promoted_mir(did).iter() {
                scan_consts(pb, &mut consts);
            }
            consts.sort();
            consts.dedup();
            let note_operand = |op: &Operand<'tcx>, fns: &mut Tab, statics_tab: &mut Tab, refs: &mut Vec<usize>, statics: &mut Vec<usize>| {
                if let Operand::Constant(c) = op {
                    let ty = c.const_.ty();
                    match ty.kind() {
                        ty::FnDef(d, _) => {
                            refs.push(fns.get(path_of(tcx, *d)));
                        }
                        ty::Closure(d, _) => {
                            refs.push(fns.get(path_of(tcx, *d)));
                        }
                        _ => {}
                    }
                    if let Some(sd) = c.check_static_ptr(tcx) {
                        statics.push(statics_tab.get(path_of(tcx, sd)));
                    }
                }
            };
            // locals assigned exactly once from a constant &str (opt-level 0 passes literals through temporaries)
            let mut local_str: HashMap<usize, Option<String>> = HashMap::new();
            let mut local_alias: HashMap<usize, Option<usize>> = HashMap::new();
            for bb in body.basic_blocks.iter() {
                for st in &bb.statements {
                    if let StatementKind::Assign(b) = &st.kind {
                        if let Some(l) = b.0.as_local() {
                            let v = match &b.1 {
                                Rvalue::Use(op, ..) => const_str(tcx, op),
                                _ => None,
                            };
                            // `_2 = &(*_3)` / `_2 = move _3`: alias of another local
                            let al = match &b.1 {
                                Rvalue::Ref(_, _, pl) if pl.projection.len() == 1 && matches!(pl.projection[0], mir::ProjectionElem::Deref) => Some(pl.local.index()),
                                Rvalue::Use(Operand::Move(pl), ..) | Rvalue::Use(Operand::Copy(pl), ..) if pl.projection.is_empty() => Some(pl.local.index()),
                                _ => None,
                            };
                            if let Some(a) = al {
                                if local_alias.insert(l.index(), Some(a)).is_some() {
                                    local_alias.insert(l.index(), None);
                                }
                            }
                            let e = local_str.entry(l.index());
                            match e {
                                std::collections::hash_map::Entry::Occupied(mut o) => {
                                    o.insert(None);
                                }
                                std::collections::hash_map::Entry::Vacant(vac) => {
                                    vac.insert(v);
                                }
                            }
                        }
                    }
                }
            }
            for (bi, bb) in body.basic_blocks.iter_enumerated() {
                for st in &bb.statements {
                    if let StatementKind::Assign(b) = &st.kind {
                        let rv = &b.1;
                        match rv {
                            Rvalue::Use(op, ..) | Rvalue::Repeat(op, _) | Rvalue::Cast(_, op, _) | Rvalue::UnaryOp(_, op) => {
                                note_operand(op, &mut fns, &mut statics_tab, &mut refs, &mut statics)
                            }
                            Rvalue::BinaryOp(_, ops) => {
                                note_operand(&ops.0, &mut fns, &mut statics_tab, &mut refs, &mut statics);
                                note_operand(&ops.1, &mut fns, &mut statics_tab, &mut refs, &mut statics);
                            }
                            Rvalue::Aggregate(ak, ops) => {
                                if let mir::AggregateKind::Closure(d, _) = **ak {
                                    refs.push(fns.get(path_of(tcx, d)));
                                }
                                for op in ops.iter() {
                                    note_operand(op, &mut fns, &mut statics_tab, &mut refs, &mut statics);
                                }
                            }
                            Rvalue::ThreadLocalRef(d) => {
                                statics.push(statics_tab.get(path_of(tcx, *d)));
                            }
                            _ => {}
                        }
                    }
                }
                let term = bb.terminator();
                let (tline, texp) = {
                    let (_, l, e) = span_str(tcx, term.source_info.span);
                    (l, e)
                };
                if bi.index() > 0 {
                    blocks.push(',');
                }
                match &term.kind {
                    TerminatorKind::Call { func, args, target, unwind: _, fn_span, .. } => {
                        let mut callee_idx: i64 = -1;
                        let mut resolved = false;
                        let mut callee_unsafe = false;
                        let gen;
                        if let Some((cd, cargs)) = func.const_fn_def() {
                            let mut final_d = cd;
                            let mut final_args = cargs;
                            if let Ok(Some(inst)) = Instance::try_resolve(tcx, tenv, cd, cargs) {
                                final_d = inst.def_id();
                                final_args = inst.args;
                                resolved = true;
                            }
                            callee_idx = fns.get(path_of(tcx, final_d)) as i64;
                            if matches!(tcx.def_kind(final_d), DefKind::Fn | DefKind::AssocFn) {
                                callee_unsafe = tcx.fn_sig(final_d).skip_binder().safety().is_unsafe();
                            }
                            gen = tcx.def_path_str_with_args(final_d, final_args);
                        } else {
                            // indirect call through a value (closure / fn pointer / generic F)
                            gen = format!("{:?}", func.ty(&body.local_decls, tcx));
                        }
                        for a in args.iter() {
                            note_operand(&a.node, &mut fns, &mut statics_tab, &mut refs, &mut statics);
                        }
                        let cs: Vec<String> = args
                            .iter()
                            .filter_map(|a| match &a.node {
                                Operand::Constant(_) => const_str(tcx, &a.node),
                                Operand::Move(p) | Operand::Copy(p) => p.as_local().and_then(|l| {
                                    let mut cur = l.index();
                                    for _ in 0..4 {
                                        if let Some(Some(s)) = local_str.get(&cur) {
                                            return Some(s.clone());
                                        }
                                        match local_alias.get(&cur) {
                                            Some(Some(n)) => cur = *n,
                                            _ => return None,
                                        }
                                    }
                                    None
                                }),
                                #[allow(unreachable_patterns)]
                                _ => None,
                            })
                            .collect();
                        // closures / fn items passed as arguments (by value or by reference)
                        let mut arg_fns: Vec<String> = Vec::new();
                        for a in args.iter() {
                            let mut t = a.node.ty(&body.local_decls, tcx);
                            while let ty::Ref(_, inner, _) = t.kind() {
                                t = *inner;
                            }
                            match t.kind() {
                                ty::Closure(d, _) | ty::FnDef(d, _) => arg_fns.push(path_of(tcx, *d)),
                                _ => {}
                            }
                        }
                        let (_, cl, cexp) = span_str(tcx, *fn_span);
                        if ncalls > 0 {
                            calls.push(',');
                        }
                        ncalls += 1;
                        let _ = write!(
                            calls,
                            "[{},{},{},{},{},[{}],{},{},[{}],{}]",
                            bi.index(),
                            callee_idx,
                            cl,
                            cexp,
                            resolved,
                            cs.iter().map(|s| esc(s)).collect::<Vec<_>>().join(","),
                            esc(&gen),
                            callee_unsafe,
                            arg_fns.iter().map(|s| esc(s)).collect::<Vec<_>>().join(","),
                            esc(&macro_names(*fn_span))
                        );
                        if with_cfg {
                            match target {
                                Some(t) => {
                                    let _ = write!(blocks, "[\"c\",{}]", t.index());
                                }
                                None => blocks.push_str("[\"c\"]"),
                            }
                        }
                    }
                    TerminatorKind::Assert { msg, target, .. } => {
                        let k = match &**msg {
                            AssertKind::BoundsCheck { .. } => "bounds",
                            AssertKind::Overflow(op, ..) => match op {
                                mir::BinOp::Sub | mir::BinOp::SubWithOverflow | mir::BinOp::SubUnchecked => "overflow-sub",
                                mir::BinOp::Mul | mir::BinOp::MulWithOverflow | mir::BinOp::MulUnchecked => "overflow-mul",
                                mir::BinOp::Shl | mir::BinOp::Shr | mir::BinOp::ShlUnchecked | mir::BinOp::ShrUnchecked => "overflow-shift",
                                _ => "overflow",
                            },
                            AssertKind::OverflowNeg(..) => "overflow-neg",
                            AssertKind::DivisionByZero(..) => "div0",
                            AssertKind::RemainderByZero(..) => "div0",
                            AssertKind::MisalignedPointerDereference { .. } => "ptr",
                            AssertKind::NullPointerDereference => "ptr",
                            _ => "other",
                        };
                        if nasserts > 0 {
                            asserts.push(',');
                        }
                        nasserts += 1;
                        let _ = write!(asserts, "[\"{}\",{},{},{}]", k, tline, texp, esc(&macro_names(term.source_info.span)));
                        if with_cfg {
                            let _ = write!(blocks, "[\"a\",{}]", target.index());
                        }
                    }
                    other => {
                        if with_cfg {
                            let code = match other {
                                TerminatorKind::Return => "r",
                                TerminatorKind::Goto { .. } => "g",
                                TerminatorKind::SwitchInt { .. } => "s",
                                TerminatorKind::Drop { .. } => "d",
                                TerminatorKind::Unreachable => "u",
                                TerminatorKind::UnwindResume => "x",
                                TerminatorKind::UnwindTerminate(..) => "x",
                                TerminatorKind::FalseEdge { .. } => "g",
                                TerminatorKind::FalseUnwind { .. } => "g",
                                _ => "o",
                            };
                            let succ: Vec<String> = match other {
                                TerminatorKind::Drop { target, .. } => vec![target.index().to_string()],
                                TerminatorKind::FalseEdge { real_target, .. } => vec![real_target.index().to_string()],
                                TerminatorKind::FalseUnwind { real_target, .. } => vec![real_target.index().to_string()],
                                TerminatorKind::UnwindResume | TerminatorKind::UnwindTerminate(..) => vec![],
                                _ => other.successors().map(|b| b.index().to_string()).collect(),
                            };
                            let _ = write!(blocks, "[\"{}\"{}{}]", code, if succ.is_empty() { "" } else { "," }, succ.join(","));
                        }
                    }
                }
            }
            refs.sort();
            refs.dedup();
            statics.sort();
            statics.dedup();
            // cleanup blocks flagged
            let cleanup: Vec<String> = body
                .basic_blocks
                .iter_enumerated()
                .filter(|(_, b)| b.is_cleanup)
                .map(|(i, _)| i.index().to_string())
                .collect();
            let sig_unsafe = match kind {
                DefKind::Fn | DefKind::AssocFn => tcx.fn_sig(did).skip_binder().safety().is_unsafe(),
                _ => false,
            };
            let _ = write!(
                out,
                ",\"unsafe_fn\":{},\"consts\":[{}],\"nblocks\":{},\"blocks\":[{}],\"cleanup\":[{}],\"calls\":[{}],\"refs\":[{}],\"statics\":[{}],\"asserts\":[{}]}}",
                sig_unsafe,
                consts.iter().map(|s| esc(s)).collect::<Vec<_>>().join(","),
                body.basic_blocks.len(),
                if with_cfg { blocks.as_str() } else { "" },
                cleanup.join(","),
                calls,
                refs.iter().map(|x| x.to_string()).collect::<Vec<_>>().join(","),
                statics.iter().map(|x| x.to_string()).collect::<Vec<_>>().join(","),
                asserts
            );
        }
        out.push_str("],\"statics\":[");
        // statics of this crate
        let mut firsts = true;
        for ldid in tcx.hir_crate_items(()).definitions() {
            let did = ldid.to_def_id();
            if let DefKind::Static { mutability, nested, .. } = tcx.def_kind(did) {
                let ty = tcx.type_of(did).instantiate_identity().skip_norm_wip();
                let tenv = TypingEnv::post_analysis(tcx, did);
                let freeze = ty.is_freeze(tcx, tenv);
                let tl = tcx.is_thread_local_static(did);
                let (file, line, _) = span_str(tcx, tcx.def_span(did));
                if !firsts {
                    out.push(',');
                }
                firsts = false;
                let _ = write!(
                    out,
                    "{{\"path\":{},\"ty\":{},\"mut\":{},\"freeze\":{},\"thread_local\":{},\"nested\":{},\"file\":{},\"line\":{}}}",
                    esc(&path_of(tcx, did)),
                    esc(&format!("{}", ty)),
                    mutability.is_mut(),
                    freeze,
                    tl,
                    nested,
                    esc(&file),
                    line
                );
            }
        }
        out.push_str("],\"fns\":[");
        for (i, n) in fns.names.iter().enumerate() {
            if i > 0 {
                out.push(',');
            }
            out.push_str(&esc(n));
        }
        out.push_str("],\"static_names\":[");
        for (i, n) in statics_tab.names.iter().enumerate() {
            if i > 0 {
                out.push(',');
            }
            out.push_str(&esc(n));
        }
        let _ = write!(out, "],\"nbodies\":{}}}", nbodies);
        let path = format!("{}/{}.json", out_dir, krate);
        // proc-macro crates and build scripts are compiled too; keep the largest fact set per crate name
        let write = match std::fs::metadata(&path) {
            Ok(m) => (m.len() as usize) < out.len(),
            Err(_) => true,
        };
        if write {
            let _ = std::fs::write(&path, out);
        }
        let _ = ldid_unused();
        Compilation::Continue
    }
}

fn ldid_unused() -> Option<LocalDefId> {
    None
}

fn main() {
    let mut args: Vec<String> = std::env::args().collect();
    // wrapper mode: argv[1] is the path of the real rustc
    if args.len() > 1 && (args[1].ends_with("rustc") || args[1].contains("/rustc")) {
        args.remove(1);
    }
    rustc_driver::run_compiler(&args, &mut Cb);
}
