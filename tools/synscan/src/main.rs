//! synscan — E1 of /verif: dump the (cfg-evaluated, unexpanded) syntax trees of a
//! set of Rust source files as compact JSON.  All rule logic lives in the Python
//! orchestrator; this tool only parses (syn 2) and serialises.
//!
//! usage: synscan <out.json> <label>=<file.rs>...      (explicit files)
//!        synscan <out.json> --crate <name>=<dir>...    (every *.rs under <dir>/src + build.rs)
//!
//! cfg evaluation: `test` = false, `feature = ".."` = false (default feature
//! sets of the workspace are all empty), everything else is kept and listed in
//! "cfg_unknown".

use proc_macro2::Span;
use quote::ToTokens;
use serde_json::{json, Map, Value};
use std::cell::RefCell;
use std::path::{Path, PathBuf};
use syn::punctuated::Punctuated;
use syn::spanned::Spanned;
use syn::*;

thread_local! {
    static CFG_UNKNOWN: RefCell<Vec<String>> = RefCell::new(Vec::new());
    /// last path segments of traits whose impls are not emitted (--skip-impl-of a,b,c)
    static SKIP_IMPLS: RefCell<Vec<String>> = RefCell::new(Vec::new());
}

fn line(sp: Span) -> usize {
    sp.start().line
}
fn col(sp: Span) -> usize {
    sp.start().column
}
fn endline(sp: Span) -> usize {
    sp.end().line
}

fn ts(t: &impl ToTokens) -> String {
    t.to_token_stream().to_string()
}

// ---------------------------------------------------------------- cfg
fn eval_cfg_meta(m: &Meta) -> Option<bool> {
    match m {
        Meta::Path(p) => {
            if p.is_ident("test") {
                Some(false)
            } else if p.is_ident("debug_assertions") {
                Some(true)
            } else {
                None
            }
        }
        Meta::NameValue(nv) => {
            if nv.path.is_ident("feature") {
                Some(false)
            } else {
                None
            }
        }
        Meta::List(l) => {
            let inner: Punctuated<Meta, Token![,]> =
                match l.parse_args_with(Punctuated::parse_terminated) {
                    Ok(x) => x,
                    Err(_) => return None,
                };
            let vals: Vec<Option<bool>> = inner.iter().map(eval_cfg_meta).collect();
            if l.path.is_ident("not") {
                vals.get(0).cloned().flatten().map(|b| !b)
            } else if l.path.is_ident("all") {
                if vals.iter().any(|v| *v == Some(false)) {
                    Some(false)
                } else if vals.iter().all(|v| *v == Some(true)) {
                    Some(true)
                } else {
                    None
                }
            } else if l.path.is_ident("any") {
                if vals.iter().any(|v| *v == Some(true)) {
                    Some(true)
                } else if vals.iter().all(|v| *v == Some(false)) {
                    Some(false)
                } else {
                    None
                }
            } else {
                None
            }
        }
    }
}

/// true = keep
fn cfg_keep(attrs: &[Attribute]) -> bool {
    for a in attrs {
        if a.path().is_ident("cfg") {
            if let Meta::List(l) = &a.meta {
                if let Ok(m) = l.parse_args::<Meta>() {
                    match eval_cfg_meta(&m) {
                        Some(false) => return false,
                        Some(true) => {}
                        None => CFG_UNKNOWN.with(|c| c.borrow_mut().push(ts(a))),
                    }
                }
            }
        }
    }
    true
}

fn attrs_json(attrs: &[Attribute]) -> Value {
    let mut v = Vec::new();
    for a in attrs {
        if a.path().is_ident("doc") {
            continue;
        }
        let args = match &a.meta {
            Meta::Path(_) => String::new(),
            Meta::List(l) => l.tokens.to_string(),
            Meta::NameValue(nv) => ts(&nv.value),
        };
        v.push(json!({"p": path_str(a.path()), "a": args}));
    }
    Value::Array(v)
}

// ---------------------------------------------------------------- paths / types
fn path_str(p: &Path_) -> String {
    let mut s = String::new();
    if p.leading_colon.is_some() {
        s.push_str("::");
    }
    for (i, seg) in p.segments.iter().enumerate() {
        if i > 0 {
            s.push_str("::");
        }
        s.push_str(&seg.ident.to_string());
    }
    s
}
type Path_ = syn::Path;

fn generic_args(p: &Path_) -> Vec<Value> {
    let mut out = Vec::new();
    for seg in &p.segments {
        if let PathArguments::AngleBracketed(ab) = &seg.arguments {
            for a in &ab.args {
                match a {
                    GenericArgument::Type(t) => out.push(type_json(t)),
                    GenericArgument::Lifetime(_) => {}
                    other => out.push(json!({"k": "other", "s": ts(other)})),
                }
            }
        }
    }
    out
}

fn type_json(t: &Type) -> Value {
    match t {
        Type::Path(tp) => {
            let mut m = Map::new();
            m.insert("k".into(), "path".into());
            m.insert("p".into(), path_str(&tp.path).into());
            let ga = generic_args(&tp.path);
            if !ga.is_empty() {
                m.insert("args".into(), Value::Array(ga));
            }
            if tp.qself.is_some() {
                m.insert("qself".into(), ts(&tp.qself.as_ref().unwrap().ty).into());
            }
            Value::Object(m)
        }
        Type::Tuple(tt) => json!({"k": "tuple", "e": tt.elems.iter().map(type_json).collect::<Vec<_>>()}),
        Type::Reference(r) => json!({"k": "ref", "mut": r.mutability.is_some(), "e": type_json(&r.elem)}),
        Type::Paren(p) => type_json(&p.elem),
        Type::Group(p) => type_json(&p.elem),
        Type::Slice(s) => json!({"k": "slice", "e": type_json(&s.elem)}),
        Type::Array(s) => json!({"k": "array", "e": type_json(&s.elem), "len": ts(&s.len)}),
        Type::ImplTrait(i) => json!({"k": "impl", "s": ts(i)}),
        Type::Infer(_) => json!({"k": "infer"}),
        other => json!({"k": "other", "s": ts(other)}),
    }
}

// ---------------------------------------------------------------- patterns
fn pat_json(p: &Pat) -> Value {
    match p {
        Pat::Ident(pi) => {
            let mut m = Map::new();
            m.insert("k".into(), "ident".into());
            m.insert("n".into(), pi.ident.to_string().into());
            if pi.by_ref.is_some() {
                m.insert("ref".into(), true.into());
            }
            if pi.mutability.is_some() {
                m.insert("mut".into(), true.into());
            }
            if let Some((_, sub)) = &pi.subpat {
                m.insert("sub".into(), pat_json(sub));
            }
            Value::Object(m)
        }
        Pat::Tuple(pt) => json!({"k": "tuple", "e": pt.elems.iter().map(pat_json).collect::<Vec<_>>()}),
        Pat::TupleStruct(pts) => json!({"k": "ts", "p": path_str(&pts.path),
            "e": pts.elems.iter().map(pat_json).collect::<Vec<_>>()}),
        Pat::Struct(ps) => json!({"k": "struct", "p": path_str(&ps.path),
            "fields": ps.fields.iter().map(|f| json!({"n": ts(&f.member), "p": pat_json(&f.pat)})).collect::<Vec<_>>(),
            "rest": ps.rest.is_some()}),
        Pat::Wild(_) => json!({"k": "wild"}),
        Pat::Reference(pr) => json!({"k": "ref", "mut": pr.mutability.is_some(), "p": pat_json(&pr.pat)}),
        Pat::Lit(l) => json!({"k": "lit", "e": lit_json(&l.lit)}),
        Pat::Or(po) => json!({"k": "or", "e": po.cases.iter().map(pat_json).collect::<Vec<_>>()}),
        Pat::Path(pp) => json!({"k": "path", "p": path_str(&pp.path)}),
        Pat::Rest(_) => json!({"k": "rest"}),
        Pat::Type(pt) => json!({"k": "type", "p": pat_json(&pt.pat), "ty": type_json(&pt.ty)}),
        Pat::Paren(pp) => pat_json(&pp.pat),
        Pat::Range(r) => json!({"k": "range", "s": ts(r)}),
        Pat::Slice(s) => json!({"k": "slice", "e": s.elems.iter().map(pat_json).collect::<Vec<_>>()}),
        other => json!({"k": "other", "s": ts(other)}),
    }
}

fn lit_json(l: &Lit) -> Value {
    match l {
        Lit::Str(s) => json!({"k": "lit", "t": "str", "v": s.value()}),
        Lit::ByteStr(s) => json!({"k": "lit", "t": "bytestr", "v": ts(s)}),
        Lit::Byte(b) => json!({"k": "lit", "t": "byte", "v": b.value()}),
        Lit::Char(c) => json!({"k": "lit", "t": "char", "v": c.value().to_string()}),
        Lit::Int(i) => json!({"k": "lit", "t": "int", "v": i.base10_digits(), "suffix": i.suffix()}),
        Lit::Float(f) => json!({"k": "lit", "t": "float", "v": f.base10_digits()}),
        Lit::Bool(b) => json!({"k": "lit", "t": "bool", "v": b.value}),
        other => json!({"k": "lit", "t": "other", "v": ts(other)}),
    }
}

// ---------------------------------------------------------------- expressions
fn with_pos(mut v: Value, sp: Span) -> Value {
    if let Value::Object(m) = &mut v {
        m.insert("l".into(), line(sp).into());
        m.insert("col".into(), col(sp).into());
    }
    v
}

fn macro_json(mac: &Macro) -> Value {
    let mut m = Map::new();
    m.insert("k".into(), "macro".into());
    m.insert("p".into(), path_str(&mac.path).into());
    m.insert("tokens".into(), mac.tokens.to_string().into());
    // try: comma separated expressions
    if let Ok(args) = mac.parse_body_with(Punctuated::<Expr, Token![,]>::parse_terminated) {
        m.insert("args".into(), Value::Array(args.iter().map(expr_json).collect()));
    } else if let Ok(items) = mac.parse_body_with(parse_items) {
        // e.g. thread_local! { static X: T = ..; }
        m.insert("items".into(), Value::Array(items.iter().filter_map(item_json).collect()));
    }
    Value::Object(m)
}

fn parse_items(input: syn::parse::ParseStream) -> Result<Vec<Item>> {
    let mut v = Vec::new();
    while !input.is_empty() {
        v.push(input.parse::<Item>()?);
    }
    Ok(v)
}

fn block_json(b: &Block) -> Value {
    let mut stmts = Vec::new();
    for s in &b.stmts {
        match s {
            Stmt::Local(l) => {
                if !cfg_keep(&l.attrs) {
                    continue;
                }
                let (pat, ty) = match &l.pat {
                    Pat::Type(pt) => (pat_json(&pt.pat), Some(type_json(&pt.ty))),
                    p => (pat_json(p), None),
                };
                let mut m = Map::new();
                m.insert("k".into(), "let".into());
                m.insert("pat".into(), pat);
                if let Some(ty) = ty {
                    m.insert("ty".into(), ty);
                }
                if let Some(init) = &l.init {
                    m.insert("init".into(), expr_json(&init.expr));
                    if let Some((_, e)) = &init.diverge {
                        m.insert("else".into(), expr_json(e));
                    }
                }
                m.insert("l".into(), line(l.span()).into());
                stmts.push(Value::Object(m));
            }
            Stmt::Item(i) => {
                if let Some(j) = item_json(i) {
                    stmts.push(json!({"k": "item", "item": j, "l": line(i.span())}));
                }
            }
            Stmt::Expr(e, semi) => {
                if !cfg_keep(expr_attrs(e)) {
                    continue;
                }
                stmts.push(json!({"k": "expr", "e": expr_json(e), "semi": semi.is_some(), "l": line(e.span())}));
            }
            Stmt::Macro(sm) => {
                if !cfg_keep(&sm.attrs) {
                    continue;
                }
                stmts.push(json!({"k": "expr", "e": with_pos(macro_json(&sm.mac), sm.span()),
                    "semi": sm.semi_token.is_some(), "l": line(sm.span())}));
            }
        }
    }
    json!({"k": "block", "stmts": stmts, "l": line(b.span()), "el": endline(b.span())})
}

fn expr_attrs(e: &Expr) -> &[Attribute] {
    match e {
        Expr::Call(x) => &x.attrs,
        Expr::MethodCall(x) => &x.attrs,
        Expr::Block(x) => &x.attrs,
        Expr::If(x) => &x.attrs,
        Expr::Match(x) => &x.attrs,
        Expr::Macro(x) => &x.attrs,
        Expr::Let(x) => &x.attrs,
        Expr::Assign(x) => &x.attrs,
        _ => &[],
    }
}

fn expr_json(e: &Expr) -> Value {
    let v = match e {
        Expr::Call(c) => json!({"k": "call", "f": expr_json(&c.func),
            "args": c.args.iter().map(expr_json).collect::<Vec<_>>()}),
        Expr::MethodCall(mc) => {
            let mut m = Map::new();
            m.insert("k".into(), "mcall".into());
            m.insert("recv".into(), expr_json(&mc.receiver));
            m.insert("m".into(), mc.method.to_string().into());
            m.insert("args".into(), Value::Array(mc.args.iter().map(expr_json).collect()));
            if let Some(tf) = &mc.turbofish {
                m.insert("turbofish".into(), ts(tf).into());
            }
            Value::Object(m)
        }
        Expr::Path(p) => {
            let mut m = Map::new();
            m.insert("k".into(), "path".into());
            m.insert("p".into(), path_str(&p.path).into());
            let ga = generic_args(&p.path);
            if !ga.is_empty() {
                m.insert("targs".into(), Value::Array(ga));
            }
            if let Some(q) = &p.qself {
                m.insert("qself".into(), ts(&q.ty).into());
            }
            Value::Object(m)
        }
        Expr::Lit(l) => lit_json(&l.lit),
        Expr::Closure(c) => json!({"k": "closure", "move": c.capture.is_some(),
            "params": c.inputs.iter().map(pat_json).collect::<Vec<_>>(),
            "body": expr_json(&c.body)}),
        Expr::Tuple(t) => json!({"k": "tuple", "e": t.elems.iter().map(expr_json).collect::<Vec<_>>()}),
        Expr::Struct(s) => {
            let mut m = Map::new();
            m.insert("k".into(), "struct".into());
            m.insert("p".into(), path_str(&s.path).into());
            m.insert(
                "fields".into(),
                Value::Array(
                    s.fields
                        .iter()
                        .map(|f| json!({"n": ts(&f.member), "e": expr_json(&f.expr), "short": f.colon_token.is_none()}))
                        .collect(),
                ),
            );
            if let Some(r) = &s.rest {
                m.insert("rest".into(), expr_json(r));
            }
            Value::Object(m)
        }
        Expr::Block(b) => {
            let mut v = block_json(&b.block);
            if let (Value::Object(m), Some(l)) = (&mut v, &b.label) {
                m.insert("label".into(), l.name.ident.to_string().into());
            }
            v
        }
        Expr::Unsafe(u) => json!({"k": "unsafe", "body": block_json(&u.block)}),
        Expr::If(i) => {
            let mut m = Map::new();
            m.insert("k".into(), "if".into());
            m.insert("c".into(), expr_json(&i.cond));
            m.insert("t".into(), block_json(&i.then_branch));
            if let Some((_, e)) = &i.else_branch {
                m.insert("e".into(), expr_json(e));
            }
            Value::Object(m)
        }
        Expr::Let(l) => json!({"k": "let", "pat": pat_json(&l.pat), "e": expr_json(&l.expr)}),
        Expr::Match(mt) => {
            let mut arms = Vec::new();
            for a in &mt.arms {
                if !cfg_keep(&a.attrs) {
                    continue;
                }
                let mut m = Map::new();
                m.insert("pat".into(), pat_json(&a.pat));
                if let Some((_, g)) = &a.guard {
                    m.insert("guard".into(), expr_json(g));
                }
                m.insert("body".into(), expr_json(&a.body));
                m.insert("l".into(), line(a.span()).into());
                m.insert("el".into(), endline(a.span()).into());
                arms.push(Value::Object(m));
            }
            json!({"k": "match", "e": expr_json(&mt.expr), "arms": arms})
        }
        Expr::Try(t) => json!({"k": "try", "e": expr_json(&t.expr)}),
        Expr::Reference(r) => json!({"k": "ref", "mut": r.mutability.is_some(), "e": expr_json(&r.expr)}),
        Expr::Unary(u) => json!({"k": "unary", "op": ts(&u.op), "e": expr_json(&u.expr)}),
        Expr::Binary(b) => json!({"k": "binary", "op": ts(&b.op), "l_": expr_json(&b.left), "r": expr_json(&b.right)}),
        Expr::Field(f) => json!({"k": "field", "e": expr_json(&f.base), "m": ts(&f.member)}),
        Expr::Index(i) => json!({"k": "index", "e": expr_json(&i.expr), "i": expr_json(&i.index)}),
        Expr::Macro(m) => macro_json(&m.mac),
        Expr::ForLoop(f) => json!({"k": "for", "pat": pat_json(&f.pat), "e": expr_json(&f.expr), "body": block_json(&f.body)}),
        Expr::While(w) => json!({"k": "while", "c": expr_json(&w.cond), "body": block_json(&w.body)}),
        Expr::Loop(l) => json!({"k": "loop", "body": block_json(&l.body)}),
        Expr::Break(b) => match &b.expr {
            Some(e) => json!({"k": "break", "e": expr_json(e)}),
            None => json!({"k": "break"}),
        },
        Expr::Continue(_) => json!({"k": "continue"}),
        Expr::Return(r) => match &r.expr {
            Some(e) => json!({"k": "return", "e": expr_json(e)}),
            None => json!({"k": "return"}),
        },
        Expr::Assign(a) => json!({"k": "assign", "l_": expr_json(&a.left), "r": expr_json(&a.right)}),
        Expr::Cast(c) => json!({"k": "cast", "e": expr_json(&c.expr), "ty": type_json(&c.ty)}),
        Expr::Paren(p) => return expr_json(&p.expr),
        Expr::Group(p) => return expr_json(&p.expr),
        Expr::Range(r) => {
            let mut m = Map::new();
            m.insert("k".into(), "range".into());
            m.insert("op".into(), ts(&r.limits).into());
            if let Some(s) = &r.start {
                m.insert("from".into(), expr_json(s));
            }
            if let Some(s) = &r.end {
                m.insert("to".into(), expr_json(s));
            }
            Value::Object(m)
        }
        Expr::Array(a) => json!({"k": "array", "e": a.elems.iter().map(expr_json).collect::<Vec<_>>()}),
        Expr::Repeat(r) => json!({"k": "repeat", "e": expr_json(&r.expr), "len": expr_json(&r.len)}),
        Expr::Await(a) => json!({"k": "await", "e": expr_json(&a.base)}),
        other => json!({"k": "other", "s": ts(other)}),
    };
    with_pos(v, e.span())
}

// ---------------------------------------------------------------- items
fn vis_str(v: &Visibility) -> String {
    match v {
        Visibility::Public(_) => "pub".into(),
        Visibility::Restricted(r) => format!("pub({})", path_str(&r.path)),
        Visibility::Inherited => "".into(),
    }
}

fn generics_json(g: &Generics) -> Value {
    let mut params = Vec::new();
    for p in &g.params {
        match p {
            GenericParam::Type(t) => params.push(json!({"k": "type", "n": t.ident.to_string(),
                "bounds": t.bounds.iter().map(|b| ts(b)).collect::<Vec<_>>(),
                "default": t.default.as_ref().map(|d| ts(d))})),
            GenericParam::Lifetime(l) => params.push(json!({"k": "lt", "n": l.lifetime.ident.to_string()})),
            GenericParam::Const(c) => params.push(json!({"k": "const", "n": c.ident.to_string()})),
        }
    }
    let wh: Vec<String> = match &g.where_clause {
        Some(w) => w.predicates.iter().map(|p| ts(p)).collect(),
        None => vec![],
    };
    json!({"params": params, "where": wh})
}

fn sig_json(sig: &Signature) -> Value {
    let mut params = Vec::new();
    for a in &sig.inputs {
        match a {
            FnArg::Receiver(r) => params.push(json!({"k": "self", "ref": r.reference.is_some(), "mut": r.mutability.is_some()})),
            FnArg::Typed(t) => params.push(json!({"k": "typed", "pat": pat_json(&t.pat), "ty": type_json(&t.ty), "tys": ts(&t.ty)})),
        }
    }
    let ret = match &sig.output {
        ReturnType::Default => Value::Null,
        ReturnType::Type(_, t) => type_json(t),
    };
    let rets = match &sig.output {
        ReturnType::Default => String::new(),
        ReturnType::Type(_, t) => ts(t),
    };
    json!({"params": params, "ret": ret, "rets": rets, "generics": generics_json(&sig.generics),
           "unsafe": sig.unsafety.is_some()})
}

fn fn_json(attrs: &[Attribute], vis: &Visibility, sig: &Signature, block: Option<&Block>, sp: Span) -> Value {
    let mut m = Map::new();
    m.insert("k".into(), "fn".into());
    m.insert("name".into(), sig.ident.to_string().into());
    m.insert("vis".into(), vis_str(vis).into());
    m.insert("attrs".into(), attrs_json(attrs));
    m.insert("sig".into(), sig_json(sig));
    if let Some(b) = block {
        m.insert("body".into(), block_json(b));
    }
    m.insert("l".into(), line(sig.ident.span()).into());
    m.insert("el".into(), endline(sp).into());
    Value::Object(m)
}

fn fields_json(f: &Fields) -> Value {
    let mut v = Vec::new();
    for (i, fld) in f.iter().enumerate() {
        if !cfg_keep(&fld.attrs) {
            continue;
        }
        let n = match &fld.ident {
            Some(id) => id.to_string(),
            None => i.to_string(),
        };
        v.push(json!({"n": n, "vis": vis_str(&fld.vis), "ty": type_json(&fld.ty), "tys": ts(&fld.ty)}));
    }
    Value::Array(v)
}

fn item_json(i: &Item) -> Option<Value> {
    let v = match i {
        Item::Fn(f) => {
            if !cfg_keep(&f.attrs) {
                return None;
            }
            fn_json(&f.attrs, &f.vis, &f.sig, Some(&f.block), f.span())
        }
        Item::Struct(s) => {
            if !cfg_keep(&s.attrs) {
                return None;
            }
            json!({"k": "struct", "name": s.ident.to_string(), "vis": vis_str(&s.vis), "attrs": attrs_json(&s.attrs),
                "generics": generics_json(&s.generics),
                "fields": fields_json(&s.fields), "tuple": matches!(s.fields, Fields::Unnamed(_)), "l": line(s.ident.span())})
        }
        Item::Enum(e) => {
            if !cfg_keep(&e.attrs) {
                return None;
            }
            let mut vars = Vec::new();
            for v in &e.variants {
                if !cfg_keep(&v.attrs) {
                    continue;
                }
                vars.push(json!({"name": v.ident.to_string(), "fields": fields_json(&v.fields), "l": line(v.ident.span())}));
            }
            json!({"k": "enum", "name": e.ident.to_string(), "vis": vis_str(&e.vis), "attrs": attrs_json(&e.attrs),
                "generics": generics_json(&e.generics), "variants": vars, "l": line(e.ident.span())})
        }
        Item::Impl(im) => {
            if !cfg_keep(&im.attrs) {
                return None;
            }
            if let Some((_, p, _)) = &im.trait_ {
                let last = p.segments.last().map(|s| s.ident.to_string()).unwrap_or_default();
                if SKIP_IMPLS.with(|s| s.borrow().contains(&last)) {
                    return None;
                }
            }
            let mut items = Vec::new();
            for it in &im.items {
                match it {
                    ImplItem::Fn(f) => {
                        if cfg_keep(&f.attrs) {
                            items.push(fn_json(&f.attrs, &f.vis, &f.sig, Some(&f.block), f.span()));
                        }
                    }
                    ImplItem::Type(t) => items.push(json!({"k": "type", "name": t.ident.to_string(), "ty": type_json(&t.ty)})),
                    ImplItem::Const(c) => items.push(json!({"k": "const", "name": c.ident.to_string(), "ty": type_json(&c.ty), "e": expr_json(&c.expr)})),
                    other => items.push(json!({"k": "other", "s": ts(other)})),
                }
            }
            json!({"k": "impl", "trait": im.trait_.as_ref().map(|(_, p, _)| ts(p)),
                "trait_path": im.trait_.as_ref().map(|(_, p, _)| path_str(p)),
                "self_ty": type_json(&im.self_ty), "self_tys": ts(&im.self_ty),
                "generics": generics_json(&im.generics), "items": items, "attrs": attrs_json(&im.attrs),
                "unsafe": im.unsafety.is_some(), "l": line(im.impl_token.span())})
        }
        Item::Const(c) => {
            if !cfg_keep(&c.attrs) {
                return None;
            }
            json!({"k": "const", "name": c.ident.to_string(), "vis": vis_str(&c.vis), "ty": type_json(&c.ty), "tys": ts(&c.ty),
                "e": expr_json(&c.expr), "l": line(c.ident.span())})
        }
        Item::Static(s) => {
            if !cfg_keep(&s.attrs) {
                return None;
            }
            json!({"k": "static", "name": s.ident.to_string(), "vis": vis_str(&s.vis), "ty": type_json(&s.ty), "tys": ts(&s.ty),
                "mut": matches!(s.mutability, StaticMutability::Mut(_)),
                "e": expr_json(&s.expr), "l": line(s.ident.span())})
        }
        Item::Macro(m) => {
            if !cfg_keep(&m.attrs) {
                return None;
            }
            let mut v = macro_json(&m.mac);
            if let Value::Object(mm) = &mut v {
                mm.insert("k".into(), "item_macro".into());
                mm.insert("attrs".into(), attrs_json(&m.attrs));
                if let Some(id) = &m.ident {
                    mm.insert("name".into(), id.to_string().into());
                }
                mm.insert("l".into(), line(m.span()).into());
            }
            v
        }
        Item::Mod(m) => {
            if !cfg_keep(&m.attrs) {
                return None;
            }
            let mut mm = Map::new();
            mm.insert("k".into(), "mod".into());
            mm.insert("name".into(), m.ident.to_string().into());
            mm.insert("vis".into(), vis_str(&m.vis).into());
            mm.insert("attrs".into(), attrs_json(&m.attrs));
            if let Some((_, items)) = &m.content {
                mm.insert("items".into(), Value::Array(items.iter().filter_map(item_json).collect()));
            }
            mm.insert("l".into(), line(m.ident.span()).into());
            Value::Object(mm)
        }
        Item::Use(u) => {
            if !cfg_keep(&u.attrs) {
                return None;
            }
            json!({"k": "use", "vis": vis_str(&u.vis), "tree": ts(&u.tree), "l": line(u.span())})
        }
        Item::Type(t) => {
            if !cfg_keep(&t.attrs) {
                return None;
            }
            json!({"k": "type", "name": t.ident.to_string(), "vis": vis_str(&t.vis), "ty": type_json(&t.ty), "tys": ts(&t.ty),
                "generics": generics_json(&t.generics), "l": line(t.ident.span())})
        }
        Item::Trait(t) => {
            if !cfg_keep(&t.attrs) {
                return None;
            }
            let mut items = Vec::new();
            for it in &t.items {
                if let TraitItem::Fn(f) = it {
                    items.push(fn_json(&f.attrs, &Visibility::Inherited, &f.sig, f.default.as_ref(), f.span()));
                }
            }
            json!({"k": "trait", "name": t.ident.to_string(), "vis": vis_str(&t.vis), "items": items, "l": line(t.ident.span())})
        }
        Item::ExternCrate(e) => json!({"k": "extern_crate", "name": e.ident.to_string()}),
        other => json!({"k": "other", "s": ts(other)}),
    };
    Some(v)
}

fn file_json(path: &Path) -> Value {
    let src = match std::fs::read_to_string(path) {
        Ok(s) => s,
        Err(e) => return json!({"error": format!("read: {}", e)}),
    };
    match syn::parse_file(&src) {
        Ok(f) => {
            if !cfg_keep(&f.attrs) {
                return json!({"items": [], "attrs": attrs_json(&f.attrs), "lines": src.lines().count(), "cfg_off": true});
            }
            let items: Vec<Value> = f.items.iter().filter_map(item_json).collect();
            json!({"items": items, "attrs": attrs_json(&f.attrs), "lines": src.lines().count()})
        }
        Err(e) => json!({"error": format!("parse: {} at line {}", e, e.span().start().line)}),
    }
}

fn walk(dir: &Path, out: &mut Vec<PathBuf>) {
    let mut entries: Vec<_> = match std::fs::read_dir(dir) {
        Ok(r) => r.filter_map(|e| e.ok()).map(|e| e.path()).collect(),
        Err(_) => return,
    };
    entries.sort();
    for p in entries {
        if p.is_dir() {
            walk(&p, out);
        } else if p.extension().map(|e| e == "rs").unwrap_or(false) {
            out.push(p);
        }
    }
}

fn main() {
    let args: Vec<String> = std::env::args().collect();
    if args.len() < 3 {
        eprintln!("usage: synscan <out.json> [--crate name=dir]... [label=file]...");
        std::process::exit(2);
    }
    let out = &args[1];
    let mut crates = Map::new();
    let mut files = Map::new();
    let mut i = 2;
    while i < args.len() {
        if args[i] == "--skip-impl-of" {
            let v: Vec<String> = args[i + 1].split(',').map(|x| x.to_string()).collect();
            SKIP_IMPLS.with(|s| *s.borrow_mut() = v);
            i += 2;
        } else if args[i] == "--crate" {
            let (name, dir) = args[i + 1].split_once('=').expect("name=dir");
            let dirp = PathBuf::from(dir);
            let mut fl = Vec::new();
            walk(&dirp.join("src"), &mut fl);
            let b = dirp.join("build.rs");
            if b.exists() {
                fl.push(b);
            }
            let mut fm = Map::new();
            for f in fl {
                let rel = f.strip_prefix(&dirp).unwrap().to_string_lossy().to_string();
                fm.insert(rel, file_json(&f));
            }
            crates.insert(name.to_string(), json!({"dir": dir, "files": fm}));
            i += 2;
        } else {
            let (label, f) = args[i].split_once('=').expect("label=file");
            files.insert(label.to_string(), file_json(Path::new(f)));
            i += 1;
        }
    }
    let mut unk = CFG_UNKNOWN.with(|c| c.borrow().clone());
    unk.sort();
    unk.dedup();
    let v = json!({"crates": crates, "files": files, "cfg_unknown": unk, "tool": "synscan 0.1"});
    std::fs::write(out, serde_json::to_string(&v).unwrap()).expect("write");
}
