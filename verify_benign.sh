#!/bin/bash
# usage: verify_benign.sh <ID> — run the unedited suite with each edit applied, in the agent's worktree
ID=$1; W=/tmp/wt/$ID; cd $W || exit 2
LOG=/tmp/wt/verifyb_$ID.log; : > $LOG
git checkout -q -- . 
for e in _benign/edit_*.diff; do
  git apply $e || { echo "$e: does not apply" >> $LOG; continue; }
  r=$(cargo test --workspace --no-fail-fast --offline 2>&1 | grep -E "^test result" | awk '{p+=$4; f+=$6} END {print p" passed "f" failed"}')
  echo "$e: $r" >> $LOG
  git checkout -q -- .
done
echo done >> $LOG
