#!/usr/bin/env python3
"""benigncheck.py <dir-with-edit_n.diff> [props...] — false-alarm test: apply each behaviour-preserving edit to a scratch
copy of /repo and run the checks; every VIOLATION is a false alarm of the machinery (to be fixed in the rule)."""
import glob, os, shutil, subprocess, sys, tempfile, re
d = sys.argv[1]
props = sys.argv[2:] or ['C%02d' % i for i in range(1, 21)]
total = 0
for e in sorted(glob.glob(os.path.join(d, 'edit_*.diff')), key=lambda x: int(re.findall(r'edit_(\d+)', x)[0])):
    s = tempfile.mkdtemp(prefix='verif-benign-')
    try:
        subprocess.run(['rsync', '-a', '--exclude', 'target', '--exclude', '.git', '/repo/', s + '/'], check=True)
        r = subprocess.run(['patch', '-p1', '-s', '-i', e], cwd=s, capture_output=True, text=True)
        if r.returncode != 0:
            print('%s: patch failed' % os.path.basename(e))
            continue
        env = dict(os.environ, VERIF_REPO=s)
        alarms = []
        und = set()
        subprocess.run(['/verif/check', '--warm'], env=env, capture_output=True, text=True)
        from concurrent.futures import ThreadPoolExecutor
        with ThreadPoolExecutor(max_workers=6) as ex:
            outs = list(ex.map(lambda p_: (p_, subprocess.run(['/verif/check', p_], env=env, capture_output=True, text=True)), props))
        for p, r in outs:
            lines = r.stdout.splitlines()
            for i, l in enumerate(lines):
                if l.startswith('UNDECIDED'):
                    und.add(l.split('[')[-1][:80])
                if l.startswith('VIOLATION'):
                    alarms.append('%s: %s' % (p, lines[i - 1][:260] if i else ''))
        uniq = sorted(set(a.split(': ', 1)[1] for a in alarms))
        print('%s: %d false alarm(s) over %d checks, %d rule instance(s) UNDECIDED' % (os.path.basename(e), len(uniq), len(props), len(und)))
        for u in sorted(und):
            print('    (undecided) ' + u)
        for a in uniq:
            who = sorted({x.split(':')[0] for x in alarms if x.split(': ', 1)[1] == a})
            print('    [%s] %s' % (','.join(who), a))
        total += len(uniq)
    finally:
        shutil.rmtree(s, ignore_errors=True)
print('TOTAL false alarms: %d' % total)
